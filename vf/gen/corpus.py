"""Index of the repository's test corpus (iodata/test/data).

corpus_index.json is a cost table measured once (file, pattern-selected format, load time, size, line count):
an optimisation only, the checks do not depend on its `ok` column.  Files whose format cannot be derived
from the name are mapped by hand (the same way the repository's tests load them).
"""

import json
import os

from .. import bootstrap

HERE = os.path.dirname(os.path.abspath(__file__))

EXPLICIT = {
    "h2o_dimer_eda_qchem5.3.out": "qchemlog",
    "water_hf_ccpvtz_freq_qchem.out": "qchemlog",
}
ALSO = {  # files that are valid in a second format when it is requested explicitly
    "al_fcc.xyz": "extxyz",
    "mgo.xyz": "extxyz",
    "s66_4114_02WaterMeOH.xyz": "extxyz",
    "water_extended_trajectory.xyz": "extxyz",
}
WAVEFUNCTION_FORMATS = {"fchk", "molden", "molekel", "wfn", "wfx", "mwfn", "cp2klog"}


def entries(max_cost=None, max_size=None):
    """List of dicts {file, path, fmt, explicit (bool), t, size, nlines}."""
    with open(os.path.join(HERE, "corpus_index.json")) as fh:
        rows = json.load(fh)
    out = []
    for r in rows:
        path = os.path.join(bootstrap.DATA_DIR, r["file"])
        if not os.path.exists(path):
            continue
        fmt = EXPLICIT.get(r["file"], r["fmt"])
        if fmt is None:
            continue
        if max_cost is not None and r["t"] > max_cost:
            continue
        if max_size is not None and r["size"] > max_size:
            continue
        explicit = r["file"] in EXPLICIT or fmt == "json_qcschema"
        out.append({"file": r["file"], "path": path, "fmt": fmt, "explicit": explicit, "t": r["t"], "size": r["size"], "nlines": r["nlines"]})
        if r["file"] in ALSO:
            out.append({"file": r["file"], "path": path, "fmt": ALSO[r["file"]], "explicit": True, "t": r["t"], "size": r["size"],
                        "nlines": r["nlines"]})
    # files added to the corpus after the index was measured
    known = {r["file"] for r in rows}
    for fn in sorted(os.listdir(bootstrap.DATA_DIR)):
        if fn not in known and not fn.startswith("__") and not fn.endswith(".py"):
            out.append({"file": fn, "path": os.path.join(bootstrap.DATA_DIR, fn), "fmt": None, "explicit": False, "t": 1.0,
                        "size": os.path.getsize(os.path.join(bootstrap.DATA_DIR, fn)), "nlines": 0})
    return out


def load(entry, **kwargs):
    from iodata import load_one

    return load_one(entry["path"], fmt=entry["fmt"] if entry["explicit"] else None, **kwargs)
