"""Generators of basis sets, conventions and molecules (iodata objects, built through its public classes)."""

import numpy as np

from ..ref import gto


def rng_for(*ints):
    return np.random.default_rng(np.random.SeedSequence([int(i) & 0xFFFFFFFF for i in ints]))


def tables():
    """All convention tables present in the code base: {name: dict}."""
    from iodata import convert, overlap
    from iodata.formats import cp2klog, fchk, molden, mwfn, wfn

    out = {
        "fchk": fchk.CONVENTIONS,
        "molden": molden.CONVENTIONS,
        "wfn": wfn.CONVENTIONS,
        "mwfn": mwfn.CONVENTIONS,
        "cp2klog": cp2klog.CONVENTIONS,
        "horton2": convert.HORTON2_CONVENTIONS,
        "cca": convert.CCA_CONVENTIONS,
        "overlap": overlap.OVERLAP_CONVENTIONS,
    }
    out["orca"] = orca_table()
    return out


def orca_table():
    """The ORCA conventions used by the Molden vendor fix, obtained by running it on a probe basis."""
    from iodata.basis import MolecularBasis, Shell
    from iodata.formats import molden

    shells = [Shell(0, [0], ["c"], [1.0], [[1.0]])]
    probe = MolecularBasis(shells, molden.CONVENTIONS, "L2")
    return molden._fix_obasis_orca(probe).conventions


def random_conventions(rng, keys, flip=0.3):
    """Random permutation + sign flips for each (l, kind) in keys."""
    conv = {}
    for l, kind in keys:
        labels = sorted(gto.canonical_labels(l, kind))
        order = rng.permutation(len(labels))
        conv[(l, kind)] = [("-" if rng.random() < flip else "") + labels[i] for i in order]
    return conv


def make_shell(icenter, angmoms, kinds, exponents, coeffs):
    from iodata.basis import Shell

    return Shell(icenter, np.array(angmoms), np.array(kinds), np.array(exponents, dtype=float), np.array(coeffs, dtype=float))


def random_shell(rng, icenter, lmax=4, pure_prob=0.5, contraction="segmented", nprim=None, exp_range=(0.05, 50.0),
                 allowed=None, lmin=0):
    """contraction in {'segmented', 'sp', 'generalized'}; allowed = set of (l, kind) keys or None."""
    nprim = nprim or int(rng.integers(1, 4))
    lo, hi = np.log(exp_range[0]), np.log(exp_range[1])
    # well separated exponents
    exps = np.sort(np.exp(rng.uniform(lo, hi, size=nprim)))[::-1]
    for i in range(1, nprim):
        if exps[i] > exps[i - 1] / 1.8:
            exps[i] = exps[i - 1] / (1.8 + rng.random())

    def pick():
        for _ in range(100):
            l = int(rng.integers(lmin, lmax + 1))
            kind = "p" if (l >= 2 and rng.random() < pure_prob) else "c"
            if allowed is None or (l, kind) in allowed:
                return l, kind
        l, kind = sorted(allowed)[0]
        return l, kind

    if contraction == "sp":
        angmoms, kinds = [0, 1], ["c", "c"]
    elif contraction == "generalized":
        ncon = int(rng.integers(2, 5))
        picks = [pick() for _ in range(ncon)]
        angmoms = [p[0] for p in picks]
        kinds = [p[1] for p in picks]
    else:
        l, kind = pick()
        angmoms, kinds = [l], [kind]
    coeffs = rng.uniform(0.2, 1.0, size=(nprim, len(angmoms))) * rng.choice([-1, 1], size=(nprim, len(angmoms)), p=[0.2, 0.8])
    return make_shell(icenter, angmoms, kinds, exps, coeffs)


def shuffle_primitives(rng, sh):
    """The same shell with its primitives listed in a random order (the same functions)."""
    order = rng.permutation(sh.nexp)
    return make_shell(sh.icenter, sh.angmoms, sh.kinds, sh.exponents[order], sh.coeffs[order])


def relayout_shell(rng, sh):
    """The same shell with its arrays in other memory layouts (Fortran-ordered coefficient matrix, strided exponents)."""
    from iodata.basis import Shell

    big = np.zeros(2 * sh.nexp)
    big[::2] = sh.exponents
    coeffs = np.asfortranarray(sh.coeffs) if rng.random() < 0.5 else sh.coeffs[::-1].copy()[::-1]
    return Shell(sh.icenter, sh.angmoms, sh.kinds, big[::2], coeffs)


def make_basis(shells, conventions):
    from iodata.basis import MolecularBasis

    return MolecularBasis(shells, conventions, "L2")


def keys_of(shells):
    return sorted({(int(l), str(k)) for sh in shells for l, k in zip(sh.angmoms, sh.kinds)})


def random_geometry(rng, natom, spread=1.6, mindist=0.9):
    pts = []
    while len(pts) < natom:
        p = rng.normal(scale=spread, size=3)
        if all(np.linalg.norm(p - q) > mindist for q in pts):
            pts.append(p)
    return np.array(pts)
