"""Generators of IOData objects in the documented domain of each of the 13 read/write formats.

make(fmt, rng, klass) returns (IOData, features) where the object carries everything the format requires plus a random
subset of the optional attributes the writer recognises.  Values are index-revealing (atom i has x = base + 1e-3 i ...).
"""

import os
import warnings

import numpy as np

from ..ref import units
from . import corpus
from . import wfnobjects as wo

DUMP_FORMATS = ["xyz", "pdb", "mol2", "sdf", "poscar", "cube", "fcidump", "json_qcschema", "fchk", "molden", "molekel", "wfn", "wfx"]
EXT = {"xyz": "xyz", "pdb": "pdb", "mol2": "mol2", "sdf": "sdf", "poscar": "POSCAR", "cube": "cube", "fcidump": "FCIDUMP",
       "json_qcschema": "json", "fchk": "fchk", "molden": "molden", "molekel": "mkl", "wfn": "wfn", "wfx": "wfx"}
MANY_FORMATS = ["xyz", "pdb", "mol2", "sdf"]


def filename(fmt, stem="out"):
    if fmt == "poscar":
        return f"POSCAR_{stem}"
    if fmt == "fcidump":
        return f"{stem}.FCIDUMP"
    return f"{stem}.{EXT[fmt]}"


def explicit_fmt(fmt):
    return fmt if fmt == "json_qcschema" else None


def _coords(rng, natom, mag, decimals):
    """Coordinates in bohr whose value in angstrom has exactly `decimals` decimals (so that printing is lossless)."""
    ang = np.round(rng.uniform(-mag, mag, size=(natom, 3)), decimals)
    ang += np.round(np.arange(natom)[:, None] * 10.0 ** (-min(decimals, 3)), decimals)
    return np.round(ang, decimals) * units.angstrom


def _bonds(rng, natom, nbond, types):
    bonds = []
    seen = set()
    tries = 0
    while len(bonds) < nbond and tries < 50 * nbond + 50:
        tries += 1
        i, j = (int(v) for v in rng.integers(0, natom, size=2))
        if i == j or (min(i, j), max(i, j)) in seen:
            continue
        seen.add((min(i, j), max(i, j)))
        bonds.append((i, j, int(types[int(rng.integers(len(types)))])))  # orientation as drawn: (i, j) need not be sorted
    return np.array(bonds, dtype=int).reshape(-1, 3)


def _title(rng, tag):
    """Single-line ASCII titles: plain, with punctuation / quotes / brackets inside, with repeated inner blanks."""
    n = int(rng.integers(1_000_000))
    return [f"{tag} {n} generated", f"{tag} (run {n}; b3lyp/6-31g*) = 50% a/b #tag", f"{tag} 'quoted' \"double\" x [y] {{z}} {n}",
            f"{tag}  two  blanks   inside {n}", f"{n}", f"{tag}_{n}: E=-1.5e+01, <S^2>=0.75 & more",
            # longer than the 72 / 80 columns some formats reserve for it (still a single line)
            f"{tag} {n} " + "long title copied from the comment line of a geometry optimisation " * 2 + "end"][int(rng.integers(7))]


def make(fmt, rng, klass="small"):
    """klass: small | medium | large (atom counts crossing field-width boundaries) | wide (coordinate magnitudes)."""
    from iodata import IOData
    from iodata.utils import Cube

    natom = {"small": int(rng.integers(1, 9)), "medium": int(rng.choice([9, 10, 99, 100, 101])),
             "large": int(rng.choice([999, 1000, 1001])), "wide": int(rng.integers(2, 7)),
             "huge": int(rng.choice([9999, 10000, 10001, 12000]))}[klass]
    feats = {"fmt": fmt, "klass": klass, "natom": natom}
    opt = lambda p=0.5: bool(rng.random() < p)  # noqa: E731
    if fmt in ("fchk", "molden", "molekel", "wfn", "wfx"):
        nbmax = 24 if fmt in ("molden", "molekel") else 36
        ghosts = "none" if fmt == "molekel" else None
        # documented domain without allow_changes: segmented shells (SP shells also for FCHK), no occs_aminusb
        ctr = str(rng.choice(["segmented", "sp"])) if fmt == "fchk" else "segmented"
        data, f = wo.make(rng, fmt, nbasis_max=nbmax, with_rdms=(fmt == "fchk" and opt()), ghosts=ghosts, contraction=ctr,
                          conv_class="native" if opt(0.5) else None,
                          spin=str(rng.choice(["restricted", "rohf", "unrestricted"])))
        feats.update(f)
        n = data.natom
        if fmt == "fchk":
            if opt():
                data.atmasses = np.round(rng.uniform(1, 200, size=n), 5) * units.amu
                feats["atmasses"] = True
            if opt():
                data.atgradient = np.round(rng.normal(size=(n, 3)), 6)
            if opt(0.3):
                h = rng.normal(size=(3 * n, 3 * n))
                data.athessian = h + h.T
            for key in ("mulliken", "esp", "npa"):
                if opt(0.3):
                    data.atcharges[key] = np.round(rng.normal(size=n), 6)
            if opt():
                data.moments[(1, "c")] = np.round(rng.normal(size=3), 6)
            if opt(0.3):
                data.moments[(2, "c")] = np.round(rng.normal(size=6), 6)
            data.lot = str(rng.choice(["rhf", "b3lyp", "mp2"]))
            data.obasis_name = str(rng.choice(["sto-3g", "6-31g(d)"]))
            data.run_type = "energy"
        if fmt == "molekel" and opt():
            data.atcharges["mulliken"] = np.round(rng.normal(size=n), 6)
        if fmt == "wfx":
            if opt():
                data.atgradient = np.round(rng.normal(size=(n, 3)), 8)
            data.extra["virial_ratio"] = 2.0 + float(np.round(rng.normal() * 1e-3, 6))
        return data, feats
    if fmt == "json_qcschema":
        return _json_donor(rng, feats)
    if fmt == "fcidump":
        norb = int(rng.integers(1, 6))
        h = np.round(rng.normal(size=(norb, norb)), 8)
        one = h + h.T
        two = np.zeros((norb,) * 4)
        from itertools import product

        for i, j, k, l in product(range(norb), repeat=4):
            if two[i, j, k, l] == 0.0:
                v = float(np.round(rng.normal(), 8))
                for a, b, c, d in {(i, j, k, l), (j, i, l, k), (k, j, i, l), (i, l, k, j), (k, l, i, j), (l, k, j, i), (j, k, l, i), (l, i, j, k)}:
                    two[a, b, c, d] = v
        nelec = int(rng.integers(1, 2 * norb + 1))
        spinpol = int(rng.integers(0, min(nelec, 2 * norb - nelec) + 1))
        if (nelec - spinpol) % 2:
            spinpol = max(0, spinpol - 1) if spinpol else 1
        data = IOData(one_ints={"core_mo": one}, two_ints={"two_mo": two}, nelec=nelec, spinpol=spinpol,
                      core_energy=float(np.round(rng.normal(), 8)) if opt(0.7) else None)
        feats.update({"norb": norb, "core_energy": data.core_energy is not None})
        return data, feats
    mag = {"small": 9.0, "medium": 50.0, "large": 90.0, "wide": 900.0, "huge": 400.0}[klass]
    atnums = rng.integers(1, 119, size=natom)  # all elements
    kw = {"atnums": atnums}
    if opt(0.8):
        kw["title"] = _title(rng, fmt)
    if fmt == "xyz":
        kw["atcoords"] = _coords(rng, natom, mag * (10 if klass == "wide" else 1), 10)
    elif fmt == "pdb":
        if klass == "wide":
            mag = 9000.0 if opt() else 900.0
        kw["atcoords"] = _coords(rng, natom, min(mag, 9000.0), 3)
        # the 8.3 columns hold -999.999 .. 9999.999 angstrom
        kw["atcoords"] = np.clip(np.round(kw["atcoords"] / units.angstrom, 3), -999.0, 9999.0) * units.angstrom
        kw["extra"] = {}
        if opt(0.7):
            kw["atffparams"] = {"attypes": np.array([f"A{i % 1000}"[:4] for i in range(natom)]),
                                "restypes": np.array([str(rng.choice(["ALA", "GLY", "HOH"])) for _ in range(natom)]),
                                "resnums": (np.arange(natom) // 3 + 1) % 10000}
        if opt():
            kw["extra"]["occupancies"] = np.round(rng.uniform(0, 1, size=natom), 2)
            kw["extra"]["bfactors"] = np.round(rng.uniform(0, 999, size=natom), 2)
        if opt():
            kw["extra"]["chainids"] = np.array([str(rng.choice(list("ABC"))) for _ in range(natom)])
        if (opt() or klass == "huge") and natom > 1:
            kw["bonds"] = _bonds(rng, natom, int(rng.integers(1, min(2 * natom, 40))), [bond_un()])
            if klass == "huge":
                hi = np.array([[natom - 1 - k, natom - 3 - 2 * k, bond_un()] for k in range(6)])
                kw["bonds"] = np.concatenate([kw["bonds"], np.sort(hi[:, :2], axis=1).tolist() and np.column_stack([np.sort(hi[:, :2], axis=1), hi[:, 2]])])
    elif fmt == "mol2":
        kw["atcoords"] = _coords(rng, natom, mag, 4)
        if opt(0.7):
            kw["atcharges"] = {"mol2charges": np.round(rng.normal(size=natom), 4)}
        if opt(0.7):
            kw["atffparams"] = {"attypes": np.array([f"{'C.3' if i % 2 else 'N.ar'}" for i in range(natom)])}
        if opt() and natom > 1:
            kw["bonds"] = _bonds(rng, natom, int(rng.integers(1, min(2 * natom, 60))), bond_types_mol2())
    elif fmt == "sdf":
        kw["atcoords"] = _coords(rng, natom, min(mag, 9000.0) if klass != "wide" else 9000.0, 4)
        if natom > 1 and opt(0.8) and natom <= 999:
            nb = int(rng.integers(1, min(2 * natom, 999)))
            if klass == "medium" and opt():
                nb = min(int(rng.choice([99, 100, 150])), natom * (natom - 1) // 2)
            kw["bonds"] = _bonds(rng, natom, nb, list(range(1, 9)))
    elif fmt == "poscar":
        kw["atcoords"] = _coords(rng, natom, mag, 6)
        a = rng.normal(size=(3, 3)) + 4 * np.eye(3)
        kw["cellvecs"] = np.round(a, 6) * units.angstrom
    elif fmt == "cube":
        kw["atcoords"] = np.round(rng.uniform(-mag, mag, size=(natom, 3)), 6) + np.arange(natom)[:, None] * 1e-3
        shape = tuple(int(v) for v in rng.integers(1, 8, size=3))
        if opt():
            shape = (shape[0], shape[1], int(rng.choice([1, 5, 6, 7, 12, 13])))
        vals = np.round(rng.normal(size=shape), 5)
        kw["cube"] = Cube(origin=np.round(rng.normal(size=3), 6), axes=np.round(rng.normal(size=(3, 3)) * 0.1 + 0.3 * np.eye(3), 6), data=vals)
        if opt():
            core = atnums.astype(float)
            core[int(rng.integers(natom))] = float(max(1, atnums[0] - 2))
            kw["atcorenums"] = core
        feats["cube_shape"] = shape
    data = IOData(**kw)
    feats.update({k: True for k in kw if k not in ("atnums", "atcoords")})
    return data, feats


def bond_un():
    from iodata.periodic import bond2num

    return bond2num["un"]


def bond_types_mol2():
    from iodata.periodic import bond2num

    return sorted(set(bond2num.values()))


_JSON_DONORS = None
_JSON_LOCK = __import__("threading").Lock()


def _json_donor(rng, feats):
    """QCSchema objects are taken from the corpus (the schema needs consistent nested `extra` dictionaries)."""
    import iodata

    global _JSON_DONORS
    with _JSON_LOCK:  # the monitor's own state must be thread-safe (C16 calls this from several threads)
        if _JSON_DONORS is None:
            donors = []
            for e in corpus.entries():
                if e["fmt"] == "json_qcschema":
                    with warnings.catch_warnings():
                        warnings.simplefilter("ignore")
                        try:
                            iodata.load_one(e["path"], fmt="json_qcschema")
                            donors.append(e)
                        except Exception:
                            pass
            _JSON_DONORS = donors
    e = _JSON_DONORS[int(rng.integers(len(_JSON_DONORS)))]
    with warnings.catch_warnings():
        warnings.simplefilter("ignore")
        data = iodata.load_one(e["path"], fmt="json_qcschema")
    feats.update({"donor": e["file"], "natom": data.natom})
    return data, feats


def _relayout_array(x, rng):
    """An array with the same values, shape and dtype but another memory layout (Fortran order, strided or reversed view)."""
    if not isinstance(x, np.ndarray) or x.dtype.kind not in "fi" or x.size < 2:
        return x
    mode = int(rng.integers(0, 4))
    if mode == 3:
        y = x.copy()
        y.setflags(write=False)  # a read-only array (e.g. memory-mapped or handed out by another library)
        return y
    if x.ndim >= 2 and mode == 0:
        return np.asfortranarray(x)
    if mode == 1:
        big = np.zeros(x.shape[:-1] + (2 * x.shape[-1],), dtype=x.dtype)
        big[..., ::2] = x
        return big[..., ::2]
    return x[::-1].copy()[::-1]


def relayout(data, rng):
    """Replace the numerical arrays of an IOData object by equal arrays with a different memory layout, in place.

    Nothing in the documentation restricts attributes to C-contiguous arrays; numpy code that walks memory instead of indices
    (nditer, ravel(order="K"), .data, tofile) behaves differently on such arrays.
    """
    import attrs

    for name in ("atcoords", "atgradient", "athessian", "atmasses", "cellvecs", "atcorenums", "atfrozen"):
        x = getattr(data, name, None)
        if isinstance(x, np.ndarray):
            setattr(data, name, _relayout_array(x, rng))
    for name in ("atcharges", "one_ints", "one_rdms", "two_ints", "two_rdms", "moments"):
        d = getattr(data, name, None)
        if isinstance(d, dict) and d:
            setattr(data, name, {k: _relayout_array(v, rng) for k, v in d.items()})
    if data.cube is not None:
        data.cube = attrs.evolve(data.cube, data=_relayout_array(data.cube.data, rng), axes=_relayout_array(data.cube.axes, rng))
    if data.mo is not None:
        mo = data.mo
        data.mo = attrs.evolve(mo, coeffs=_relayout_array(mo.coeffs, rng), occs=_relayout_array(mo.occs, rng),
                               energies=_relayout_array(mo.energies, rng))
    return data


def json_built(rng):
    """A user-built QCSchema object (molecule or input) whose nested dictionaries carry unset (None) options, empty
    dictionaries and ordinary values: the kind of object a script assembles before writing an input for QCEngine."""
    from iodata import IOData

    natom = int(rng.integers(1, 6))
    atnums = rng.integers(1, 19, size=natom)
    nelec = int(atnums.sum())
    kw = dict(atnums=atnums, atcoords=np.round(rng.normal(scale=2.0, size=(natom, 3)), 6), charge=0, spinpol=nelec % 2,
              title=f"built {int(rng.integers(1000))}")

    def options(n):
        out = {}
        for k in range(n):
            out[f"opt{k}"] = [None, None, int(rng.integers(100)), "text", 0.5, True][int(rng.integers(6))]
        return out

    only_none = {"scf_guess": None, "maxiter": None}
    pick = lambda: [only_none, {}, options(int(rng.integers(1, 4))), {"a": None}][int(rng.integers(4))]  # noqa: E731
    if rng.random() < 0.5:
        extra = {"schema_name": "qcschema_molecule", "molecule": {"extras": pick()}}
        kind = "molecule"
    else:
        kw.update(lot=str(rng.choice(["b3lyp", "hf"])), obasis_name=str(rng.choice(["cc-pvdz", "sto-3g"])))
        extra = {"schema_name": "qcschema_input", "molecule": {} if rng.random() < 0.5 else {"extras": pick()},
                 "input": {"driver": str(rng.choice(["energy", "gradient"])), "model": {}, "keywords": pick()}}
        if rng.random() < 0.5:
            extra["input"]["extras"] = pick()
        kind = "input"
    return IOData(extra=extra, **kw), {"built": kind}
