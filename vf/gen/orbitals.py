"""Generators of MolecularOrbitals objects."""

import numpy as np

OCC_CLASSES = ["closed", "rohf", "nearint", "fractional", "natural_negative", "aminusb", "aminusb_neg", "aminusb_zero", "aminusb_cancel", "none", "empty"]


def documented_spin_occupations(occs, occs_aminusb):
    """Alpha/beta occupations of restricted orbitals by the rules in the MolecularOrbitals docstring."""
    occs = np.asarray(occs, dtype=float)
    if occs_aminusb is not None:
        d = np.asarray(occs_aminusb, dtype=float)
        return (occs + d) / 2, (occs - d) / 2
    if (occs == np.round(occs)).all():
        a = np.clip(occs, 0, 1)
        return a, occs - a
    return occs / 2, occs / 2


def admissible_spin_occupations(occs, occs_aminusb):
    """All alpha/beta splittings the documentation admits: for occupations that are integers only up to noise (< 1e-6, e.g.
    natural occupations out of a diagonalisation) it does not say whether they count as integers, so both rules are admitted."""
    occs = np.asarray(occs, dtype=float)
    first = documented_spin_occupations(occs, occs_aminusb)
    if occs_aminusb is not None or (occs == np.round(occs)).all() or not (np.abs(occs - np.round(occs)) < 1e-6).all():
        return [first]
    a = np.clip(occs, 0, 1)
    return [first, (a, occs - a)]


def restricted_occupations(rng, norb, occ_class):
    """Return (occs, occs_aminusb) for a restricted set."""
    if occ_class == "none":
        return None, None
    if occ_class == "empty":
        return np.zeros(norb), None
    if occ_class == "closed":
        nocc = int(rng.integers(1, norb + 1)) if norb else 0
        return np.where(np.arange(norb) < nocc, 2.0, 0.0), None
    if occ_class == "rohf":
        nd = int(rng.integers(0, norb)) if norb > 1 else 0
        ns = int(rng.integers(1, norb - nd + 1)) if norb - nd >= 1 else 0
        occs = np.zeros(norb)
        occs[:nd] = 2.0
        occs[nd:nd + ns] = 1.0
        return occs, None
    if occ_class == "nearint":
        occs, _ = restricted_occupations(rng, norb, "rohf")
        noise = rng.choice([1e-9, -3e-10, 2e-13, 0.0], size=norb)
        occs = np.abs(occs + noise)
        if norb and (occs == np.round(occs)).all():
            occs[0] += 1e-9
        return occs, None
    if occ_class == "natural_negative":
        # natural occupations of a correlated response density: a few slightly below 0 or above 2 (and, with an explicit
        # alpha-minus-beta part, spin occupations below zero)
        occs = np.sort(rng.uniform(0.0, 2.0, size=norb))[::-1].copy()
        if norb:
            occs[0] = 2.0004
            occs[-1] = -0.0005
        if norb > 2:
            occs[-2] = -1.3e-4
        aminusb = None
        if rng.random() < 0.5:
            aminusb = rng.uniform(-0.3, 0.3, size=norb)
        return occs, aminusb
    if occ_class == "fractional":
        occs = np.sort(rng.uniform(0.0, 2.0, size=norb))[::-1].copy()
        if norb:
            occs[0] = 1.9371
        return occs, None
    if occ_class == "aminusb_zero":
        # explicit, exactly zero alpha-minus-beta occupation on integer (open-shell) or fractional occupations
        occs, _ = restricted_occupations(rng, norb, str(rng.choice(["rohf", "closed", "fractional"])))
        return occs, np.zeros(norb)
    if occ_class == "aminusb_cancel":
        # overall singlet with spin-polarised orbitals: non-zero alpha-minus-beta occupations that add up to exactly zero
        # (open-shell singlet / antiferromagnetically coupled natural orbitals); dyadic values, so every sum is exact
        if norb < 2:
            return restricted_occupations(rng, norb, "aminusb_zero")
        nd = int(rng.integers(0, norb - 1))
        npair = int(rng.integers(1, (norb - nd) // 2 + 1))
        occs = np.zeros(norb)
        occs[:nd] = 2.0
        d = np.zeros(norb)
        for j in range(npair):
            x = 1.0 if rng.random() < 0.5 else float(rng.integers(1, 8)) / 8
            occs[nd + 2 * j: nd + 2 * j + 2] = 1.0 if x == 1.0 else float(rng.integers(8, 13)) / 8
            lim = min(occs[nd + 2 * j], 2 - occs[nd + 2 * j])
            d[nd + 2 * j] = min(x, lim)
            d[nd + 2 * j + 1] = -min(x, lim)
        return occs, d
    if occ_class in ("aminusb", "aminusb_neg"):
        occs = np.sort(rng.uniform(0.0, 2.0, size=norb))[::-1].copy()
        lim = np.minimum(occs, 2 - occs)
        d = rng.uniform(0, 1, size=norb) * lim
        if occ_class == "aminusb_neg":
            d = -d
        return occs, d
    raise ValueError(occ_class)


def random_mo(rng, kind, nbasis, norba, norbb=None, occ_class="closed", with_energies=True, with_irreps=False,
              with_coeffs=True):
    from iodata.orbitals import MolecularOrbitals

    if kind == "restricted":
        norbb = norba
        norb = norba
        occs, aminusb = restricted_occupations(rng, norb, occ_class)
    elif kind == "unrestricted":
        norbb = norba if norbb is None else norbb
        norb = norba + norbb
        if occ_class == "none":
            occs = None
        elif occ_class == "fractional":
            occs = rng.uniform(0, 1, size=norb)
        else:
            na = int(rng.integers(0, norba + 1))
            nb = int(rng.integers(0, norbb + 1))
            occs = np.concatenate([np.where(np.arange(norba) < na, 1.0, 0.0), np.where(np.arange(norbb) < nb, 1.0, 0.0)])
        aminusb = None
    else:
        norb = norba
        norba = norbb = None
        occs = None if occ_class == "none" else np.where(np.arange(norb) < max(1, norb // 2), 1.0, 0.0)
        aminusb = None
    nrow = nbasis * (2 if kind == "generalized" else 1)
    coeffs = rng.normal(size=(nrow, norb)) if with_coeffs else None
    energies = np.sort(rng.normal(size=norb)) if with_energies else None
    irreps = np.array([f"a{i}" for i in range(norb)]) if with_irreps else None
    return MolecularOrbitals(kind, norba, norbb, occs, coeffs, energies, irreps, aminusb)
