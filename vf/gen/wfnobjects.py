"""Generator of IOData objects holding nuclei, a Gaussian basis and orthonormal molecular orbitals.

Orbitals are orthonormal by construction w.r.t. the EXACT overlap of the basis in the object's own conventions
(R.gto.overlap_exact): C = S^-1/2 Q with a random orthogonal Q.
"""

import numpy as np

from ..ref import gto
from . import basis as gb

TARGETS = ["fchk", "molden", "molekel", "wfn", "wfx"]
SHELL_ORDERS = ["by_atom", "shuffled", "skipped_centres"]
CONTRACTIONS = ["segmented", "sp", "generalized"]
# "native_signs": the target's own ordering with sign flips only (no function changes place); "native_order_mixed": the target's own
# ordering for some shell types, another table for the rest
CONV_CLASSES = ["native", "horton2", "cca", "other_table", "random", "native_signs"]
# "aminusb_zero": spin-unpolarised open shell (integer occupations incl. singly occupied orbitals, occs_aminusb explicitly zero)
SPIN_KINDS = ["restricted", "rohf", "unrestricted", "aminusb", "fractional", "aminusb_zero"]


def allowed_shell_types(target, rng=None, beyond=False):
    """Shell types (l, kind) the target's convention table supports."""
    tabs = gb.tables()
    table = {"fchk": tabs["fchk"], "molden": tabs["molden"], "molekel": tabs["molden"], "wfn": tabs["wfn"], "wfx": tabs["wfn"]}[target]
    keys = sorted(table)
    if target in ("wfn", "wfx"):
        keys = [k for k in keys if k[1] == "c"]
    return keys


def native_conventions(target):
    tabs = gb.tables()
    return {"fchk": tabs["fchk"], "molden": tabs["molden"], "molekel": tabs["molden"], "wfn": tabs["wfn"], "wfx": tabs["wfn"]}[target]


def sym_inv_sqrt(S):
    w, v = np.linalg.eigh(S)
    return (v / np.sqrt(w)) @ v.T, w


def _integer_total(rng, occs):
    """Fractional (natural-orbital like) occupations in [0, 2] with an integer, positive total and a non-integer entry."""
    n = len(occs)
    if n == 1:
        return np.array([float(rng.choice([1.0, 2.0]))])
    occs = occs.copy()
    occs[0] = 1.9375
    total = max(1, int(round(occs.sum())))
    for _ in range(100):
        rest = total - occs[:-1].sum()
        if 0.0 <= rest <= 2.0:
            occs[-1] = rest
            return np.sort(occs)[::-1].copy()
        k = int(rng.integers(1, n))
        occs[k] = float(rng.uniform(0.0, 2.0))
        total = max(1, int(round(occs.sum())))
    occs[:] = 0.0
    occs[0] = 1.5
    occs[1] = 0.5
    return occs


def _title(rng):
    n = int(rng.integers(1e6))
    return [f"generated wavefunction {n}", f"wfn (run {n}; b3lyp/6-31g*) = 50% a/b #tag", f"wfn 'quoted' \"double\" x [y] {{z}} {n}",
            f"wfn  two  blanks   inside {n}", f"{n}", f"wfn_{n}: E=-1.5e+01, <S^2>=0.75 & more",
            f"wfn {n} " + "long title copied from the comment line of a geometry optimisation " * 2 + "end"][int(rng.integers(7))]


def make(rng, target, lmax=None, shell_order=None, contraction=None, conv_class=None, spin=None, virtuals=None, ghosts=None,
         nbasis_max=30, with_rdms=False, natom=None, pure_mix=False, force_kinds=None, need_l=()):
    """Return (IOData, features dict). All class choices are drawn when not given."""
    from iodata import IOData
    from iodata.orbitals import MolecularOrbitals

    shell_order = shell_order or str(rng.choice(SHELL_ORDERS, p=[0.5, 0.3, 0.2]))
    contraction = contraction or str(rng.choice(CONTRACTIONS, p=[0.5, 0.25, 0.25]))
    conv_class = conv_class or str(rng.choice(CONV_CLASSES, p=[0.25, 0.15, 0.1, 0.15, 0.2, 0.15]))
    spin = spin or str(rng.choice(SPIN_KINDS))
    virtuals = bool(rng.integers(0, 2)) if virtuals is None else virtuals
    ghosts = str(rng.choice(["none", "ghost", "ecp"], p=[0.6, 0.2, 0.2])) if ghosts is None else ghosts
    allowed = allowed_shell_types(target)
    lcap = max(l for l, _ in allowed)
    lmax = min(lcap, int(rng.choice([1, 2, 3, 4, 5, 9], p=[0.15, 0.3, 0.25, 0.15, 0.1, 0.05]))) if lmax is None else lmax
    allowed_l = [k for k in allowed if k[0] <= lmax]
    # Molden-like formats cannot mix pure and Cartesian for one l: choose one kind per l (unless pure_mix is requested)
    if not pure_mix:
        kind_of = {}
        for l in range(lmax + 1):
            kinds = [k for (ll, k) in allowed_l if ll == l]
            kind_of[l] = str(rng.choice(kinds)) if kinds else None
            if force_kinds and l in force_kinds and force_kinds[l] in kinds:
                kind_of[l] = force_kinds[l]
        allowed_l = [(l, k) for (l, k) in allowed_l if kind_of.get(l) == k]
    natom = natom or int(rng.integers(1, 7))
    atnums = rng.integers(1, 19, size=natom)
    atcoords = gb.random_geometry(rng, natom, spread=1.5, mindist=1.0)
    atcorenums = atnums.astype(float)
    if ghosts == "ghost" and natom > 1:
        atcorenums[int(rng.integers(natom))] = 0.0
    elif ghosts == "ecp":
        i = int(rng.integers(natom))
        atnums[i] = int(rng.integers(11, 19))
        atcorenums[i] = float(atnums[i] - 10)
    # shells (regenerated until the basis is well conditioned: cond(S) < 1e6)
    centres = list(range(natom))
    if shell_order == "skipped_centres" and natom > 1:
        centres = sorted(rng.choice(natom, size=max(1, natom - 1 - int(rng.integers(0, max(1, natom - 1)))), replace=False).tolist())
    native = native_conventions(target)
    tabs = gb.tables()
    for _attempt in range(50):
        shells = []
        nb = 0
        tries = 0
        # shells that must be present (directed cases: e.g. a pure d next to a Cartesian f shell)
        for l in need_l:
            ks = [k for (ll, k) in allowed_l if ll == l]
            if ks:
                sh = gb.random_shell(rng, centres[len(shells) % len(centres)], lmax=l, lmin=l, contraction="segmented", nprim=1,
                                     exp_range=(0.3, 3.0), allowed={(l, ks[0])})
                shells.append(sh)
                nb += sh.nbasis
        while tries < 200:
            tries += 1
            ic = centres[len(shells) % len(centres)] if len(shells) < len(centres) else int(rng.choice(centres))
            ctr = contraction if rng.random() < 0.6 else "segmented"
            if ctr == "sp" and not ((0, "c") in allowed_l and (1, "c") in allowed_l):
                ctr = "segmented"
            sh = gb.random_shell(rng, ic, lmax=lmax, contraction=ctr, nprim=int(rng.integers(1, 4)), exp_range=(0.08, 300.0),
                                 allowed=set(allowed_l))
            # no more contractions of one type than primitives (else the shell is linearly dependent)
            types = [(int(l), str(k)) for l, k in zip(sh.angmoms, sh.kinds)]
            if max(types.count(t) for t in types) > sh.nexp:
                continue
            if nb + sh.nbasis > nbasis_max:
                if len(shells) >= len(centres):
                    break
                continue
            shells.append(sh)
            nb += sh.nbasis
            if len(shells) >= len(centres) and rng.random() < 0.25:
                break
        if not shells:
            shells = [gb.make_shell(centres[0], [0], ["c"], [0.5], [[1.0]])]
        if shell_order == "by_atom":
            shells.sort(key=lambda s: s.icenter)
        else:
            order = rng.permutation(len(shells))
            shells = [shells[i] for i in order]
        keys = gb.keys_of(shells)
        # conventions
        if conv_class == "native":
            conv = {k: list(native[k]) for k in keys}
        elif conv_class == "horton2":
            conv = {k: list(tabs["horton2"][k]) for k in keys}
        elif conv_class == "cca":
            conv = {k: list(tabs["cca"][k]) for k in keys}
        elif conv_class == "native_signs":
            conv = {k: [("" if (lab.startswith("-") or rng.random() < 0.5) else "-") + lab for lab in native[k]] for k in keys}
            if all(lab == nat for k in keys for lab, nat in zip(conv[k], native[k])):
                k0 = keys[-1]
                conv[k0][0] = "-" + conv[k0][0].lstrip("-")
        elif conv_class == "other_table":
            others = [t for n, t in tabs.items() if all(k in t for k in keys) and t is not native]
            t = others[int(rng.integers(len(others)))] if others else tabs["horton2"]
            conv = {k: list(t[k]) for k in keys}
        else:
            conv = gb.random_conventions(rng, keys)
        obasis = gb.make_basis(shells, conv)
        nbasis = obasis.nbasis
        # orthonormal orbitals
        S = gto.overlap_exact(obasis, atcoords)
        X, w = sym_inv_sqrt(S)
        cond = w.max() / max(w.min(), 1e-300)
        if w.min() > 0 and cond < 1e6:
            break
    else:
        raise RuntimeError("could not generate a well-conditioned basis")

    def orth(n):
        q, r = np.linalg.qr(rng.normal(size=(nbasis, nbasis)))
        return (X @ (q * np.sign(np.diag(r))))[:, :n]

    norb = nbasis if virtuals else max(1, int(rng.integers(1, nbasis + 1)))
    energies = np.sort(rng.uniform(-20.0, 5.0, size=norb))
    aminusb = None
    if spin == "unrestricted":
        norbb = norb
        na = int(rng.integers(1, norb + 1))
        nbeta = int(rng.integers(0, na + 1))
        occs = np.concatenate([np.where(np.arange(norb) < na, 1.0, 0.0), np.where(np.arange(norbb) < nbeta, 1.0, 0.0)])
        coeffs = np.concatenate([orth(norb), orth(norbb)], axis=1)
        en = np.concatenate([energies, np.sort(rng.uniform(-20.0, 5.0, size=norbb))])
        mo = MolecularOrbitals("unrestricted", norb, norbb, occs, coeffs, en)
    else:
        if spin == "restricted":
            nocc = int(rng.integers(1, norb + 1))
            occs = np.where(np.arange(norb) < nocc, 2.0, 0.0)
        elif spin == "rohf":
            nd = int(rng.integers(0, norb))
            ns = int(rng.integers(1, norb - nd + 1))
            occs = np.zeros(norb)
            occs[:nd] = 2.0
            occs[nd:nd + ns] = 1.0
        elif spin == "aminusb_zero":
            nd = int(rng.integers(0, norb))
            ns = int(rng.integers(1, norb - nd + 1))
            ns += (ns % 2) if nd + ns + (ns % 2) <= norb else -(ns % 2)  # even number of singly occupied orbitals when possible
            ns = max(ns, 1)
            occs = np.zeros(norb)
            occs[:nd] = 2.0
            occs[nd:nd + ns] = 1.0
            aminusb = np.zeros(norb)
        elif spin == "fractional":
            occs = _integer_total(rng, np.sort(rng.uniform(0.0, 2.0, size=norb))[::-1].copy())
        else:  # aminusb
            occs = _integer_total(rng, np.sort(rng.uniform(0.1, 2.0, size=norb))[::-1].copy())
            aminusb = rng.uniform(0, 1, size=norb) * np.minimum(occs, 2 - occs)
        mo = MolecularOrbitals("restricted", norb, norb, occs, orth(norb), energies, None, aminusb)
    kw = dict(atnums=atnums, atcoords=atcoords, atcorenums=atcorenums, obasis=obasis, mo=mo, energy=float(rng.uniform(-200, -1)),
              title=_title(rng))
    if with_rdms and mo.kind != "generalized":
        ca, cb = mo.coeffsa, mo.coeffsb
        da = (ca * mo.occsa) @ ca.T
        db = (cb * mo.occsb) @ cb.T
        kw["one_rdms"] = {"scf": da + db, "scf_spin": da - db}
    data = IOData(**kw)
    feats = {"target": target, "shell_order": shell_order, "contraction": contraction, "conventions": conv_class, "spin": spin,
             "virtuals": virtuals, "centres": ghosts, "lset": ",".join(f"{l}{k}" for l, k in keys), "nbasis": int(nbasis),
             "natom": int(natom), "cond": float(cond), "max_ncon": int(max(s.ncon for s in shells))}
    return data, feats
