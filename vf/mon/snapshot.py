"""M1: deep snapshot / diff of iodata objects (attrs fields AND public properties).

canon(obj) -> nested JSON-like structure where arrays become ("nd", dtype, shape, bytes-hex or list),
so that two snapshots can be compared exactly (NaN-aware) or with tolerances.
"""

import hashlib
import math

import numpy as np

IODATA_PROPS = ["atcorenums", "charge", "natom", "nelec", "spinpol"]
MO_PROPS = ["nelec", "nbasis", "norb", "spinpol", "occsa", "occsb", "coeffsa", "coeffsb", "energiesa", "energiesb",
            "irrepsa", "irrepsb"]
SHELL_PROPS = ["nbasis", "nexp", "ncon"]


def _safe_get(obj, name):
    try:
        return getattr(obj, name)
    except Exception as exc:  # e.g. NotImplementedError for generalized orbitals
        return ("raises", type(exc).__name__)


def canon(obj, with_props=True, _depth=0):
    """Canonical, comparable description of a value."""
    import attrs

    if _depth > 12:
        return ("too-deep",)
    if obj is None or isinstance(obj, (bool, str)):
        return obj
    if isinstance(obj, (int, np.integer)):
        return int(obj)
    if isinstance(obj, (float, np.floating)):
        return ("f", float(obj))
    if isinstance(obj, np.ndarray):
        if obj.dtype.kind in "fc":
            return ("nd", "f", obj.shape, obj.astype(float).tolist(), bool(obj.flags.writeable))
        if obj.dtype.kind in "iub":
            return ("nd", obj.dtype.kind, obj.shape, obj.tolist(), bool(obj.flags.writeable))
        return ("nd", "o", obj.shape, [str(x) for x in obj.ravel().tolist()], bool(obj.flags.writeable))
    if isinstance(obj, dict):
        return ("dict", [(canon(k, with_props, _depth + 1), canon(v, with_props, _depth + 1)) for k, v in obj.items()])
    if isinstance(obj, (list, tuple)):
        return (type(obj).__name__, [canon(v, with_props, _depth + 1) for v in obj])
    if attrs.has(type(obj)):
        out = {}
        if type(obj).__name__ == "IOData":
            # the lazy default of the core charges is declared "not a change": fill it in before looking
            _safe_get(obj, "atcorenums")
        for a in attrs.fields(type(obj)):
            out[a.name] = canon(getattr(obj, a.name), with_props, _depth + 1)
        if with_props:
            name = type(obj).__name__
            props = {"IOData": IODATA_PROPS, "MolecularOrbitals": MO_PROPS, "Shell": SHELL_PROPS, "MolecularBasis": ["nbasis"],
                     "Cube": ["shape"]}.get(name, [])
            for p in props:
                out["@" + p] = canon(_safe_get(obj, p), with_props, _depth + 1)
        return ("attrs", type(obj).__name__, out)
    if isinstance(obj, (bytes, bytearray)):
        return ("bytes", hashlib.sha256(bytes(obj)).hexdigest())
    if isinstance(obj, complex):
        return ("c", obj.real, obj.imag)
    return ("repr", type(obj).__name__, repr(obj))


def _num_equal(a, b, rtol, atol):
    if isinstance(a, float) and isinstance(b, float):
        if math.isnan(a) and math.isnan(b):
            return True
        if a == b:
            return not (SIGNED_ZERO and a == 0 and math.copysign(1.0, a) != math.copysign(1.0, b))
        if rtol or atol:
            return abs(a - b) <= atol + rtol * max(abs(a), abs(b))
        return False
    return a == b


# bit-level comparison of floats: when set, -0.0 and 0.0 count as different (used by C15, "bit-identical")
SIGNED_ZERO = False


def diff(a, b, path="", rtol=0.0, atol=0.0, out=None, limit=20, ignore=()):
    """List of (path, a, b) differences between two canon() structures."""
    if out is None:
        out = []
    if len(out) >= limit:
        return out
    if any(path.endswith(ig) for ig in ignore):
        return out
    if type(a) is not type(b):
        out.append((path, _short(a), _short(b)))
        return out
    if isinstance(a, tuple) and a and a[0] == "nd" and isinstance(b, tuple) and b and b[0] == "nd":
        if a[1] != b[1] or tuple(a[2]) != tuple(b[2]):
            out.append((path + ":dtype/shape", (a[1], a[2]), (b[1], b[2])))
            return out
        if a[1] == "f":
            x = np.array(a[3], dtype=float)
            y = np.array(b[3], dtype=float)
            same = (x == y) | (np.isnan(x) & np.isnan(y))
            if SIGNED_ZERO:
                same &= ~((x == 0) & (y == 0) & (np.signbit(x) != np.signbit(y)))
            if rtol or atol:
                with np.errstate(invalid="ignore"):
                    same |= np.abs(x - y) <= atol + rtol * np.maximum(np.abs(x), np.abs(y))
            if not same.all():
                idx = tuple(int(i) for i in np.argwhere(~same)[0])
                out.append((path + f"[{idx}]", float(x[idx]), float(y[idx])))
        elif a[3] != b[3]:
            out.append((path, _short(a[3]), _short(b[3])))
        if len(a) > 4 and len(b) > 4 and a[4] != b[4]:
            out.append((path + ":writeable", a[4], b[4]))
        return out
    if isinstance(a, tuple) and a and a[0] == "f":
        if not _num_equal(a[1], b[1], rtol, atol):
            out.append((path, a[1], b[1]))
        return out
    if isinstance(a, tuple) and a and a[0] == "attrs":
        if a[1] != b[1]:
            out.append((path + ":class", a[1], b[1]))
            return out
        for k in a[2]:
            diff(a[2][k], b[2].get(k, ("missing",)), f"{path}.{k}", rtol, atol, out, limit, ignore)
        return out
    if isinstance(a, tuple) and a and a[0] == "dict":
        da = {repr(k): v for k, v in a[1]}
        db = {repr(k): v for k, v in b[1]}
        if list(da) != list(db):
            if sorted(da) != sorted(db):
                out.append((path + ":keys", sorted(da), sorted(db)))
                return out
            out.append((path + ":key-order", list(da), list(db)))
        for k in da:
            diff(da[k], db[k], f"{path}[{k}]", rtol, atol, out, limit, ignore)
        return out
    if isinstance(a, tuple) and a and a[0] in ("list", "tuple"):
        if len(a[1]) != len(b[1]):
            out.append((path + ":len", len(a[1]), len(b[1])))
            return out
        for i, (x, y) in enumerate(zip(a[1], b[1])):
            diff(x, y, f"{path}[{i}]", rtol, atol, out, limit, ignore)
        return out
    if a != b:
        out.append((path, _short(a), _short(b)))
    return out


def _short(x):
    s = repr(x)
    return s if len(s) < 200 else s[:200] + "..."


def identity_map(obj, path="", out=None, _depth=0):
    """path -> id(object) for every container/array reachable from an attrs object (member identities)."""
    import attrs

    if out is None:
        out = {}
    if _depth > 8 or obj is None or isinstance(obj, (bool, str, int, float)):
        return out
    out[path] = id(obj)
    if isinstance(obj, dict):
        for k, v in obj.items():
            identity_map(v, f"{path}[{k!r}]", out, _depth + 1)
    elif isinstance(obj, (list, tuple)):
        for i, v in enumerate(obj):
            identity_map(v, f"{path}[{i}]", out, _depth + 1)
    elif attrs.has(type(obj)):
        for a in attrs.fields(type(obj)):
            identity_map(getattr(obj, a.name), f"{path}.{a.name}", out, _depth + 1)
    return out


def digest(obj):
    return hashlib.sha256(repr(canon(obj)).encode()).hexdigest()
