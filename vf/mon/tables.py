"""M7: snapshot of module-level tables; M8: yield injector (sys.monitoring LINE events inside iodata code)."""

import os
import random
import sys
import threading
import time

from . import snapshot as snap


def module_tables():
    """{name: object} of the module-level tables that API calls must never modify."""
    import iodata.api
    import iodata.convert
    import iodata.overlap
    import iodata.overlap_cartpure
    import iodata.periodic
    import iodata.utils
    from iodata.formats import cp2klog, fchk, molden, mwfn, wfn, xyz

    class _Lenient:
        """Attribute access that yields None for names a refactoring has removed (the snapshot then simply lacks that table)."""

        def __init__(self, mod):
            self._mod = mod

        def __getattr__(self, name):
            return getattr(self._mod, name, None)

    cp2klog, fchk, molden, mwfn, wfn, xyz = (_Lenient(m) for m in (cp2klog, fchk, molden, mwfn, wfn, xyz))
    out = {
        "periodic.num2sym": iodata.periodic.num2sym,
        "periodic.sym2num": iodata.periodic.sym2num,
        "periodic.num2bond": iodata.periodic.num2bond,
        "periodic.bond2num": iodata.periodic.bond2num,
        "convert.HORTON2": iodata.convert.HORTON2_CONVENTIONS,
        "convert.CCA": iodata.convert.CCA_CONVENTIONS,
        "overlap.OVERLAP_CONVENTIONS": iodata.overlap.OVERLAP_CONVENTIONS,
        "fchk.CONVENTIONS": fchk.CONVENTIONS,
        "molden.CONVENTIONS": molden.CONVENTIONS,
        "wfn.CONVENTIONS": wfn.CONVENTIONS,
        "wfn.PRIMITIVE_NAMES": wfn.PRIMITIVE_NAMES,
        "mwfn.CONVENTIONS": mwfn.CONVENTIONS,
        "cp2klog.CONVENTIONS": cp2klog.CONVENTIONS,
        "api.FORMAT_MODULES": {k: v.__name__ for k, v in iodata.api.FORMAT_MODULES.items()},
        "api.INPUT_MODULES": {k: v.__name__ for k, v in iodata.api.INPUT_MODULES.items()},
        "utils.STRTOBOOL": getattr(iodata.utils, "STRTOBOOL", None),
        "utils.constants": {k: getattr(iodata.utils, k, None) for k in ("angstrom", "electronvolt", "meter", "nanometer", "second", "picosecond",
                                                                    "amu", "kcalmol", "calmol", "kjmol")},
        "overlap_cartpure.tfs": list(getattr(iodata.overlap_cartpure, "tfs", [])),
        "xyz.DEFAULT_ATOM_COLUMNS": [tuple(x for x in col if not callable(x)) for col in (xyz.DEFAULT_ATOM_COLUMNS or [])],
        "patterns": {k: list(getattr(v, "PATTERNS", [])) for k, v in iodata.api.FORMAT_MODULES.items()},
    }
    return out


def global_settings():
    """Process-global interpreter / library switches that a call into a pure I/O library has no business leaving changed:
    a change persists into every later call (of any format, in any thread)."""
    import decimal
    import locale
    import sys
    import warnings

    import attrs
    import numpy as np

    def name(fn):
        return f"{getattr(fn, '__module__', '?')}.{getattr(fn, '__qualname__', repr(type(fn)))}"

    return {
        "attrs.validators.disabled": bool(attrs.validators.get_disabled()),
        "numpy.errstate": dict(np.geterr()),
        "numpy.printoptions": {k: repr(v) for k, v in np.get_printoptions().items()},
        # (the filter list itself is left out: importing a module may legitimately add filters)
        "warnings.showwarning": name(warnings.showwarning),
        "warnings._showwarnmsg_impl": name(getattr(warnings, "_showwarnmsg_impl", None)),
        "os.getcwd": os.getcwd(),
        "sys.recursionlimit": sys.getrecursionlimit(),
        "decimal.prec": decimal.getcontext().prec,
        "locale": repr(locale.getlocale()),
        "os.umask": _umask(),
    }


def _umask():
    m = os.umask(0o022)
    os.umask(m)
    return m


# The state of the warnings machinery is observed but is NOT part of any verdict: the properties enumerate returned objects,
# written bytes, outcomes and iodata's own tables.  (On the unchanged tree the API's `catch_warnings(record=True)` wrapper,
# which is not thread-safe, leaves `warnings._showwarnmsg_impl` replaced after calls from several threads - DESIGN.md section 8.)
OBSERVED_ONLY = ("warnings.",)


def settings_diff(a, b):
    return [(k, a[k], b.get(k)) for k in a if a[k] != b.get(k) and not k.startswith(OBSERVED_ONLY)]


_WARN_ORIG = None


def warnings_machinery_replaced(repair=True):
    """True when warnings.showwarning / _showwarnmsg_impl are no longer the ones seen at the first call (observation only)."""
    import warnings

    global _WARN_ORIG
    cur = (warnings.showwarning, getattr(warnings, "_showwarnmsg_impl", None))
    if _WARN_ORIG is None:
        _WARN_ORIG = cur
        return False
    changed = cur[0] is not _WARN_ORIG[0] or cur[1] is not _WARN_ORIG[1]
    if changed and repair:
        warnings.showwarning = _WARN_ORIG[0]
        if _WARN_ORIG[1] is not None:
            warnings._showwarnmsg_impl = _WARN_ORIG[1]
    return changed


def tables_snapshot():
    out = {k: snap.canon(v, with_props=False) for k, v in module_tables().items()}
    out["interpreter-global settings"] = snap.canon({k: v for k, v in global_settings().items() if not k.startswith(OBSERVED_ONLY)},
                                                    with_props=False)
    return out


def tables_diff(a, b):
    out = []
    for k in a:
        d = snap.diff(a[k], b.get(k), path=k, limit=3)
        out += d
    return out


class YieldInjector:
    """sys.monitoring LINE callback: inside code objects of the tree under test, yield the GIL with probability p."""

    TOOL = 3  # sys.monitoring tool id (0-5 are free for use; 3 is unassigned by convention)

    def __init__(self, repo, p=0.02, seed=0):
        self.prefix = os.path.join(os.path.realpath(repo), "iodata") + os.sep
        self.p = p
        self.rng = random.Random(seed)
        self.lock = threading.Lock()
        self.events = 0
        self.yields = 0
        self.switch_points = set()
        self.last_thread = None
        self.context_switches = 0
        self.order = []

    def _line(self, code, lineno):
        fn = code.co_filename
        if not fn.startswith(self.prefix):
            return sys.monitoring.DISABLE
        tid = threading.get_ident()
        with self.lock:
            self.events += 1
            do = self.rng.random() < self.p
            if self.last_thread is not None and self.last_thread != tid:
                self.context_switches += 1
                if len(self.order) < 20000:
                    self.order.append(tid)
            self.last_thread = tid
            if do:
                self.yields += 1
                self.switch_points.add((fn[len(self.prefix):], lineno))
        if do:
            time.sleep(0)
        return None

    def __enter__(self):
        m = sys.monitoring
        m.use_tool_id(self.TOOL, "vf-yield-injector")
        m.register_callback(self.TOOL, m.events.LINE, self._line)
        m.set_events(self.TOOL, m.events.LINE)
        return self

    def __exit__(self, *exc):
        m = sys.monitoring
        m.set_events(self.TOOL, 0)
        m.register_callback(self.TOOL, m.events.LINE, None)
        m.free_tool_id(self.TOOL)
        m.restart_events()
        return False
