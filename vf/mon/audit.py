"""M6: audit log of file-system events (sys.addaudithook), restricted to a watched directory; M2: file state."""

import hashlib
import os
import sys
import threading

_state = threading.local()
_installed = False
_lock = threading.Lock()

FS_EVENTS = {
    "open", "os.remove", "os.rename", "os.mkdir", "os.rmdir", "os.truncate", "os.chmod", "os.chown", "os.link", "os.symlink",
    "os.utime", "os.listdir", "os.scandir", "shutil.copyfile", "shutil.move", "shutil.rmtree", "shutil.copytree", "os.replace",
    "os.unlink", "tempfile.mkstemp", "tempfile.mkdtemp",
}


def _hook(event, args):
    log = getattr(_state, "log", None)
    if log is None or event not in FS_EVENTS:
        return
    root = _state.root
    for a in args[:2]:
        if isinstance(a, bytes):
            try:
                a = a.decode()
            except Exception:
                continue
        if isinstance(a, os.PathLike):
            a = os.fspath(a)
        if isinstance(a, str):
            p = a if os.path.isabs(a) else os.path.join(os.getcwd(), a)
            if os.path.normpath(p).startswith(root):
                mode = args[1] if event == "open" and len(args) > 1 else None
                log.append((event, os.path.normpath(p), mode))
                break


def install():
    global _installed
    with _lock:
        if not _installed:
            sys.addaudithook(_hook)
            _installed = True


class Watch:
    """Context manager: record file-system events touching paths under `root` in this thread."""

    def __init__(self, root):
        install()
        self.root = os.path.normpath(os.path.abspath(root))
        self.events = []

    def __enter__(self):
        self._prev = (getattr(_state, "log", None), getattr(_state, "root", None))
        _state.log = self.events
        _state.root = self.root
        return self

    def __exit__(self, *exc):
        _state.log, _state.root = self._prev
        return False

    def on(self, path):
        p = os.path.normpath(os.path.abspath(path))
        return [e for e in self.events if e[1] == p]


def file_state(path):
    """(exists, sha256, size) of a path."""
    if not os.path.exists(path):
        return (False, None, None)
    with open(path, "rb") as fh:
        data = fh.read()
    return (True, hashlib.sha256(data).hexdigest(), len(data))


def open_fds_on(path):
    """File descriptors of this process that refer to `path` (via /proc/self/fd)."""
    target = os.path.realpath(path)
    out = []
    try:
        for fd in os.listdir("/proc/self/fd"):
            try:
                if os.path.realpath(os.readlink(f"/proc/self/fd/{fd}")) == target:
                    out.append(int(fd))
            except OSError:
                continue
    except OSError:
        pass
    return out


def file_state_of_bytes(data):
    return hashlib.sha256(data).hexdigest()
