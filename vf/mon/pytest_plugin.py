"""M9 - the repository's own test-suite as a workload, observed by the monitors of C07 / C08 / C09 / C11 / C17.

Loaded with `pytest -p vf.mon.pytest_plugin` (PYTHONPATH=/verif, cwd = tree under test).  Before any test module is imported
the public API functions are replaced by recording wrappers, so that the references the test modules bind at import
(`from ..api import load_one`) are the wrappers.  Every wrapped call appends one JSON line per monitor evaluation to
$VF_SUITE_LOG: {"monitor", "ok", "detail", "test"}.  The wrappers never change a result or an exception.

Monitors
  arg-unchanged (C09)     deep snapshot of the object(s) given to dump_one / dump_many / write_input before and after the call
  preflight-spares (C08)  a FileFormatError / PrepareDumpError from dump_one / dump_many leaves the target path as it was
  loaded-shapes (C07)     every object returned by load_one / yielded by load_many has mutually consistent shapes
  guaranteed-set (C17)    ... and carries every attribute its format module declares as guaranteed
  charge-consistent (C11) ... and satisfies charge == sum(atcorenums) - nelec whenever the three are present
  file-closed (C07)       after load_one returned or raised, no descriptor on the file is left open
"""

import functools
import json
import os
import threading

_LOCK = threading.Lock()
_LOG = None
_COUNT = {}


def _emit(monitor, ok, detail=""):
    rec = {"monitor": monitor, "ok": bool(ok), "detail": detail[:500], "test": os.environ.get("PYTEST_CURRENT_TEST", "")[:200]}
    with _LOCK:
        _COUNT[monitor] = _COUNT.get(monitor, 0) + 1
        if _LOG is not None and (not ok or _COUNT[monitor] <= 5 or _COUNT[monitor] % 50 == 0):
            _LOG.write(json.dumps(rec) + "\n")
            _LOG.flush()


def _file_state(path):
    try:
        st = os.stat(path)
        with open(path, "rb") as fh:
            import hashlib

            return (st.st_size, st.st_mtime_ns, hashlib.sha256(fh.read()).hexdigest())
    except OSError:
        return None


def _check_loaded(d, module, op, filename):
    from ..checks.c07 import shape_problems

    try:
        probs = shape_problems(d)
    except Exception as exc:  # the monitor must never disturb the test
        _emit("monitor-error", False, f"shape_problems: {exc!r}")
        probs = []
    _emit("loaded-shapes", not probs, f"{filename}: {probs[:3]}")
    if module is not None and hasattr(module, op):
        missing = [n for n in getattr(getattr(module, op), "guaranteed", []) if getattr(d, n, None) is None]
        _emit("guaranteed-set", not missing, f"{module.__name__}.{op} on {filename}: guaranteed but None: {missing}")
    try:
        if d.charge is not None and d.nelec is not None and d.atcorenums is not None:
            ok = abs(float(d.atcorenums.sum()) - float(d.nelec) - float(d.charge)) < 1e-8
            _emit("charge-consistent", ok, f"{filename}: charge {d.charge!r}, nelec {d.nelec!r}, sum(atcorenums) {d.atcorenums.sum()!r}")
    except Exception as exc:
        _emit("monitor-error", False, f"charge: {exc!r}")


def _select(api, filename, op, fmt):
    try:
        return api._select_format_module(filename, op, fmt)
    except Exception:
        return None


def _install():
    import iodata
    import iodata.api as api
    from iodata.utils import FileFormatError, PrepareDumpError

    from . import audit
    from . import snapshot as snap

    orig = {name: getattr(api, name) for name in ("load_one", "load_many", "dump_one", "dump_many", "write_input")}

    @functools.wraps(orig["load_one"])
    def load_one(filename, *, fmt=None, **kwargs):
        module = _select(api, filename, "load_one", fmt)
        try:
            d = orig["load_one"](filename, fmt=fmt, **kwargs)
        except BaseException:
            if isinstance(filename, str):
                _emit("file-closed", not audit.open_fds_on(filename), f"{filename} still open after load_one raised")
            raise
        if isinstance(filename, str):
            _emit("file-closed", not audit.open_fds_on(filename), f"{filename} still open after load_one returned")
        _check_loaded(d, module, "load_one", str(filename))
        return d

    @functools.wraps(orig["load_many"])
    def load_many(filename, *, fmt=None, **kwargs):
        module = _select(api, filename, "load_many", fmt)
        for d in orig["load_many"](filename, fmt=fmt, **kwargs):
            _check_loaded(d, module, "load_many", str(filename))
            yield d

    def _observe(objs):
        return [(snap.canon(o), snap.identity_map(o)) for o in objs]

    def _compare(before, objs, tag):
        after = _observe(objs)
        for k, ((cb, ib), (ca, ia)) in enumerate(zip(before, after)):
            dd = snap.diff(cb, ca, limit=3)
            moved = [p for p in ib if p in ia and ib[p] != ia[p]] + [p for p in ib if p not in ia]
            _emit("arg-unchanged", not dd and not moved, f"{tag}: object {k}: {dd[:2]} {moved[:2]}")

    @functools.wraps(orig["dump_one"])
    def dump_one(data, filename, *, fmt=None, **kwargs):
        before = _observe([data]) if isinstance(data, iodata.IOData) else None
        state = _file_state(filename) if isinstance(filename, str) else None
        try:
            return orig["dump_one"](data, filename, fmt=fmt, **kwargs)
        except (FileFormatError, PrepareDumpError):
            if isinstance(filename, str):
                _emit("preflight-spares", _file_state(filename) == state, f"dump_one rejected pre-flight but {filename} changed")
            raise
        finally:
            if before is not None:
                _compare(before, [data], f"dump_one({filename})")

    @functools.wraps(orig["dump_many"])
    def dump_many(iodatas, filename, *, fmt=None, **kwargs):
        # only re-iterable arguments (lists / tuples) can be observed without consuming them
        objs = [o for o in iodatas if isinstance(o, iodata.IOData)] if isinstance(iodatas, (list, tuple)) else []
        before = _observe(objs)
        state = _file_state(filename) if isinstance(filename, str) else None
        try:
            return orig["dump_many"](iodatas, filename, fmt=fmt, **kwargs)
        except (FileFormatError, PrepareDumpError):
            if isinstance(filename, str) and isinstance(iodatas, (list, tuple)):
                # pre-flight only for the first frame: later frames are validated lazily (statement of C08)
                pass
            raise
        finally:
            if objs:
                _compare(before, objs, f"dump_many({filename})")

    @functools.wraps(orig["write_input"])
    def write_input(data, filename, fmt, *, template=None, atom_line=None, **fields):
        before = _observe([data]) if isinstance(data, iodata.IOData) else None
        try:
            return orig["write_input"](data, filename, fmt, template=template, atom_line=atom_line, **fields)
        finally:
            if before is not None:
                _compare(before, [data], f"write_input({filename}, {fmt})")

    wrappers = {"load_one": load_one, "load_many": load_many, "dump_one": dump_one, "dump_many": dump_many, "write_input": write_input}
    for name, fn in wrappers.items():
        setattr(api, name, fn)
        if getattr(iodata, name, None) is orig[name]:
            setattr(iodata, name, fn)
    # the command-line module binds the API functions at import
    try:
        import iodata.__main__ as cli

        for name, fn in wrappers.items():
            if getattr(cli, name, None) is orig[name]:
                setattr(cli, name, fn)
    except Exception:
        pass


def pytest_configure(config):
    global _LOG
    path = os.environ.get("VF_SUITE_LOG")
    if path:
        worker = os.environ.get("PYTEST_XDIST_WORKER", "main")
        _LOG = open(f"{path}.{worker}", "a")
    _install()


def pytest_unconfigure(config):
    if _LOG is not None:
        with _LOCK:
            _LOG.write(json.dumps({"monitor": "_totals", "ok": True, "detail": json.dumps(_COUNT), "test": ""}) + "\n")
            _LOG.close()
