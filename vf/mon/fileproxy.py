"""M4: write proxy.  `iodata.api.open` is bound to a function returning a logging file object, which can also inject
an exception at the k-th write() call.  M5: iterator proxy for dump_many.

The event log is a list of tuples shared by both proxies so that the order of pulls and writes can be checked offline:
    ("open", path, mode) ("write", nchars) ("fault", k, exc type) ("close",) ("pull", i) ("pull-end",) ("pull-raise", i)
"""

import builtins
import io


class ProxyFile(io.TextIOBase):
    """Text file object that logs write/close and can fail at the k-th write."""

    def __init__(self, real, log, fault_at=None, fault_exc=None):
        super().__init__()
        self._real = real
        self._log = log
        self._fault_at = fault_at
        self._fault_exc = fault_exc
        self.nwrite = 0
        self.closed_by_iodata = False

    @property
    def name(self):
        return self._real.name

    def writable(self):
        return True

    def write(self, text):
        self.nwrite += 1
        if self._fault_at is not None and self.nwrite == self._fault_at:
            self._log.append(("fault", self.nwrite, type(self._fault_exc).__name__))
            raise self._fault_exc
        self._log.append(("write", len(text)))
        return self._real.write(text)

    def flush(self):
        if not self._real.closed:
            self._real.flush()

    def close(self):
        if not self._real.closed:
            self._log.append(("close",))
            self.closed_by_iodata = True
            self._real.close()
        super().close()

    def __enter__(self):
        return self

    def __exit__(self, *exc):
        self.close()
        return False


class OpenProxy:
    """Context manager that binds iodata.api.open; only paths under `root` are proxied."""

    def __init__(self, log, fault_at=None, fault_exc=None):
        self.log = log
        self.fault_at = fault_at
        self.fault_exc = fault_exc
        self.files = []

    def _open(self, path, mode="r", *args, **kwargs):
        real = builtins.open(path, mode, *args, **kwargs)
        if "w" not in mode and "a" not in mode:
            return real
        self.log.append(("open", str(path), mode))
        pf = ProxyFile(real, self.log, self.fault_at, self.fault_exc)
        self.files.append(pf)
        return pf

    def __enter__(self):
        import iodata.api

        self._had = "open" in vars(iodata.api)
        self._prev = vars(iodata.api).get("open")
        iodata.api.open = self._open
        # a tree that opens its output through pathlib instead of the builtin is observed through Path.open
        import pathlib

        proxy = self
        self._path_open = pathlib.Path.open

        def path_open(path, mode="r", *args, **kwargs):
            return proxy._open(path, mode, *args, **kwargs)

        pathlib.Path.open = path_open
        return self

    def __exit__(self, *exc):
        import iodata.api

        import pathlib

        pathlib.Path.open = self._path_open
        if self._had:
            iodata.api.open = self._prev
        else:
            del iodata.api.open
        for pf in self.files:  # never leave a descriptor behind in the harness
            if not pf._real.closed:
                pf._real.close()
        return False

    def all_closed_by_iodata(self):
        return all(pf.closed_by_iodata for pf in self.files)


class PullLog:
    """Iterator proxy: logs every item pulled by dump_many; can raise at item k."""

    def __init__(self, items, log, raise_at=None, exc=None):
        self._items = list(items)
        self._log = log
        self._raise_at = raise_at
        self._exc = exc
        self.pulled = 0
        self.iter_calls = 0

    def __iter__(self):
        self.iter_calls += 1
        return self._gen()

    def _gen(self):
        for i, item in enumerate(self._items):
            if self._raise_at is not None and i == self._raise_at:
                self._log.append(("pull-raise", i))
                raise self._exc
            self._log.append(("pull", i))
            self.pulled += 1
            yield item
        self._log.append(("pull-end",))
