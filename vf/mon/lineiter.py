"""M3: line-step counter.  iodata.api.LineIterator is rebound to a counting subclass.

n_read = number of __next__ calls that returned a line minus the number of back() calls: "the number of the last line
that was read" at any moment.  next_calls is the logical step counter used for termination verdicts.
"""


class StepBudgetExceeded(BaseException):
    """Raised by the counting iterator when the logical step budget is exhausted (BaseException: not swallowed)."""


def install():
    import iodata.api
    import iodata.utils

    base = iodata.utils.LineIterator

    class CountingLineIterator(base):
        instances = []
        budget = None

        def __init__(self, filename):
            super().__init__(filename)
            self.next_calls = 0
            self.n_read = 0
            self.back_calls = 0
            self.closed_on_exit = False
            CountingLineIterator.instances.append(self)

        def __next__(self):
            self.next_calls += 1
            if CountingLineIterator.budget is not None and self.next_calls > CountingLineIterator.budget:
                raise StepBudgetExceeded(self.next_calls)
            line = super().__next__()
            self.n_read += 1
            return line

        def back(self, line):
            self.back_calls += 1
            self.n_read -= 1
            return super().back(line)

        def __exit__(self, *exc):
            self.closed_on_exit = True
            return super().__exit__(*exc)

    iodata.api.LineIterator = CountingLineIterator
    return CountingLineIterator


def uninstall():
    import iodata.api
    import iodata.utils

    iodata.api.LineIterator = iodata.utils.LineIterator
