"""M3: line-step counter.  iodata.api.LineIterator is rebound to a counting subclass.

n_read = number of __next__ calls that returned a line minus the number of back() calls: "the number of the last line
that was read" at any moment.  next_calls is the logical step counter used for termination verdicts.
"""


class StepBudgetExceeded(BaseException):
    """Raised by the counting iterator when the logical step budget is exhausted (BaseException: not swallowed)."""


class CountingFile:
    """Proxy of the text file behind a LineIterator: counts the lines handed out, and separately those taken from the file
    directly by a parser (lit.fh.read() / readline()) instead of through the iterator - they are "lines that were read" too."""

    def __init__(self, fh, owner):
        self._fh = fh
        self._owner = owner

    def __getattr__(self, name):
        return getattr(self._fh, name)

    def _count(self, text):
        n = text.count("\n") + (1 if text and not text.endswith("\n") else 0)
        self._owner.fh_lines += n
        if not self._owner._in_next:
            self._owner.direct_lines += n

    def __iter__(self):
        return self

    def __next__(self):
        line = next(self._fh)
        self._count(line)
        return line

    def readline(self, *args):
        line = self._fh.readline(*args)
        self._count(line)
        return line

    def read(self, *args):
        text = self._fh.read(*args)
        self._count(text)
        return text

    def readlines(self, *args):
        lines = self._fh.readlines(*args)
        for line in lines:
            self._count(line)
        return lines


def install():
    import iodata.api
    import iodata.utils

    base = iodata.utils.LineIterator

    class CountingLineIterator(base):
        instances = []
        budget = None

        def __init__(self, filename):
            super().__init__(filename)
            self.next_calls = 0
            self.n_read = 0
            self.back_calls = 0
            self.closed_on_exit = False
            self.fh_lines = 0
            self.direct_lines = 0
            self._in_next = False
            CountingLineIterator.instances.append(self)

        def __enter__(self):
            res = super().__enter__()
            if getattr(self, "fh", None) is not None and not isinstance(self.fh, CountingFile):
                self.fh = CountingFile(self.fh, self)
            return res

        def __next__(self):
            self.next_calls += 1
            if CountingLineIterator.budget is not None and self.next_calls > CountingLineIterator.budget:
                raise StepBudgetExceeded(self.next_calls)
            self._in_next = True
            try:
                line = super().__next__()
            finally:
                self._in_next = False
            self.n_read += 1
            return line

        def back(self, line):
            self.back_calls += 1
            self.n_read -= 1
            return super().back(line)

        def __exit__(self, *exc):
            self.closed_on_exit = True
            return super().__exit__(*exc)

    iodata.api.LineIterator = CountingLineIterator
    return CountingLineIterator


def uninstall():
    import iodata.api
    import iodata.utils

    iodata.api.LineIterator = iodata.utils.LineIterator
