"""Write the prompts of a round of seeded (property-breaking) changes: python -m vf.seeded_prompts <round number> <out dir>
Template seeded/PROMPT_round2.txt; {PREV} becomes the list of all earlier kept changes of the property (summary + what it needs),
followed by the sources of inspiration of rounds 4/5.  Worktrees: /tmp/seed<N>_<ID>, deliverables: /tmp/seed<N>_<ID>_out."""

import json
import os
import sys

ROOT = os.path.dirname(os.path.dirname(os.path.abspath(__file__)))

INSPIRATION = """
Sources of inspiration (pick what fits the code; the earlier seeders have used many of them already, so look further):
  - clauses and quantifier items of the property that none of the earlier changes attacks;
  - feature interactions: two options / two formats / two attributes that are each handled correctly but not together;
  - state left behind by failing calls, re-use of the same object / file name / iterator, call order;
  - sizes one past a boundary (field widths, counts of 9/10, 99/100, 999/1000, 5 or 6 values per line, empty and one-element cases);
  - special values (negative zero, denormals, huge exponents, NaN where legitimate, integers stored as floats and vice versa);
  - strings with separators, quotes, unicode, leading / trailing blanks, very long strings and paths;
  - dtype / memory layout / views / read-only arrays / array subclasses / Python lists where arrays are usual;
  - the environment: working directory, relative paths, symbolic links, warnings filters, numpy error state, locale, recursion;
  - less used formats and code paths of the anchored files, helper modules the anchored code depends on (utils, attrutils, docstrings);
  - two cooperating sites that each look fine alone.
"""


def prop_text(p):
    a = p["anchors"]
    mech = "; ".join(f"{m['name']} ({m['where']})" for m in a.get("mechanism", []))
    return (f"{p['id']}: {p['title']}\n\nSTATEMENT: {p['statement']}\n\nQUANTIFIER: {p['quantifier']['text']}\n\n"
            f"WHY THE EXISTING TESTS CANNOT SETTLE IT: {p['why_tests_cant']}\n\nANCHORED IN: files {a['files']}; mechanisms: {mech}\n"
            f"OBSERVABLE AT: {a.get('observe_at')}")


def main():
    rnd, out = int(sys.argv[1]), sys.argv[2]
    os.makedirs(out, exist_ok=True)
    template = open(os.path.join(ROOT, "seeded", "PROMPT_round2.txt")).read()
    for line in open(os.path.join(ROOT, "properties.jsonl")):
        p = json.loads(line)
        pid = p["id"]
        prev = []
        for sid in sorted(d for d in os.listdir(os.path.join(ROOT, "seeded")) if d[:3] == pid and not d.startswith("_")):
            m = json.load(open(os.path.join(ROOT, "seeded", sid, "meta.json")))
            prev.append(f"  ({len(prev) + 1}) {m.get('summary', '')[:700]}  NEEDS: {m.get('needs', '')[:500]}")
        text = template.replace("{WT}", f"/tmp/seed{rnd}_{pid}").replace("{OUT}", f"/tmp/seed{rnd}_{pid}_out").replace("{PROP}", prop_text(p))
        text = text.replace("An earlier seeder already delivered this change for the same property: {PREV}",
                            f"{len(prev)} earlier seeders already delivered these changes for the same property:\n" + "\n".join(prev) + "\n")
        text = text.replace("Prefer changes in the code the property is anchored in.", INSPIRATION + "\nPrefer changes in the code the property is anchored in.")
        if pid == "C16":
            text = text.replace("Prefer changes in the code", "For this property a change in the delivery of warnings alone does not count: the results named by the statement "
                                "(returned objects, written bytes, outcomes, module-level tables) must differ.\nPrefer changes in the code")
        with open(os.path.join(out, f"prompt_{pid}.txt"), "w") as fh:
            fh.write(text)
    print("prompts written to", out)


if __name__ == "__main__":
    main()
