"""Copy a benign-change sub-agent's deliverable (/tmp/ben_<ID>_out) to /verif/benign/<ID>/ after checking the patch applies to /repo HEAD.
usage: python -m vf.benign_intake C01 C02 ...   then   python -m vf.seeded --dir benign --tests --all-checks <ids>
A benign change is one that keeps every property: every registered check must stay silent on it (verdict 'missed' = no alarm)."""

import json
import os
import shutil
import subprocess
import sys

ROOT = os.path.dirname(os.path.dirname(os.path.abspath(__file__)))


def main():
    args = sys.argv[1:]
    rnd = ""
    num = ""
    if args and args[0] in ("--round2", "--round3"):
        num = args[0][-1]
        rnd, args = {"2": "b", "3": "c"}[num], args[1:]
    for pid0 in args:
        pid = pid0 + rnd
        src = f"/tmp/ben{num}_{pid0}_out"
        if not all(os.path.exists(os.path.join(src, f)) for f in ("patch.diff", "meta.json")):
            print(pid, "incomplete deliverable")
            continue
        r = subprocess.run(["git", "-C", "/repo", "apply", "--check", os.path.join(src, "patch.diff")], capture_output=True, text=True)
        if r.returncode != 0:
            print(pid, "patch does not apply to /repo:", r.stderr[-300:])
            continue
        dst = os.path.join(ROOT, "benign", pid)
        os.makedirs(dst, exist_ok=True)
        shutil.copy(os.path.join(src, "patch.diff"), os.path.join(dst, "patch.diff"))
        meta = json.load(open(os.path.join(src, "meta.json")))
        meta.setdefault("property", pid[:3])
        meta["origin"] = "fresh sub-agent asked for a realistic maintenance change that keeps the property (seeded/PROMPT_benign.txt)"
        with open(os.path.join(dst, "meta.json"), "w") as fh:
            json.dump(meta, fh, indent=1)
        print(pid, "taken")


if __name__ == "__main__":
    main()
