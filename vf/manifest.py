"""Regenerate /verif/MANIFEST.json from the registry below:  python -m vf.manifest"""

import json
import os

ROOT = os.path.dirname(os.path.dirname(os.path.abspath(__file__)))

COMMON_NOTE = (
    "Trusted base: CPython/numpy/scipy; the reference model R (vf/ref, independent of iodata, self-tested on every run); "
    "my reading of the public format specifications; the monitors themselves. Statements are about the executions produced: "
    "'held on K executions covering these classes', never 'verified'."
)

# id -> (level category, level text, technique, design section)
CHECKS = {
    "C10": (
        "exploration",
        "Finite part enumerated exhaustively at run time (every entry of the 9 convention tables, every ordered pair of tables "
        "on every shared shell type, every single-label corruption); random part sampled (shell sequences incl. generalized "
        "contractions x random permutation+sign conventions, l<=9). Oracle: an independent label law plus invariance of "
        "sum_i c_i chi_i(r) under R.gto.",
        "runtime monitor on return values of the real convert_conventions vs independent label law + reference evaluator",
        "4/C10",
    ),
    "C20": (
        "exploration",
        "Each helper is executed on generated inputs and its return value compared with an independent expectation: "
        "natural orbitals (orthonormality, generalized eigenvalues, reconstruction, acceptance edges of check_dm placed on both "
        "sides), cell volume vs sqrt(det(Gram)) for all row permutations and handedness, set_four_index_element on ALL quadruples "
        "n<=4/6 vs the independently generated 8-element orbit, strtobool on all letter-case variants + random strings.",
        "runtime oracle on return values of the real helpers; finite sub-spaces enumerated exhaustively",
        "4/C20",
    ),
    "C06": (
        "exploration",
        "Every matrix element returned by the real compute_overlap is compared with an independent exact evaluation (R.gto: "
        "documented functions, Gauss-Hermite quadrature) under a derived conditioning + screening bound; shell-type pairs up to "
        "l=4 (quick) / l=7 (thorough), table entries and kernels are enumerated exhaustively, bases/geometries/conventions are "
        "sampled; metamorphic relations (symmetry, PSD, transpose, translation, convention permutation) are asserted on the same "
        "runs. 'For all real centres/exponents' is out of reach: one symbolic-argument execution per 1-D kernel is observed.",
        "runtime oracle: real compute_overlap vs independent reference integrals; symbolic-argument execution of the kernel",
        "4/C06",
    ),
    "C14": (
        "exploration",
        "Return values of the real convert_to_segmented / convert_to_unrestricted / prepare_* on random mixtures of segmented, SP "
        "and generalized shells and on restricted orbital sets of every occupation class are compared with independent "
        "expectations: function values row by row under R.gto (same functions, same order), documented alpha/beta rules, "
        "density matrices, idempotence, identity of the returned object, documented errors and warnings, argument unchanged (M1).",
        "runtime oracle on return values + deep-snapshot monitor",
        "4/C14",
    ),
    "C11": (
        "exploration",
        "Bounded-exhaustive histories (constructor x assignment sequences over a small value alphabet: depth 2 full / 3 core in "
        "quick, depth 3 full / 4 core in thorough, plus random depth 5-10) are executed on real IOData objects; after every step a "
        "monitor reads the public observables twice in two orders and evaluates I1-I6 (charge = core - nelec, read-back, default "
        "core charges, orbitals-derived values, natom agreement with TypeError + unchanged observables, read idempotence); every "
        "history is replayed without intermediate reads and outcomes/final observables compared.",
        "invariant monitor over exhaustively enumerated operation histories on the real objects",
        "4/C11",
    ),
    "C12": (
        "exploration",
        "Bounded-exhaustive assignment histories on real MolecularOrbitals objects for every kind x orbital counts 0..6 x initial "
        "occupation pattern with an invariant monitor after each step (alpha+beta sums, documented alpha/beta rules, nelec, "
        "spinpol, slices, read-back, other spin unchanged, generalized refusals, rejection of wrong lengths / contradictory kinds); "
        "Shell constructions for l 0..9, kinds c/p/illegal and the full shape-mismatch matrix.",
        "invariant monitor over exhaustively enumerated operation histories on the real objects",
        "4/C12",
    ),
    "C17": (
        "exploration",
        "The selection matrix (every pattern-derived, multi-pattern, case-changed and extension-less base name x 4 operations x "
        "fmt in {None, each of the 25 modules, unknown} x existing/missing file x absolute/sub-directory/relative path) is enumerated "
        "exhaustively through the public API with recorders in place of the format functions and an audit hook logging every "
        "file-system event; expected module set computed by an independent matcher. Declared names vs the attribute set "
        "(exhaustive), guaranteed lists vs every loadable corpus file, required lists via one dump per (format, attribute) with "
        "the audit hook proving no open of the target precedes the PrepareDumpError.",
        "API-boundary recorders + sys.addaudithook event log vs independent expectation",
        "4/C17",
    ),
    "C19": (
        "exploration",
        "The text written by the real write_input for both programs is parsed by an independent parser and every field compared "
        "with the object: one geometry line per atom in order with IUPAC symbol and coordinates / CODATA angstrom to 6 decimals, "
        "charge rounded to nearest, multiplicity, level of theory / basis / run-type keyword or documented default, user fields "
        "winning; random templates with unique delimiters; callbacks; FileFormatError for unknown programs without file-system "
        "events (audit hook); WriteInputError for every rendering failure with the file closed.",
        "runtime oracle: independent parser of the generated text + audit hook",
        "4/C19",
    ),
    "C01": (
        "exploration",
        "Generated wavefunction objects over the stated classes (shell order, conventions incl. every format table and random signed "
        "permutations, segmented / SP / generalized, Cartesian / pure up to the target's table, restricted / ROHF / unrestricted / "
        "occs_aminusb / fractional, ghost / ECP centres, with / without virtuals) and every wavefunction file of the corpus are written "
        "to all 5 targets x allow_changes through dump_one (a sample through `python -m iodata`); every file written without error is "
        "read back and each orbital compared as a FUNCTION OF SPACE with the independent evaluator R.gto at probe points under a "
        "first-order envelope of the printed precision, plus nuclei, occupations, energies, spin and stored density matrices.",
        "runtime oracle: real dump/load round trip vs independent Gaussian-basis evaluator",
        "4/C01",
    ),
    "C03": (
        "exploration",
        "For 33 writer modules covering all 25 readable formats (independent writers following the public specifications; "
        "qchemlog/cp2klog by template perturbation of corpus files) random models are generated per class (field-width "
        "boundaries with touching fields, negative/wide numbers, D exponents, optional sections absent, section orders, line "
        "remainders), written to files, loaded with the real load_one/load_many and every expected value compared (units by "
        "R.units, tolerance half a unit of the writer's last digit); wavefunctions are compared as functions of space. Classes "
        "whose expectation is a judgement call are generated but not asserted (NOT_ASSERTED in each writer).",
        "runtime oracle: independent specification-following writers vs the real readers",
        "4/C03",
    ),
    "C08": (
        "fault_enumeration",
        "Faults are enumerated on the real dump_one / dump_many / write_input: every subset of the declared required attributes "
        "cleared x target {absent, pre-existing}; every prepare_dump rejection reason x allow_changes; faulty frame at index 0/1/"
        "middle/last as list and generator, empty sequences; unknown and unsupported formats; an exception (OSError/ValueError/"
        "RuntimeError) injected at the k-th write of the output file for every k (thorough) through a proxy bound to "
        "iodata.api.open. Observed: exception class, bytes/existence of the target before and after, audit events on the target "
        "before a pre-flight rejection, close() of the file and open descriptors.",
        "fault injection at every write + audit/file/descriptor monitors",
        "4/C08",
    ),
    "C09": (
        "exploration",
        "Deep snapshots (attrs fields, derived properties, array bytes/dtype/shape/writeable flag, dict and list contents, member "
        "identities) of the arguments of the real dump_one / dump_many / write_input before and after each call, over objects of "
        "all 13 formats incl. QCSchema corpus objects with nested dictionaries and objects needing conversion x allow_changes; "
        "each dump twice (bytes compared); identity of the return value without allow_changes; with it, conversions must be "
        "announced and physically equivalent (R.gto basis functions, density matrices, nelec, spinpol, charge).",
        "deep-snapshot monitor around API calls + reference evaluator for converted objects",
        "4/C09",
    ),
    "C07": (
        "fault_enumeration",
        "Crash points are enumerated per corpus file (truncation at every line boundary up to a stated number of lines, sampled "
        "byte offsets) and mutations sampled (delete, duplicate, swap, substitute, numeric overflow, count and integer-field "
        "changes, empty, random bytes, other format, unknown extension); the real load_one (25 modules) and load_many (7) run under "
        "an exception classifier, a counting LineIterator bound in iodata.api (line-number oracle = lines actually read; "
        "termination decided in logical steps: 20 x lines + 1000 reads), a shape checker on every returned object and "
        "descriptor / ResourceWarning monitors after return, exhaustion, partial consumption + discard and explicit close.",
        "fault enumeration over file states + counting-iterator, descriptor and shape monitors",
        "4/C07",
    ),
    "C13": (
        "exploration",
        "dump side: dump_many of generated frame sequences (1..50 frames; list, generator, generator raising at frame k) for the 4 "
        "trajectory writers runs under a write proxy and an iterator proxy; the merged event log (pull(i) / open / write / close) "
        "is checked offline: each item pulled exactly once, in order, frame j-1 written before frame j is pulled, nothing pulled "
        "after the iterable's error, close last; the file is read back and every frame compared with its single-frame save+reload. "
        "load side: multi-frame files from the independent spec writers for the 7 load_many formats: every frame vs the model, "
        "first frame vs load_one, truncation at EVERY line (yielded frames must be correct; a wrong/partial one only with warning "
        "or error; no complete frame dropped without error), garbage in a numeric field and broken/inflated count of frame k for "
        "every k (exactly k correct frames, then LoadError).",
        "offline checker over recorded pull/write event logs + enumeration of crash points and per-frame corruptions",
        "4/C13",
    ),
    "C05": (
        "exploration",
        "True wavefunctions are encoded with each vendor quirk (encoders validated by decoding the real vendor files of the "
        "corpus to orthonormal orbitals under R's exact overlaps), written as Molden / Molekel files (AU and Angs) and loaded with "
        "the real load_one for norm_threshold in {1e-5..1e-2}: orbitals compared as functions of space with the TRUE wavefunction, "
        "C^T S C = 1 w.r.t. the returned basis, a LoadWarning naming an applicable correction (or silence when the quirk is below "
        "the threshold); standard-conforming files must load with no warning; corrupted files for which R shows that no known "
        "decoding gives normalised orbitals (norm error > 100 x threshold) must be refused with LoadError.",
        "runtime oracle: vendor encoders + independent evaluator/overlaps vs the real vendor-fix cascade",
        "4/C05",
    ),
    "C16": (
        "exploration",
        "A pool of ~90 closed API calls is executed (a) each alone in a fresh interpreter (baseline digests), (b) in shuffled "
        "histories with repetitions in one interpreter with deep snapshots of all module-level tables (periodic table, bond "
        "types, convention dictionaries, registries, unit constants, patterns) around every call, (c) from 2/4/8/16 threads on "
        "distinct files under a sys.monitoring LINE callback that yields the GIL inside iodata code; every digest (returned object, "
        "written bytes, exception type + message) must equal its baseline and the tables must never change. Schedules are sampled: "
        "the evidence records line events, yields, distinct yield points and observed context switches.",
        "differential digests vs fresh-process baseline + module-table snapshots + yield-injection scheduler",
        "4/C16",
    ),
    "C18": (
        "exploration",
        "(corpus / generated input, target format, option set) triples incl. impossible conversions are executed as `python -m "
        "iodata` subprocess with a sentinel at the output path, through the corresponding API calls and through convert(); exit "
        "status 0 must imply API success and byte-identical output, an API failure must give a non-zero status naming the problem "
        "on stderr, and a pre-flight rejection must leave the sentinel untouched. Directed cases cover conversions that need -c "
        "and inputs that need -i.",
        "differential execution: CLI subprocess vs API vs convert() with file-state monitor",
        "4/C18",
    ),
    "C02": (
        "exploration",
        "Objects in the documented domain of each of the 13 read/write formats (size classes crossing the field-width boundaries up "
        "to 12000 atoms, wide coordinates, optional attributes present/absent, every bond type, cube shapes with ragged lines, "
        "user-defined XYZ columns, float-typed counts, objects without optional sections) are written with the real dump_one and "
        "read back; every attribute the format stores (per-format table in the check, from the format specifications) is compared: "
        "discrete data exactly, reals to half a unit of the printed last digit; an in-domain refusal or an unreadable own output "
        "is a violation as well.",
        "runtime oracle: real dump/load round trip vs per-format table of stored attributes and printed precision",
        "4/C02",
    ),
    "C15": (
        "exploration",
        "Three generations of save + reload with the real dump_one / load_one for generated objects of all 13 read/write formats "
        "and every corpus file converted to every format that accepts it: generation 2 must be bit-identical to generation 1 "
        "(deep snapshot, exact, NaN-aware), the third file byte-identical to the second, and no later save may fail (QCSchema "
        "provenance removed before comparing).",
        "runtime oracle: repeated real save/reload cycles compared by deep snapshot and bytes",
        "4/C15",
    ),
    "C04": (
        "exploration",
        "Units are checked from both sides and across formats: the 10 conversion constants against CODATA literals; the numbers "
        "printed by every writer (value_au / unit of the format must be present in the file); conversion chains load(dump_B(load("
        "dump_A(x)))) for all ordered pairs of the read/write formats on every quantity both carry; files of all 25 readable "
        "formats from the independent spec writers (atomic-unit expectations by R.units) loaded and converted onwards; same-system "
        "corpus pairs. Mismatches are classified by the unit factor they correspond to.",
        "runtime oracle with unit-ratio classifier: independent constants + spec-writer expectations + cross-format chains",
        "4/C04",
    ),
}

NOT_YET = "check not built"

M9 = (" Additionally the repository's own test-suite is run as a workload with the API functions wrapped by recording monitors "
      "(M9, vf/mon/pytest_plugin.py: quick = ten test modules, thorough = whole suite): ")
# sentences appended to the level text (workloads added during the build)
ADDENDA = {
    "C07": " Sectioned formats (FCHK, WFX): every section of corpus files covering every section label is emptied and resized (0, n-1, "
           "n+1, 2n, 1 values with a matching header count)." + M9
           + "every object returned by load_one / load_many has consistent shapes and the file is closed afterwards.",
    "C08": M9 + "a FileFormatError / PrepareDumpError from dump_one leaves the target path byte-identical.",
    "C09": M9 + "deep snapshot of every object passed to dump_one / dump_many / write_input before vs after the call.",
    "C11": M9 + "every loaded object satisfies charge = sum(core charges) - nelec.",
    "C17": " Guaranteed lists are also checked against generated files of every model class of the specification-following writers." + M9
           + "every loaded object carries its module's guaranteed attributes.",
    "C16": " (d) per format, every generated file of every model class of the specification-following writers is loaded - and per dump "
           "format generated objects of every class are dumped - in shuffled orders with repetitions in one interpreter and compared "
           "with fresh-interpreter baselines (state kept in closures / caches, invisible to the table snapshots, shows there); (e) "
           "objects built once per interpreter and dumped to several formats in shuffled order vs each dump alone in a fresh interpreter; "
           "(f) failure histories: ~1500 loads of numerically damaged files with tables, interpreter-global settings and healthy calls "
           "re-checked in between.",
    "C18": " Numerically pathological inputs (1e308, nan, inf in one frame) drive the CLI's floating-point trap: the admitted "
           "'CLI error where the API succeeds' branch is observed and counted. Symbolic links as input / output names, in-place "
           "conversions, a reused scratch name and working directories whose names contain pattern text (relative names) are covered.",
    "C15": " Floats are compared at bit level including the sign of zero; generated geometries contain noise around zero and signed "
           "zeros; QCSchema objects include user-built ones with None-only / empty nested dictionaries; besides the corpus, vendor-shaped "
           "files of every model class of the specification-following writers go through the cycles into all 13 formats.",
    "C02": " A third of the generated objects carry equal arrays in Fortran order / strided / reversed views.",
}


def build():
    props = [json.loads(line)["id"] for line in open(os.path.join(ROOT, "properties.jsonl"))]
    checks = []
    for pid in props:
        if pid not in CHECKS:
            continue
        level, text, technique, ref = CHECKS[pid]
        checks.append(
            {
                "property_id": pid,
                "quick_cmd": f"./check {pid} --tier quick",
                "thorough_cmd": f"./check {pid} --tier thorough",
                "evidence_file": f"evidence/{pid}.json",
                "replay_cmd_template": f"./check {pid} --replay {{path}}",
                "engine": "vf",
                "level_claimed": {"category": level, "text": text + ADDENDA.get(pid, ""), "design_ref": f"DESIGN.md section {ref}"},
                "level_note": COMMON_NOTE,
                "technique": technique,
            }
        )
    manifest = {
        "version": 1,
        "setup_cmd": "./setup.sh",
        "hooks": {
            "guard": "IODATA_VERIF_HOOKS",
            "enable": "no source hooks are needed: monitors attach from outside (rebinding iodata.api.LineIterator / "
            "iodata.api.open, wrapping attrs classes, sys.addaudithook, sys.monitoring); ./check imports /repo's "
            "working tree directly (VF_REPO selects another tree for mutant runs)",
            "baseline_off_cmd": "cd /repo && /venv/bin/python -m pytest -ra -q -p no:cacheprovider --timeout=900 "
            "--continue-on-collection-errors",
            "source_commits": [],
            "add_only": True,
        },
        "engines": [
            {
                "name": "vf",
                "path": "/verif/vf",
                "serves_properties": sorted(CHECKS),
                "kind_free_text": "runtime monitoring: the real code under generated / hostile / fault-injected workloads, "
                "observed by monitors and compared with a reference model independent of iodata",
            }
        ],
        "checks": checks,
        "notes": "Exit codes: 0 held (KNOWN-FINDING lines possible), 1 VIOLATION, 2 INCONCLUSIVE. See DESIGN.md.",
        "not_applicable": [{"property_id": p, "reason": NOT_YET} for p in props if p not in CHECKS],
    }
    with open(os.path.join(ROOT, "MANIFEST.json"), "w") as fh:
        json.dump(manifest, fh, indent=1)
    return manifest


if __name__ == "__main__":
    m = build()
    print("checks:", [c["property_id"] for c in m["checks"]])
