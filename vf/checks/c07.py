"""C07 - loading any file content ends in a valid object or a LoadError, nothing else.

Every state a crashed writer can leave behind (truncation at line boundaries and byte offsets) and random mutations of
corpus files are fed to the real load_one / load_many of all 25 format modules under:
  * an exception classifier (only LoadError / FileFormatError may escape; message must name the file),
  * the line-step counter M3 (line number oracle; termination in logical steps),
  * a shape checker on returned objects,
  * descriptor / ResourceWarning monitors (file closed on return, exhaustion, discard).
"""

import gc
import os
import shutil
import tempfile
import warnings

import numpy as np

from ..gen import corpus
from ..gen.basis import rng_for
from ..mon import audit, lineiter, tables

PROPERTY = "C07"
LEVEL = "fault_enumeration"
RULE = (
    "corpus files (quick: the 4 smallest loadable files per format; thorough: every file <= 300 KB) x truncation at line boundaries "
    "(every boundary when the file has <= 60 (quick) / 400 (thorough) lines, else that many evenly spaced + random cuts) x byte-offset "
    "cuts x random mutations (delete, duplicate, swap, character substitution, numeric overflow, count inflation/deflation) + empty "
    "file, random bytes, a file of another format under this name; load_one for 25 modules and load_many for 7 (consumed fully, "
    "partially then discarded, closed explicitly), explicit and name-derived format. distinct = distinct (format, file, fault kind, "
    "position); non-trivial = the loader was entered (>= 1 line read) and the outcome classified."
)
EXHAUSTIVE = ["line-boundary truncations of files up to the stated number of lines"]
ASSUMPTIONS = ["iodata.api.LineIterator is looked up at call time (counting subclass honoured)", "/proc/self/fd lists open descriptors"]
TIMEOUT = {"quick": 1500, "thorough": 10800}
CASE_TIMEOUT = 900
MANY = {"xyz", "extxyz", "pdb", "mol2", "sdf", "gromacs", "fchk"}
EXT_FOR = {"json_qcschema": ".json", "extxyz": ".xyz", "qchemlog": ".out"}


def plan(tier, seed):
    ents = [e for e in corpus.entries(max_cost=0.35 if tier == "quick" else 3.0, max_size=300_000) if e["fmt"]]
    byfmt = {}
    for e in sorted(ents, key=lambda e: e["size"]):
        byfmt.setdefault(e["fmt"], []).append(e)
    cases = []
    for fmt, lst in sorted(byfmt.items()):
        chosen = lst[:4] if tier == "quick" else lst
        for e in chosen:
            cases.append({"file": e["file"], "fmt": fmt, "explicit": e["explicit"], "seed": seed,
                          "ncut": 80 if tier == "quick" else 400, "nbyte": 15 if tier == "quick" else 50,
                          "nmut": 120 if tier == "quick" else 400})
    # sectioned formats: EVERY array / section of a file emptied and resized (0, n-1, n+1, 2n, 1 values, header count adjusted), files
    # chosen greedily so that every section label occurring in the corpus is covered
    for fmt in ("fchk", "wfx"):
        todo = None
        pool = [(e, section_labels(os.path.join(corpus.bootstrap.DATA_DIR, e["file"]))) for e in byfmt.get(fmt, [])]
        todo = set().union(*[lab for _e, lab in pool]) if pool else set()
        while todo and pool:
            e, lab = max(pool, key=lambda x: (len(x[1] & todo), -x[0]["size"]))
            if not lab & todo:
                break
            todo -= lab
            cases.append({"file": e["file"], "fmt": fmt, "explicit": e["explicit"], "seed": seed, "sections": True,
                          "ncut": 0, "nbyte": 0, "nmut": 0})
    # the repository's own test-suite as a workload under monitor M9 (vf/mon/pytest_plugin.py)
    cases.append({"kind": "suite", "tier": tier, "timeout": 3300})
    return cases


SECTION_HEAD = __import__("re").compile(rb"\s[RI]\s+N=\s*\d+\s*$")
SECTION_TAG = __import__("re").compile(rb"\s*<[^/!][^>]*>\s*$")


def section_labels(path):
    with open(path, "rb") as fh:
        lines = fh.read().splitlines()
    return {ln[:40].strip() for ln in lines if SECTION_HEAD.search(ln + b"\n")} | {ln.strip() for ln in lines if SECTION_TAG.match(ln)}


def section_variants(lines):
    """(label, new_lines): every section of the file with 0, n-1, n+1, 2n and 1 values (its own values cut / repeated)."""
    import re

    for i, ln in enumerate(lines):
        head = bool(SECTION_HEAD.search(ln))
        if not head and not SECTION_TAG.match(ln):
            continue
        j = i + 1
        while j < len(lines) and not (re.search(rb"[A-Za-z]{3}", lines[j]) if head else re.match(rb"\s*<", lines[j])):
            j += 1
        toks = b" ".join(lines[i + 1:j]).split()
        if not toks:
            continue
        n = len(toks)
        per = max(1, len(lines[i + 1].split()))
        for m in sorted({0, max(n - 1, 1), n + 1, 2 * n, 1} - {n}):
            vals = [toks[k % n] for k in range(m)]
            new = list(lines)
            if head:
                new[i] = re.sub(rb"N=\s*\d+\s*$", b"N=%12d\n" % m, new[i])
            new[i + 1:j] = [b" " + b" ".join(vals[k:k + per]) + b"\n" for k in range(0, m, per)]
            yield f"section:{m - n:+d}@{i}", new


def _v(key, msg, **kw):
    d = {"key": key, "msg": msg}
    d.update(kw)
    return d


def shape_problems(d):
    """Mutually inconsistent shapes in a returned object (lengths and dimensions only)."""
    out = []
    natom = d.natom
    for name in ("atnums", "atcoords", "atcorenums", "atmasses", "atgradient", "atfrozen"):
        v = getattr(d, name)
        if v is not None and natom is not None and len(v) != natom:
            out.append(f"{name} has length {len(v)} but natom = {natom}")
    if d.atcoords is not None and (d.atcoords.ndim != 2 or d.atcoords.shape[1] != 3):
        out.append(f"atcoords shape {d.atcoords.shape}")
    if natom is not None:
        for key, v in (d.atcharges or {}).items():
            if hasattr(v, "__len__") and len(v) != natom:
                out.append(f"atcharges[{key}] has length {len(v)} but natom = {natom}")
        if d.athessian is not None and d.athessian.shape != (3 * natom, 3 * natom):
            out.append(f"athessian shape {d.athessian.shape} for natom = {natom}")
    if d.bonds is not None and (d.bonds.ndim != 2 or d.bonds.shape[1] != 3):
        out.append(f"bonds shape {d.bonds.shape}")
    if d.cellvecs is not None and (d.cellvecs.ndim != 2 or d.cellvecs.shape[1] != 3):
        out.append(f"cellvecs shape {d.cellvecs.shape}")
    if d.obasis is not None:
        for i, sh in enumerate(d.obasis.shells):
            if not (len(sh.angmoms) == len(sh.kinds) == sh.coeffs.shape[1] and len(sh.exponents) == sh.coeffs.shape[0]):
                out.append(f"shell {i}: angmoms/kinds/exponents/coeffs shapes disagree")
        if d.mo is not None and d.mo.coeffs is not None:
            try:
                nb = d.obasis.nbasis
            except Exception:
                nb = None
            want = None if nb is None else nb * (2 if d.mo.kind == "generalized" else 1)
            if want is not None and d.mo.coeffs.shape[0] != want:
                out.append(f"mo.coeffs has {d.mo.coeffs.shape[0]} rows but the basis has {nb} functions")
        if d.obasis is not None:
            try:
                nb = d.obasis.nbasis
                for key, dm in (d.one_rdms or {}).items():
                    if key.endswith("_mo"):
                        continue
                    if getattr(dm, "shape", None) != (nb, nb):
                        out.append(f"one_rdms[{key}] shape {getattr(dm, 'shape', None)} for nbasis = {nb}")
            except Exception:
                pass
    if d.mo is not None:
        norb = d.mo.norb
        for name in ("occs", "energies"):
            v = getattr(d.mo, name)
            if v is not None and norb is not None and len(v) != norb:
                out.append(f"mo.{name} has length {len(v)} but norb = {norb}")
        if d.mo.coeffs is not None and norb is not None and d.mo.coeffs.shape[1] != norb:
            out.append(f"mo.coeffs has {d.mo.coeffs.shape[1]} columns but norb = {norb}")
    if d.cube is not None and d.cube.data.ndim != 3:
        out.append(f"cube data ndim {d.cube.data.ndim}")
    return out


class Runner:
    def __init__(self, case, root):
        self.case = case
        self.root = root
        self.viols = {}
        self.counters = {"loads": 0, "load_errors": 0, "objects_returned": 0, "next_calls": 0, "lineno_checked": 0, "fd_checks": 0,
                         "load_many_runs": 0, "frames": 0, "fileformaterrors": 0}
        self.cls = lineiter.install()
        self.settings0 = tables.global_settings()
        self.name = "case" + EXT_FOR.get(case["fmt"], "")
        src = os.path.join(corpus.bootstrap.DATA_DIR, case["file"])
        base = os.path.basename(src)
        # keep a name for which the format is selected from the name, where that is possible
        self.path = os.path.join(root, base)
        with open(src, "rb") as fh:
            self.raw = fh.read()
        self.nlines_orig = self.raw.count(b"\n") + 1

    def add(self, key, msg):
        if key not in self.viols:
            self.viols[key] = _v(key, msg, count=0)
        self.viols[key]["count"] += 1

    def write(self, content):
        with open(self.path, "wb") as fh:
            fh.write(content)

    def check_exception(self, exc, tag, lit):
        import iodata

        name = type(exc).__name__
        if isinstance(exc, lineiter.StepBudgetExceeded):
            self.add("no-termination", f"{tag}: more than {self.cls.budget} line reads for a file of {self.nlines} lines")
            return
        if not isinstance(exc, (iodata.utils.LoadError, iodata.utils.FileFormatError)):
            self.add(f"escaped:{name}", f"{tag}: {name} escaped: {str(exc)[:200]}")
            return
        if isinstance(exc, iodata.utils.FileFormatError):
            self.counters["fileformaterrors"] += 1
        else:
            self.counters["load_errors"] += 1
        if os.path.basename(self.path) not in str(exc):
            self.add("message-without-file", f"{tag}: message does not name the file: {str(exc)[:200]}")
        if getattr(exc, "lineno", None) is not None and lit is not None:
            self.counters["lineno_checked"] += 1
            # lines a parser took from the file directly (lit.fh.read(), readline()) were read as well
            last_read = lit.n_read + getattr(lit, "direct_lines", 0)
            if exc.lineno != last_read:
                key = "lineno-eof-off-by-one" if exc.lineno == last_read + 1 and lit.next_calls > lit.n_read + lit.back_calls else "lineno-wrong"
                self.add(key, f"{tag}: error reports line {exc.lineno} but the last line that was read is {last_read} "
                         f"({lit.n_read} through the line iterator, {getattr(lit, 'direct_lines', 0)} taken from the file directly; "
                         f"file has {self.nlines} lines)")

    def check_closed(self, tag):
        self.counters["fd_checks"] += 1
        fds = audit.open_fds_on(self.path)
        if fds:
            self.add("file-left-open", f"{tag}: descriptors {fds} still open on the file")

    def check_settings(self, tag):
        """A (failed) load must not leave process-global switches changed: every later load would run under them.  For the
        attrs validator switch the consequence is demonstrated with a canary (an inconsistent object must be refused)."""
        self.counters["settings_checks"] = self.counters.get("settings_checks", 0) + 1
        now = tables.global_settings()
        for name, old, new in tables.settings_diff(self.settings0, now):
            extra = ""
            if name == "attrs.validators.disabled":
                import attrs
                from iodata import IOData

                try:
                    IOData(atnums=[1, 1], atcoords=np.zeros((3, 3)))
                    extra = "; canary: IOData with 2 atomic numbers and 3 coordinate rows is now ACCEPTED, i.e. later loads return inconsistent shapes"
                except TypeError:
                    extra = "; canary still refused"
                attrs.validators.set_disabled(False)
            self.add(f"global-state-left-changed:{name}", f"{tag}: after the call {name} is {new!r} (was {old!r}){extra}")
        self.settings0 = tables.global_settings()

    def load_one(self, tag, fmt):
        import iodata

        self.cls.instances.clear()
        self.cls.budget = 20 * self.nlines + 1000
        self.counters["loads"] += 1
        lit = None
        # every third load runs with warnings turned into errors (python -W error, the library's own pytest setting): a
        # warning issued while parsing then surfaces as an exception, which must still be funnelled into LoadError
        strict = self.counters["loads"] % 3 == 0
        self.counters["loads_warnings_as_errors"] = self.counters.get("loads_warnings_as_errors", 0) + int(strict)
        with warnings.catch_warnings(record=True) as wl:
            warnings.simplefilter("error" if strict else "always")
            warnings.simplefilter("always", ResourceWarning)
            try:
                d = iodata.load_one(self.path, fmt=fmt)
                exc = None
            except BaseException as e:  # noqa: BLE001
                if type(e).__name__ == "CaseTimeout" or isinstance(e, (KeyboardInterrupt, SystemExit)):
                    raise
                d, exc = None, e
        lit = self.cls.instances[-1] if self.cls.instances else None
        if lit is not None:
            self.counters["next_calls"] += lit.next_calls
        if exc is not None:
            self.check_exception(exc, tag, lit)
        else:
            self.counters["objects_returned"] += 1
            for p in shape_problems(d):
                self.add("inconsistent-shapes", f"{tag}: returned object: {p}")
        self.check_closed(tag)
        self.check_settings(tag)
        for w in wl:
            if issubclass(w.category, ResourceWarning):
                self.add("file-left-open", f"{tag}: ResourceWarning {w.message}")

    def load_many(self, tag, fmt, mode):
        import iodata

        self.cls.instances.clear()
        self.cls.budget = 20 * self.nlines + 1000
        self.counters["load_many_runs"] += 1
        it = None
        try:
            with warnings.catch_warnings(record=True) as wl:
                warnings.simplefilter("always")
                try:
                    it = iodata.load_many(self.path, fmt=fmt)
                    for k, d in enumerate(it):
                        self.counters["frames"] += 1
                        for p in shape_problems(d):
                            self.add("inconsistent-shapes", f"{tag}: frame {k}: {p}")
                        if mode == "partial" and k >= 0:
                            break
                        if k > 5000:
                            self.add("no-termination", f"{tag}: more than 5000 frames")
                            break
                    exc = None
                except BaseException as e:  # noqa: BLE001
                    if type(e).__name__ == "CaseTimeout" or isinstance(e, (KeyboardInterrupt, SystemExit)):
                        raise
                    exc = e
                if mode == "close" and it is not None:
                    it.close()
                it = None
                gc.collect()
            lit = self.cls.instances[-1] if self.cls.instances else None
            if lit is not None:
                self.counters["next_calls"] += lit.next_calls
            if exc is not None:
                self.check_exception(exc, tag, lit)
            self.check_closed(tag)
            self.check_settings(tag)
            for w in wl:
                if issubclass(w.category, ResourceWarning):
                    self.add("file-left-open", f"{tag}: ResourceWarning {w.message}")
        finally:
            del it


def mutations(rng, lines, n):
    """Yield (label, new_lines)."""
    nl = len(lines)
    if nl == 0:
        return
    for _ in range(n):
        kind = str(rng.choice(["delete", "duplicate", "swap", "subst", "overflow", "count", "delete_block", "blank", "intfield", "intfield",
                               "empty_section", "empty_section", "resize_section", "resize_section"]))
        new = list(lines)
        i = int(rng.integers(nl))
        if kind == "delete":
            del new[i]
        elif kind == "delete_block":
            j = min(nl, i + int(rng.integers(2, 12)))
            del new[i:j]
        elif kind == "duplicate":
            new.insert(i, new[i])
        elif kind == "swap":
            j = int(rng.integers(nl))
            new[i], new[j] = new[j], new[i]
        elif kind == "blank":
            new[i] = b"\n"
        elif kind == "subst":
            line = bytearray(new[i])
            if len(line) > 1:
                k = int(rng.integers(len(line) - 1))
                line[k] = int(rng.choice(list(b"0123456789.-+eEDxyz*$@ #,")))
            new[i] = bytes(line)
        elif kind == "overflow":
            words = new[i].split()
            nums = [k for k, w in enumerate(words) if any(c in b"0123456789" for c in w)]
            if nums:
                k = nums[int(rng.integers(len(nums)))]
                words[k] = rng.choice([b"1e400", b"12345678901234567890", b"nan", b"*****", b"-", b"1.2.3", b"0x10", b"inf", b"100000000000000000"])
                new[i] = b" ".join(words) + b"\n"
        elif kind == "intfield":
            # change one integer of a line that consists of integers only (type codes, maps, counts deep inside the file)
            cand = [k for k in rng.integers(0, nl, size=40).tolist() if new[k].split() and all(w.lstrip(b"-").isdigit() for w in new[k].split())]
            if cand:
                i = int(cand[0])
                words = new[i].split()
                k = int(rng.integers(len(words)))
                val = int(words[k])
                words[k] = str(int(rng.choice([val + 1, val - 1, -val, val * 2 + 1, 0]))).encode()
                new[i] = b" " + b" ".join(words) + b"\n"
        elif kind == "empty_section":
            # one array / section of the file emptied while the rest stays intact: "N= 0" with its data lines removed (FCHK-like
            # headers), the lines between <Tag> and </Tag> removed (WFX-like), a JSON array replaced by [] on its line
            import re

            heads = [k for k in range(nl) if re.search(rb"N=\s*\d+\s*$", new[k])]
            tags = [k for k in range(nl) if re.match(rb"\s*<[^/!][^>]*>\s*$", new[k])]
            arrs = [k for k in range(nl) if re.search(rb"\[[^\[\]]+\]", new[k])]
            pools = [p for p in (heads, tags, arrs) if p]
            if pools:
                pool = pools[int(rng.integers(len(pools)))]
                i = int(pool[int(rng.integers(len(pool)))])
                if pool is heads:
                    new[i] = re.sub(rb"N=\s*\d+\s*$", b"N=           0\n", new[i])
                    j = i + 1
                    while j < len(new) and not re.search(rb"[A-Za-z]{3}", new[j]):
                        j += 1
                    del new[i + 1:j]
                elif pool is tags:
                    j = i + 1
                    while j < len(new) and not re.match(rb"\s*</", new[j]):
                        j += 1
                    del new[i + 1:j]
                else:
                    new[i] = re.sub(rb"\[[^\[\]]+\]", b"[]", new[i], count=1)
        elif kind == "resize_section":
            # one array / section given another, internally consistent size (header count and number of values agree) that no
            # longer fits the rest of the file: n-1, n+1, 2n or 1 values, made by cutting / repeating the section's own values
            import re

            heads = [k for k in range(nl) if re.search(rb"\s[RI]\s+N=\s*\d+\s*$", new[k])]
            tags = [k for k in range(nl) if re.match(rb"\s*<[^/!][^>]*>\s*$", new[k])]
            pools = [p for p in (heads, tags) if p]
            if pools:
                pool = pools[int(rng.integers(len(pools)))]
                i = int(pool[int(rng.integers(len(pool)))])
                j = i + 1
                if pool is heads:
                    while j < len(new) and not re.search(rb"[A-Za-z]{3}", new[j]):
                        j += 1
                else:
                    while j < len(new) and not re.match(rb"\s*<", new[j]):
                        j += 1
                toks = b" ".join(new[i + 1:j]).split()
                if toks:
                    n = len(toks)
                    m = int(rng.choice([max(n - 1, 1), n + 1, 2 * n, 1]))
                    per = max(1, len(new[i + 1].split()))
                    vals = [toks[k % n] for k in range(m)]
                    body = [b" " + b" ".join(vals[k:k + per]) + b"\n" for k in range(0, m, per)]
                    if pool is heads:
                        new[i] = re.sub(rb"N=\s*\d+\s*$", b"N=%12d\n" % m, new[i])
                    new[i + 1:j] = body
        elif kind == "count":
            i = int(rng.integers(min(nl, 12)))
            words = new[i].split()
            ints = [k for k, w in enumerate(words) if w.lstrip(b"-").isdigit()]
            if ints:
                k = ints[int(rng.integers(len(ints)))]
                val = int(words[k])
                # (10**17 elements cannot be allocated on any machine: the parser's MemoryError must come out as LoadError too)
                words[k] = str(int(rng.choice([val * 10, val * 1000, val - 1, 0, -val, val + 1, 10**7, 10**17, 10**17]))).encode()
                new[i] = b" ".join(words) + b"\n"
        yield f"{kind}@{i}", new


def run_case(case):
    if case.get("kind") == "suite":
        from .. import suite

        return suite.case(['loaded-shapes', 'file-closed'], case["tier"])
    rng = rng_for(7, case["seed"], sum(map(ord, case["file"])))
    root = tempfile.mkdtemp(prefix="vf_c07_")
    feats = []
    try:
        R = Runner(case, root)
        fmt_explicit = case["fmt"]
        fmt_arg = case["fmt"] if case["explicit"] else None
        lines = R.raw.splitlines(keepends=True)
        nl = len(lines)
        # intact file first (oracle sanity: must load or raise LoadError)
        R.nlines = nl
        R.write(R.raw)
        R.load_one("intact", fmt_arg)
        variants = []
        # truncation at line boundaries
        if nl <= case["ncut"]:
            cuts = list(range(nl))
        else:
            cuts = sorted(set(np.linspace(0, nl - 1, case["ncut"] // 2).astype(int).tolist()
                              + rng.integers(0, nl, size=case["ncut"] // 2).tolist()))
        for c in cuts:
            variants.append((f"cut-line:{c}", b"".join(lines[:c])))
        for off in sorted(set(rng.integers(0, max(1, len(R.raw)), size=case["nbyte"]).tolist())):
            variants.append((f"cut-byte:{off}", R.raw[:off]))
        for label, new in mutations(rng, lines, case["nmut"]):
            variants.append((f"mut:{label}", b"".join(new)))
        if case.get("sections"):
            variants = [(f"mut:{label}", b"".join(new)) for label, new in section_variants(lines)]
            R.counters["section_variants"] = len(variants)
        variants.append(("empty", b""))
        variants.append(("random-bytes", bytes(rng.integers(0, 256, size=4096, dtype=np.uint8))))
        variants.append(("newlines", b"\n" * 50))
        other = os.path.join(corpus.bootstrap.DATA_DIR, "water.xyz" if case["fmt"] != "xyz" else "water_sto3g_hf_g03.fchk")
        with open(other, "rb") as fh:
            variants.append(("other-format", fh.read()))
        for k, (label, content) in enumerate(variants):
            R.nlines = content.count(b"\n") + 1
            R.write(content)
            # explicit and name-derived format selection alternate (when the name selects this format)
            fmt = fmt_arg if (k % 2 == 0 or case["explicit"]) else fmt_explicit
            R.load_one(f"{case['fmt']}:{label}", fmt)
            if case["fmt"] in MANY and (k % 3 == 0):
                mode = ["full", "partial", "close"][(k // 3) % 3]
                R.load_many(f"{case['fmt']}:load_many[{mode}]:{label}", fmt, mode)
            feats.append(f"{case['fmt']}:{case['file']}:{label.split(':')[0]}:{label.split(':')[-1] if 'cut' in label else label.split('@')[0]}")
        import iodata

        # an operation this format does not have, asked for right after the operations it has were used on the same name
        if case["fmt"] not in MANY and not case["explicit"]:
            R.write(R.raw)
            try:
                for _ in iodata.load_many(R.path):
                    break
                R.add("unsupported-operation-ran", f"load_many on a {case['fmt']} file returned frames although the format has no load_many")
            except iodata.utils.FileFormatError:
                R.counters["fileformaterrors"] += 1
            except Exception as exc:
                R.add(f"escaped:{type(exc).__name__}", f"load_many on a {case['fmt']} file (format without load_many) after load_one on the same "
                                                       f"name: {type(exc).__name__} instead of FileFormatError: {str(exc)[:100]}")
        # a name for which no format can be selected: FileFormatError naming the file

        unk = os.path.join(root, "content.unknown_extension")
        with open(unk, "wb") as fh:
            fh.write(R.raw[:2000])
        for fn in (iodata.load_one, lambda p: list(iodata.load_many(p))):
            try:
                fn(unk)
                R.add("unselectable-loaded", "a file with an unknown extension was loaded")
            except iodata.utils.FileFormatError as exc:
                R.counters["fileformaterrors"] += 1
                if "content.unknown_extension" not in str(exc):
                    R.add("message-without-file", f"FileFormatError does not name the file: {exc}")
            except Exception as exc:
                R.add(f"escaped:{type(exc).__name__}", f"unknown extension: {type(exc).__name__} instead of FileFormatError")
        viols = list(R.viols.values())
        counters = R.counters
    finally:
        lineiter.uninstall()
        shutil.rmtree(root, ignore_errors=True)
    sample = {"file": case["file"], "fmt": case["fmt"], "variants": len(feats), "lines": nl}
    return {"status": "violation" if viols else "ok", "violations": viols, "features": sorted(set(feats)), "counters": counters, "sample": sample}


def finish(results, tier):
    tot = {}
    for r in results:
        for k, v in (r.get("counters") or {}).items():
            tot[k] = tot.get(k, 0) + v
    if tot.get("next_calls", 0) == 0:
        return {"inconclusive": "the counting LineIterator was never used (hook not bound)"}
    return {"formats_covered": sorted({r["sample"]["fmt"] for r in results if r.get("sample") and "fmt" in r["sample"]})}
