"""C05 - Molden/Molekel files from quirky programs load as the true wavefunction.

Vendor-encoded files of TRUE wavefunctions (R.vendors encoders, validated on the real vendor files of the corpus),
standard-conforming files and corrupted files (for which R shows that no known decoding gives normalised orbitals) are
loaded with the real load_one for a range of norm_threshold values.  Observed: the returned orbitals as functions of space
(R.gto), their orthonormality w.r.t. the returned basis (exact overlaps), the LoadWarnings issued, LoadError for unfixable files.
"""

import os
import shutil
import tempfile
import warnings

import numpy as np

from ..gen.basis import rng_for
from ..ref import gto, spec_writers, vendors, wfncompare
from ..ref.spec_writers import base

PROPERTY = "C05"
LEVEL = "exploration"
RULE = (
    "true wavefunctions (random molecules, s..g shells Cartesian or pure as each vendor allows, restricted and unrestricted, complete "
    "orthonormal sets) x encoding in {standard, ORCA, PSI4<1.0, Turbomole, CFOUR, unnormalised contractions, PSI4<=1.3.2} x "
    "{Molden, Molekel} x coordinate unit {AU, Angs} x norm_threshold in {1e-5,1e-4,1e-3,1e-2}; corrupted encodings (per-function "
    "scaling of MO rows, single-primitive coefficient changes) for which R shows that no known decoding gives normalised orbitals. "
    "distinct = distinct (file format, encoding/class, norm_threshold, outcome); non-trivial = the file was loaded (or refused) and "
    "all oracles evaluated."
)
ASSUMPTIONS = ["vendor encoders validated against the corpus vendor files only (vendors.validate)", "R.gto exact overlaps"]
TIMEOUT = {"quick": 1500, "thorough": 7200}
CASE_TIMEOUT = 600
THRESHOLDS = [1e-5, 1e-4, 1e-3, 1e-2]
WARNING_NAMES = {
    "orca": "ORCA", "psi4_old": "PSI4 < 1.0", "turbomole": "Turbomole", "cfour": "CFOUR", "unnormalized_contractions": "unnormalized contractions",
    "psi4_132": "PSI4 <= 1.3.2",
}


# any wording that names a program or deviation of the statement counts as naming a correction
NAMES_ANY = ["ORCA", "PSI4", "Turbomole", "CFOUR", "unnormalized contraction", "unnormalised contraction", "contraction"]


def selftest():
    return gto.selftest(4)


def plan(tier, seed):
    ws = spec_writers.all_writers()
    cases = []
    nrep = 2 if tier == "quick" else 40
    for wname in ("molden_vendor", "molekel_vendor"):
        for klass in ws[wname].CLASSES:
            for rep in range(nrep):
                cases.append({"kind": "vendor", "writer": wname, "klass": klass, "rep": rep, "seed": seed})
    for wname in ("molden", "molekel"):
        for klass in ws[wname].CLASSES:
            if klass in getattr(ws[wname], "NOT_ASSERTED", {}):
                continue
            for rep in range(nrep):
                cases.append({"kind": "standard", "writer": wname, "klass": klass, "rep": rep, "seed": seed})
    for wname in ("molden", "molekel", "molden_vendor"):
        for rep in range(6 if tier == "quick" else 300):
            cases.append({"kind": "corrupt", "writer": wname, "rep": rep, "seed": seed})
    # coefficients printed with 3-6 decimals (what most programs do): norm errors of 1e-3 .. 1e-6 that are not defects; loaded with a
    # threshold well above the error (must load) and one well below it (no decoding is normalised to that accuracy: must be refused)
    for klass in ws["molden_vendor"].CLASSES:
        for rep in range(1 if tier == "quick" else 20):
            cases.append({"kind": "rounded", "writer": "molden_vendor", "klass": klass, "rep": rep, "seed": seed})
    for klass in ws["molden"].CLASSES:
        if klass not in getattr(ws["molden"], "NOT_ASSERTED", {}):
            for rep in range(1 if tier == "quick" else 10):
                cases.append({"kind": "rounded", "writer": "molden", "klass": klass, "rep": rep, "seed": seed})
    return cases


def _v(key, msg, **kw):
    d = {"key": key, "msg": msg}
    d.update(kw)
    return d


def norm_errors(wfn):
    """max |diag(C^T S C) - 1| and max |C^T S C - 1| for a base.WFN-style wavefunction."""
    funcs = wfncompare.model_funcs(wfn)
    S = gto.overlap_funcs(funcs, wfn["atcoords"])
    C = np.asarray(wfn["mo_coeffs"], dtype=float)
    M = C.T @ S @ C
    if wfn["mo_kind"] == "unrestricted":
        na = wfn["norba"]
        d = np.concatenate([np.diag(M[:na, :na]), np.diag(M[na:, na:])])
    else:
        d = np.diag(M)
    return float(np.abs(d - 1).max())


def loaded_orthonormality(data):
    S = gto.overlap_exact(data.obasis, data.atcoords)
    out = 0.0
    for C in ((data.mo.coeffsa, data.mo.coeffsb) if data.mo.kind == "unrestricted" else (data.mo.coeffs,)):
        M = C.T @ S @ C
        out = max(out, float(np.abs(M - np.eye(M.shape[0])).max()))
    return out


def load(path, thr):
    import iodata

    with warnings.catch_warnings(record=True) as wl:
        warnings.simplefilter("always")
        try:
            d = iodata.load_one(path, norm_threshold=thr)
            err = None
        except iodata.utils.LoadError as exc:
            d, err = None, exc
    msgs = [str(w.message) for w in wl if issubclass(w.category, iodata.utils.LoadWarning)]
    return d, err, msgs


def case_file(case):
    mod = spec_writers.all_writers()[case["writer"]]
    rng = rng_for(5, case["seed"], case["rep"], sum(map(ord, case["writer"] + case["klass"])))
    model = mod.generate(rng, case["klass"])
    text = mod.write(model)
    exp = mod.expected(model)
    wfn = exp[base.WFN]
    viols, feats = [], []
    counters = {"loads": 0, "wavefunction_comparisons": 0, "orthonormality_checks": 0, "warnings_seen": 0}
    root = tempfile.mkdtemp(prefix="vf_c05_")
    try:
        path = os.path.join(root, mod.FILENAME)
        with open(path, "w") as fh:
            fh.write(text)
        vendor = model.get("vendor")
        for thr in THRESHOLDS:
            tag = f"{case['writer']}/{case['klass']} norm_threshold={thr:g}"
            d, err, msgs = load(path, thr)
            counters["loads"] += 1
            counters["warnings_seen"] += len(msgs)
            if err is not None:
                viols.append(_v(f"refused:{vendor or 'standard'}", f"{tag}: {'vendor-encoded' if vendor else 'standard'} file refused: {err}"))
                continue
            for msg in wfncompare.compare_wfn(wfn, d, rng, rel_tol=getattr(mod, "WFN_REL_TOL", 1e-6)):
                viols.append(_v(f"wrong-wavefunction:{vendor or 'standard'}", f"{tag}: {msg}"))
            counters["wavefunction_comparisons"] += 1
            orth = loaded_orthonormality(d)
            counters["orthonormality_checks"] += 1
            if orth > 10 * thr + 1e-6:
                viols.append(_v(f"not-orthonormal:{vendor or 'standard'}", f"{tag}: max|C^T S C - 1| = {orth:.2e} with the returned basis"))
            if vendor is None:
                if msgs:
                    viols.append(_v("standard-corrected", f"{tag}: standard-conforming file loaded with a correction: {msgs[0]}"))
            else:
                # with a large threshold a quirk whose effect on the norms is below it goes legitimately unnoticed
                printed_err = norm_errors(model["printed"]) if "printed" in model else None
                named_ok = [WARNING_NAMES[v] for v in [vendor] + vendors.coincides_with(vendor, wfn["shells"])]
                if not msgs:
                    if printed_err is None or printed_err > thr:
                        viols.append(_v(f"no-warning:{vendor}", f"{tag}: corrected file loaded without a LoadWarning"))
                elif not any(n.lower() in m.lower() for m in msgs for n in NAMES_ANY):
                    # "names the correction": one of the program names / deviations of the statement appears in a LoadWarning,
                    # whatever the wording around it
                    viols.append(_v(f"no-warning:{vendor}", f"{tag}: no LoadWarning names a correction: {msgs}"))
                elif any(n.lower() in m.lower() for m in msgs for n in named_ok):
                    counters["named_as_encoded"] = counters.get("named_as_encoded", 0) + 1
                else:
                    # Another correction that yields the true wavefunction (checked above) is an applicable correction too
                    # (e.g. Turbomole's uniform shell scaling is also removed by re-normalising the contractions).
                    counters["named_other_applicable"] = counters.get("named_other_applicable", 0) + 1
            feats.append(f"{case['writer']}:{case['klass']}:thr={thr:g}:{'warn' if msgs else 'silent'}")
    finally:
        shutil.rmtree(root, ignore_errors=True)
    return viols, feats, counters, {"writer": case["writer"], "klass": case["klass"], "vendor": vendor, "features": model.get("features")}


def case_corrupt(case):
    """Files that match no vendor: R shows that every known decoding leaves orbitals un-normalised -> must be rejected."""
    ws = spec_writers.all_writers()
    mod = ws[case["writer"]]
    rng = rng_for(5, 7, case["seed"], case["rep"], sum(map(ord, case["writer"])))
    classes = [k for k in mod.CLASSES if k not in getattr(mod, "NOT_ASSERTED", {})]
    klass = classes[int(rng.integers(len(classes)))]
    model = mod.generate(rng, klass)
    printed = model["printed"] if "printed" in model else None
    render_mod = ws["molden"] if case["writer"].startswith("molden") else ws["molekel"]
    if printed is None:
        # standard writers keep the printed numbers under model["wfn"]
        printed = model.get("wfn")
    if printed is None or not hasattr(render_mod, "render"):
        return None
    bad = dict(printed)
    C = np.array(printed["mo_coeffs"], dtype=float)
    kind = str(rng.choice(["row-scale", "row-scale-2", "orbital-scale"]))
    if kind == "row-scale":
        C[int(rng.integers(C.shape[0]))] *= float(rng.choice([0.4, 1.9, 2.5]))
    elif kind == "row-scale-2":
        for r in rng.choice(C.shape[0], size=min(2, C.shape[0]), replace=False):
            C[int(r)] *= float(rng.choice([0.5, 1.7]))
    else:
        C[:, int(rng.integers(C.shape[1]))] *= float(rng.choice([0.8, 1.25]))
    bad["mo_coeffs"] = C
    # R: does any known decoding (or none) give normalised orbitals?
    best = norm_errors(_public(bad))
    for enc in vendors.ENCODINGS:
        try:
            best = min(best, norm_errors(_public(vendors.decode(enc, bad))))
        except Exception:
            continue
    viols, feats = [], []
    counters = {"loads": 0, "corrupt_files": 1, "must_reject": 0, "rejected": 0}
    root = tempfile.mkdtemp(prefix="vf_c05c_")
    try:
        text = render_mod.render(model, bad)
        path = os.path.join(root, render_mod.FILENAME)
        with open(path, "w") as fh:
            fh.write(text)
        for thr in THRESHOLDS:
            d, err, msgs = load(path, thr)
            counters["loads"] += 1
            if err is not None:
                counters["rejected"] += 1
            if best > 100 * thr:
                counters["must_reject"] += 1
                if err is None:
                    viols.append(_v("uncorrectable-file-loaded", f"{case['writer']}/{klass} corrupted by {kind}: no known decoding gives normalised "
                                    f"orbitals (best norm error {best:.2e}) but the file was loaded with norm_threshold={thr:g} "
                                    f"({'after ' + msgs[0] if msgs else 'without correction'})"))
            feats.append(f"corrupt:{case['writer']}:{kind}:thr={thr:g}:{'rejected' if err else 'loaded'}")
    finally:
        shutil.rmtree(root, ignore_errors=True)
    return viols, feats, counters, {"writer": case["writer"], "klass": klass, "corruption": kind, "best_norm_error": best}


def case_rounded(case):
    """A standard or vendor-encoded file whose orbital coefficients carry 3-6 decimals, loaded with thresholds on both sides of
    the norm error that the rounding causes."""
    ws = spec_writers.all_writers()
    mod = ws[case["writer"]]
    rng = rng_for(5, 9, case["seed"], case["rep"], sum(map(ord, case["writer"] + case["klass"])))
    model = mod.generate(rng, case["klass"])
    printed = model["printed"] if "printed" in model else model.get("wfn")
    render_mod = ws["molden"]
    if printed is None:
        return None
    vendor = model.get("vendor")
    ndec = int(rng.choice([3, 4, 6]))
    rounded = dict(printed)
    rounded["mo_coeffs"] = np.round(np.array(printed["mo_coeffs"], dtype=float), ndec)
    try:
        e_true = norm_errors(_public(vendors.decode(vendor, rounded) if vendor else rounded))
    except Exception:
        return None
    e_best = norm_errors(_public(rounded))
    for enc in vendors.ENCODINGS:
        try:
            e_best = min(e_best, norm_errors(_public(vendors.decode(enc, rounded))))
        except Exception:
            continue
    viols, feats = [], []
    counters = {"loads": 0, "rounded_files": 1, "must_reject": 0, "rejected": 0, "must_load": 0}
    root = tempfile.mkdtemp(prefix="vf_c05r_")
    try:
        path = os.path.join(root, render_mod.FILENAME)
        with open(path, "w") as fh:
            fh.write(render_mod.render(model, rounded))
        tag = f"{case['writer']}/{case['klass']} with {ndec}-decimal coefficients (norm error of the right decoding {e_true:.1e}, smallest of any {e_best:.1e})"
        loose = [t for t in (20 * e_true, 200 * e_true) if 1e-9 < t < 0.05]
        tight = [t for t in (e_best / 100, e_best / 1000) if t > 1e-13]
        for thr in loose:
            d, err, msgs = load(path, thr)
            counters["loads"] += 1
            counters["must_load"] += 1
            if err is not None:
                viols.append(_v(f"refused:{vendor or 'standard'}", f"{tag}: refused with norm_threshold={thr:.1e}: {err}"))
            elif loaded_orthonormality(d) > 0 and norm_of_loaded(d) > 10 * thr + 1e-6:
                viols.append(_v(f"not-orthonormal:{vendor or 'standard'}", f"{tag}: loaded with norm_threshold={thr:.1e} but the returned "
                                f"orbitals have norm error {norm_of_loaded(d):.2e}"))
            feats.append(f"rounded:{case['klass']}:d{ndec}:loose:{'refused' if err else 'loaded'}")
        for thr in tight:
            d, err, msgs = load(path, thr)
            counters["loads"] += 1
            counters["must_reject"] += 1
            if err is not None:
                counters["rejected"] += 1
            else:
                viols.append(_v("uncorrectable-file-loaded", f"{tag}: loaded with norm_threshold={thr:.1e} "
                                f"({'after ' + msgs[0] if msgs else 'without correction'})"))
            feats.append(f"rounded:{case['klass']}:d{ndec}:tight:{'refused' if err else 'loaded'}")
    finally:
        shutil.rmtree(root, ignore_errors=True)
    return viols, feats, counters, {"writer": case["writer"], "klass": case["klass"], "vendor": vendor, "decimals": ndec, "e_true": e_true,
                                    "e_best": e_best}


def norm_of_loaded(data):
    """max |diag(C^T S C) - 1| of a loaded object w.r.t. its own basis (exact overlaps)."""
    S = gto.overlap_exact(data.obasis, data.atcoords)
    out = 0.0
    for C in ((data.mo.coeffsa, data.mo.coeffsb) if data.mo.kind == "unrestricted" else (data.mo.coeffs,)):
        out = max(out, float(np.abs(np.diag(C.T @ S @ C) - 1).max()))
    return out


def _public(wfn):
    from ..ref.spec_writers import _wfnmodel as wm

    try:
        return wm.public_wfn(wfn)
    except Exception:
        return wfn


def run_case(case):
    res = case_corrupt(case) if case["kind"] == "corrupt" else case_rounded(case) if case["kind"] == "rounded" else case_file(case)
    if res is None:
        return {"status": "skip"}
    viols, feats, counters, sample = res
    bykey = {}
    for v in viols:
        bykey.setdefault(v["key"], v)
    return {"status": "violation" if viols else "ok", "violations": list(bykey.values()), "features": feats, "counters": counters, "sample": sample}


def finish(results, tier):
    tot = {}
    for r in results:
        for k, v in (r.get("counters") or {}).items():
            tot[k] = tot.get(k, 0) + v
    if tot.get("wavefunction_comparisons", 0) == 0 or tot.get("must_reject", 0) == 0:
        return {"inconclusive": f"deciding monitors not reached: {tot}"}
    return {}
