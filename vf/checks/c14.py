"""C14 - basis segmentation and orbital un-restriction preserve the physics.

Observes the return values of the real convert_to_segmented, convert_to_unrestricted, prepare_segmented and
prepare_unrestricted_aminusb on generated inputs.  Oracles: R.gto (function values row by row, hence overlaps),
the documented alpha/beta rules re-implemented independently, deep snapshots (M1) for idempotence and for
"the argument is not modified".
"""

import warnings

import numpy as np

from ..gen import basis as gb
from ..gen import orbitals as go
from ..mon import snapshot as snap
from ..ref import gto

PROPERTY = "C14"
LEVEL = "exploration"
RULE = (
    "bases: random mixtures of segmented / SP / generalized shells (1-5 contractions, mixed l and kinds) x keep_sp; orbitals: "
    "restricted sets over occupation classes {closed, rohf, fractional, aminusb, aminusb_neg, none, empty} x optional arrays "
    "present/absent, plus unrestricted and generalized; prepare_* x allow_changes. distinct = distinct (function, contraction "
    "signature or occupation class + optional-array mask, keep_sp / allow_changes); non-trivial = a conversion actually took place "
    "or a documented rejection / identity return was observed."
)
ASSUMPTIONS = ["R.gto evaluator", "documented alpha/beta rules of the MolecularOrbitals docstring"]


def selftest():
    return gto.selftest(4)


def plan(tier, seed):
    n = 150 if tier == "quick" else 40000
    cases = [{"kind": "segment", "seed": seed, "i": i} for i in range(n)]
    cases += [{"kind": "unrestrict", "seed": seed, "i": i} for i in range(n)]
    cases += [{"kind": "prepare", "seed": seed, "i": i} for i in range(n)]
    return cases


def _v(key, msg, **kw):
    d = {"key": key, "msg": msg}
    d.update(kw)
    return d


def random_mixed_basis(rng, natom=3):
    shells = []
    for _ in range(int(rng.integers(1, 6))):
        contraction = str(rng.choice(["segmented", "sp", "generalized"], p=[0.3, 0.25, 0.45]))
        shells.append(gb.random_shell(rng, int(rng.integers(0, natom)), lmax=4, contraction=contraction))
    if rng.random() < 0.2:  # generalized shell that looks like SP but is not: [1, 0] or pure kinds
        shells.append(gb.make_shell(0, [1, 0], ["c", "c"], [1.2, 0.3], rng.uniform(0.2, 1, size=(2, 2))))
    if rng.random() < 0.2:  # generalized contraction with repeated angular momentum (ANO style)
        shells.append(gb.make_shell(1, [0, 0, 0], ["c", "c", "c"], [5.0, 1.2, 0.3], rng.uniform(0.2, 1, size=(3, 3))))
    if rng.random() < 0.3:
        shells = [gb.relayout_shell(rng, sh) for sh in shells]  # same shells, arrays in other memory layouts
    conv = gb.random_conventions(rng, gb.keys_of(shells))
    return gb.make_basis(shells, conv)


def sig(basis):
    return ";".join(",".join(f"{l}{k}" for l, k in zip(sh.angmoms, sh.kinds)) for sh in basis.shells)


def is_sp(sh):
    return sh.ncon == 2 and list(sh.angmoms) == [0, 1]


def case_segment(case):
    from iodata.convert import convert_to_segmented

    rng = gb.rng_for(14, 1, case["seed"], case["i"])
    basis = random_mixed_basis(rng)
    keep_sp = bool(rng.integers(0, 2))
    xyz = gb.random_geometry(rng, 3)
    pts = rng.normal(scale=1.5, size=(8, 3))
    before = snap.canon(basis)
    new = convert_to_segmented(basis, keep_sp)
    viols = []
    if snap.diff(before, snap.canon(basis)):
        viols.append(_v("segmented-mutates", f"argument changed: {snap.diff(before, snap.canon(basis))[:2]}"))
    for sh in new.shells:
        if sh.ncon != 1 and not (keep_sp and is_sp(sh)):
            viols.append(_v("segmented-left-generalized", f"shell {sh.angmoms.tolist()} not segmented (keep_sp={keep_sp})"))
    if keep_sp and sum(is_sp(s) for s in basis.shells) != sum(is_sp(s) for s in new.shells):
        viols.append(_v("segmented-keep-sp", "keep_sp=True did not keep the SP shells"))
    if new.conventions != basis.conventions or new.primitive_normalization != basis.primitive_normalization:
        viols.append(_v("segmented-conventions", "conventions / normalisation changed"))
    if new.nbasis != basis.nbasis:
        viols.append(_v("segmented-functions", f"nbasis {basis.nbasis} -> {new.nbasis}"))
    else:
        f0 = gto.expand(basis)
        f1 = gto.expand(new)
        if [f.icenter for f in f0] != [f.icenter for f in f1]:
            viols.append(_v("segmented-centres", "functions moved to other centres"))
        v0 = gto.eval_funcs(f0, xyz, pts)
        v1 = gto.eval_funcs(f1, xyz, pts)
        if not np.array_equal(v0, v1) and np.abs(v0 - v1).max() > 1e-14 * max(1.0, np.abs(v0).max()):
            row = int(np.argwhere(np.abs(v0 - v1) > 1e-14 * max(1.0, np.abs(v0).max()))[0][0])
            viols.append(_v("segmented-functions", f"basis function {row} is a different function after segmentation "
                            f"(values {v0[row][:3]} vs {v1[row][:3]})"))
    again = convert_to_segmented(new, keep_sp)
    if snap.diff(snap.canon(new), snap.canon(again)):
        viols.append(_v("segmented-idempotent", "converting twice differs from converting once"))
    changed = sig(new) != sig(basis)
    feats = [f"segment:{'changed' if changed else 'same'}:keep_sp={keep_sp}:" +
             ",".join(sorted({('sp' if is_sp(s) else f'gen{s.ncon}') if s.ncon > 1 else 'seg' for s in basis.shells}))]
    for v in viols:
        v["basis"] = sig(basis)
        v["keep_sp"] = keep_sp
    return viols, feats, {"convert_to_segmented_calls": 2, "function_rows_compared": int(basis.nbasis)}, {
        "basis": sig(basis), "keep_sp": keep_sp, "result": sig(new)}


def density(coeffs, occ):
    return (coeffs * occ) @ coeffs.T


def case_unrestrict(case):
    from iodata.convert import convert_to_unrestricted

    rng = gb.rng_for(14, 2, case["seed"], case["i"])
    kind = str(rng.choice(["restricted", "unrestricted", "generalized"], p=[0.8, 0.1, 0.1]))
    occ_class = str(rng.choice(go.OCC_CLASSES))
    norb = int(rng.integers(0 if occ_class in ("none", "empty") else 1, 7))
    nbasis = max(norb, 1) + int(rng.integers(0, 3))
    mask = rng.integers(0, 2, size=3).astype(bool)
    mo = go.random_mo(rng, kind, nbasis, norb, None, occ_class, with_energies=bool(mask[0]), with_irreps=bool(mask[1]),
                      with_coeffs=bool(mask[2]))
    viols = []
    feats = [f"unrestrict:{kind}:{occ_class}:E{int(mask[0])}I{int(mask[1])}C{int(mask[2])}"]
    counters = {"convert_to_unrestricted_calls": 1}
    sample = {"kind": kind, "occ_class": occ_class, "norb": norb,
              "occs": None if mo.occs is None else mo.occs.tolist(),
              "occs_aminusb": None if mo.occs_aminusb is None else mo.occs_aminusb.tolist()}
    before = snap.canon(mo)
    if kind == "generalized":
        try:
            convert_to_unrestricted(mo)
            viols.append(_v("unrestricted-generalized-accepted", "generalized orbitals were converted"))
        except Exception:
            pass  # "rejected": the statement does not prescribe the exception class
        return viols, feats, counters, sample
    new = convert_to_unrestricted(mo)
    if snap.diff(before, snap.canon(mo)):
        viols.append(_v("unrestricted-mutates", f"argument changed: {snap.diff(before, snap.canon(mo))[:2]}"))
    if kind == "unrestricted":
        if new is not mo:
            viols.append(_v("unrestricted-identity", "unrestricted input was not returned as is"))
        return viols, feats, counters, sample
    if new.kind != "unrestricted" or new.norba != norb or new.norbb != norb:
        viols.append(_v("unrestricted-kind", f"result kind={new.kind} norba={new.norba} norbb={new.norbb}"))
        return viols, feats, counters, sample
    # expected by the documented rules, independent of the properties of the class
    if mo.occs is not None:
        adm = go.admissible_spin_occupations(mo.occs, mo.occs_aminusb)
        ea, eb = adm[0]
        if new.occs is not None:
            for xa, xb in adm:
                if np.allclose(new.occsa, xa, rtol=1e-15, atol=1e-15) and np.allclose(new.occsb, xb, rtol=1e-15, atol=1e-15):
                    ea, eb = xa, xb
                    break
        if new.occs is None or not (np.allclose(new.occsa, ea, rtol=1e-15, atol=1e-15) and np.allclose(new.occsb, eb, rtol=1e-15, atol=1e-15)):
            viols.append(_v("unrestricted-occupations", f"alpha/beta occupations {None if new.occs is None else new.occs.tolist()} "
                            f"expected {ea.tolist()} / {eb.tolist()}"))
        else:
            if abs(new.nelec - mo.occs.sum()) > 1e-12:
                viols.append(_v("unrestricted-nelec", f"nelec {new.nelec} vs {mo.occs.sum()}"))
            want_spinpol = abs(ea.sum() - eb.sum())
            if abs(new.spinpol - want_spinpol) > 1e-12:
                viols.append(_v("unrestricted-spinpol", f"spinpol {new.spinpol} vs |na-nb| = {want_spinpol}"))
            if abs(mo.spinpol - new.spinpol) > 1e-12:
                key = "spinpol-sign-restricted" if abs(mo.spinpol + new.spinpol) < 1e-12 else "unrestricted-spinpol"
                viols.append(_v(key, f"spin polarisation changed by the conversion: {mo.spinpol} -> {new.spinpol}"))
            if mo.coeffs is not None and new.coeffs is not None and new.coeffs.shape == (nbasis, 2 * norb):
                dt0 = density(mo.coeffs, ea) + density(mo.coeffs, eb)
                ds0 = density(mo.coeffs, ea) - density(mo.coeffs, eb)
                dt1 = density(new.coeffs[:, :norb], new.occs[:norb]) + density(new.coeffs[:, norb:], new.occs[norb:])
                ds1 = density(new.coeffs[:, :norb], new.occs[:norb]) - density(new.coeffs[:, norb:], new.occs[norb:])
                if np.abs(dt0 - dt1).max() > 1e-13 * max(1.0, np.abs(dt0).max()) or np.abs(ds0 - ds1).max() > 1e-13 * max(1.0, np.abs(dt0).max()):
                    viols.append(_v("unrestricted-density", "total or spin density matrix changed"))
                counters["densities_compared"] = 2
    elif new.occs is not None:
        viols.append(_v("unrestricted-occupations", "occupations invented"))
    for name in ("coeffs", "energies", "irreps"):
        old = getattr(mo, name)
        a = getattr(new, name + "a")
        b = getattr(new, name + "b")
        if old is None:
            if a is not None or b is not None:
                viols.append(_v("unrestricted-optional", f"{name} invented"))
            continue
        if a is None or b is None or not (np.array_equal(a, old) and np.array_equal(b, old)):
            viols.append(_v("unrestricted-arrays", f"alpha/beta {name} differ from the restricted {name}"))
    if new.occs_aminusb is not None:
        viols.append(_v("unrestricted-aminusb", "occs_aminusb set on unrestricted result"))
    again = convert_to_unrestricted(new)
    if again is not new:
        viols.append(_v("unrestricted-idempotent", "second conversion does not return the same object"))
    for v in viols:
        v.update(sample)
    return viols, feats, counters, sample


def case_prepare(case):
    from iodata import IOData
    from iodata.prepare import prepare_segmented, prepare_unrestricted_aminusb
    from iodata.utils import PrepareDumpError, PrepareDumpWarning

    rng = gb.rng_for(14, 3, case["seed"], case["i"])
    allow = bool(rng.integers(0, 2))
    viols = []
    counters = {"prepare_calls": 0}
    which = "segmented" if case["i"] % 2 == 0 else "aminusb"
    if which == "segmented":
        keep_sp = bool(rng.integers(0, 2))
        basis = random_mixed_basis(rng) if rng.random() < 0.85 else None
        data = IOData(obasis=basis, atnums=[1, 1, 1], atcoords=gb.random_geometry(rng, 3))
        needs = basis is not None and any(not (sh.ncon == 1 or (keep_sp and is_sp(sh))) for sh in basis.shells)
        tag = f"prepare_segmented:{'none' if basis is None else ('needs' if needs else 'ok')}:allow={allow}:keep_sp={keep_sp}"
        fn = lambda: prepare_segmented(data, keep_sp, allow, "file.ext", "FMT")
        expect_valueerror = basis is None
    else:
        kind = str(rng.choice(["restricted", "unrestricted", "generalized", "none"], p=[0.6, 0.15, 0.15, 0.1]))
        occ_class = str(rng.choice(go.OCC_CLASSES))
        mo = None if kind == "none" else go.random_mo(rng, kind, 5, int(rng.integers(1, 5)), None, occ_class)
        data = IOData(mo=mo)
        needs = kind == "restricted" and mo.occs_aminusb is not None
        tag = f"prepare_aminusb:{kind}:{occ_class if kind == 'restricted' else '-'}:allow={allow}"
        fn = lambda: prepare_unrestricted_aminusb(data, allow, "file.ext", "FMT")
        expect_valueerror = kind in ("none", "generalized")
    before = snap.canon(data)
    counters["prepare_calls"] += 1
    with warnings.catch_warnings(record=True) as wlist:
        warnings.simplefilter("always")
        try:
            res = fn()
            exc = None
        except Exception as e:
            res, exc = None, e
    wcats = [w.category for w in wlist]
    if snap.diff(before, snap.canon(data)):
        viols.append(_v("prepare-mutates", f"{tag}: argument changed {snap.diff(before, snap.canon(data))[:2]}"))
    if expect_valueerror:
        if exc is None:  # "rejected": any exception class
            viols.append(_v("prepare-rejection", f"{tag}: expected a rejection, got a result"))
    elif not needs:
        if exc is not None or res is not data:
            viols.append(_v("prepare-identity", f"{tag}: nothing to convert, but result is {'exception ' + repr(exc) if exc else 'another object'}"))
        if wcats:
            viols.append(_v("prepare-warning", f"{tag}: warning although nothing was converted"))
    elif not allow:
        if not isinstance(exc, PrepareDumpError):
            viols.append(_v("prepare-error", f"{tag}: conversion needed and not allowed, expected PrepareDumpError, got "
                            f"{type(exc).__name__ if exc else 'a result'}"))
        elif "file.ext" not in str(exc):
            # observation only: the statement of C14 says nothing about the wording of the message
            counters["observed_message_without_file"] = counters.get("observed_message_without_file", 0) + 1
    else:
        if exc is not None:
            viols.append(_v("prepare-error", f"{tag}: conversion allowed but raised {exc!r}"))
        else:
            if not any(issubclass(c, PrepareDumpWarning) for c in wcats):
                viols.append(_v("prepare-warning", f"{tag}: conversion not announced by a PrepareDumpWarning"))
            if res is data:
                viols.append(_v("prepare-identity", f"{tag}: converted in place"))
            if which == "segmented":
                from iodata.convert import convert_to_segmented

                if snap.diff(snap.canon(res.obasis), snap.canon(convert_to_segmented(data.obasis, keep_sp))):
                    viols.append(_v("prepare-result", f"{tag}: result differs from convert_to_segmented"))
                pts = rng.normal(size=(5, 3))
                if res.obasis.nbasis != data.obasis.nbasis or np.abs(
                        gto.eval_basis(res.obasis, data.atcoords, pts) - gto.eval_basis(data.obasis, data.atcoords, pts)).max() > 1e-13:
                    viols.append(_v("prepare-result", f"{tag}: basis functions changed"))
            else:
                adm = go.admissible_spin_occupations(data.mo.occs, data.mo.occs_aminusb)
                if res.mo.kind != "unrestricted" or not any(np.allclose(res.mo.occsa, ea, atol=1e-15) and np.allclose(res.mo.occsb, eb, atol=1e-15)
                                                               for ea, eb in adm):
                    viols.append(_v("prepare-result", f"{tag}: orbitals not converted to the documented alpha/beta occupations"))
            # other attributes of the shallow copy are the very same objects
            for name in ("atcoords", "atnums"):
                if getattr(data, name) is not None and getattr(res, name) is not getattr(data, name):
                    viols.append(_v("prepare-result", f"{tag}: attribute {name} copied or changed"))
    return viols, [tag], counters, {"call": tag}


def run_case(case):
    fn = {"segment": case_segment, "unrestrict": case_unrestrict, "prepare": case_prepare}[case["kind"]]
    viols, feats, counters, sample = fn(case)
    return {"status": "violation" if viols else "ok", "violations": viols[:8], "features": feats, "counters": counters, "sample": sample}
