"""C06 - overlap matrices are the exact inner products of the documented functions.

The real iodata.overlap.compute_overlap (and its 1-D kernel and Cartesian-to-pure tables) is run on
enumerated and random basis sets; every returned matrix element is compared with R.gto.overlap_exact
(Gauss-Hermite quadrature of the documented functions, independent of iodata) under a conditioning bound.
"""

import itertools
import math

import numpy as np

from ..gen import basis as gb
from ..ref import gto

PROPERTY = "C06"
LEVEL = "exploration"
RULE = (
    "(a) every ordered pair of shell types (l0,kind0)x(l1,kind1), Cartesian l=0..L and pure l=2..L (L=4 quick, 7 thorough) x 4 "
    "geometries x 3 exponent pairs, one- and two-basis calls [exhaustive]; (b) random bases (1-5 centres incl. coincident, 1-6 "
    "primitives in any order, exponents 1e-2..1e5, generalized contractions, random conventions with sign flips); (c) rejection of unsupported "
    "input; (d) every entry of the Cartesian-to-pure tables l<=7 [exhaustive]; (e) the 1-D kernel for all n1,n2<=7 on random real "
    "arguments vs mpmath / Gauss-Hermite and once on sympy symbols. distinct = distinct (part, shell-type pair / shell-type set, "
    "geometry class); non-trivial = at least one matrix element above 1e-12 compared."
)
EXHAUSTIVE = ["shell-type pairs up to L", "entries of overlap_cartpure.tfs[0..7]", "kernels (n1,n2) <= 7"]
ASSUMPTIONS = ["R.gto (self-tested each run: normalisation, orthonormal harmonics, agreement with 3-D quadrature)",
               "mpmath / sympy for the 1-D kernel reference"]
TIMEOUT = {"quick": 900, "thorough": 5400}
EPS = np.finfo(float).eps
# Conditioning factor: |S - S_R| <= TOLF * eps * A_ij.  A_ij is the absolute sum of the contributions in R's quadrature; the
# binomial expansion used by compute_overlap cancels more strongly for distant centres / high l / large exponents, and errors
# up to ~1.1e3 * eps * A were observed on the unchanged tree (thorough tier), so 1e3 was too tight (see DESIGN.md section 7).
TOLF = 1e5


def selftest():
    return gto.selftest(7)


def shell_types(L):
    out = [(l, "c") for l in range(L + 1)] + [(l, "p") for l in range(2, L + 1)]
    return out


GEOMS = ["coincident", "near", "far", "screened"]
EXPPAIRS = [(0.9, 0.9), (0.05, 12.0), (350.0, 2.5)]


def plan(tier, seed):
    L = 4 if tier == "quick" else 7
    cases = []
    for t0, t1 in itertools.product(shell_types(L), repeat=2):
        cases.append({"kind": "pair", "t0": list(t0), "t1": list(t1)})
    for i in range(40 if tier == "quick" else 1500):
        cases.append({"kind": "random", "seed": seed, "i": i})
    cases.append({"kind": "reject"})
    for l in range(8):
        cases.append({"kind": "tfs", "l": l})
    for n1 in range(8):
        cases.append({"kind": "kernel", "n1": n1, "seed": seed, "nargs": 12 if tier == "quick" else 200,
                      "nmp": 3 if tier == "quick" else 25})
    cases.append({"kind": "kernel_symbolic", "nmax": 4 if tier == "quick" else 7})
    return cases


def _v(key, msg, **kw):
    d = {"key": key, "msg": msg}
    d.update(kw)
    return d


def compare(S, R, A, T, tag):
    """Element-wise comparison under the conditioning + screening bound."""
    S = np.asarray(S, dtype=float)
    if S.shape != R.shape:
        return [_v("overlap-shape", f"{tag}: shape {S.shape} expected {R.shape}")], 0
    if not np.isfinite(S).all():
        return [_v("overlap-value", f"{tag}: non-finite entries")], 0
    tol = TOLF * EPS * A + 1e-14 + T
    bad = np.abs(S - R) > tol
    viols = []
    if bad.any():
        i, j = np.argwhere(bad)[0]
        viols.append(_v("overlap-value", f"{tag}: element ({i},{j}) = {S[i, j]!r}, exact inner product = {R[i, j]!r}, "
                        f"|diff| = {abs(S[i, j] - R[i, j]):.3e} > bound {tol[i, j]:.3e}; {int(bad.sum())} of {bad.size} elements differ"))
    return viols, int((np.abs(R) > 1e-12).sum())


def describe(shells):
    return [[int(sh.icenter), sh.angmoms.tolist(), sh.kinds.tolist(), [float(f"{e:.6g}") for e in sh.exponents]] for sh in shells]


def case_pair(case):
    from iodata.overlap import compute_overlap

    (l0, k0), (l1, k1) = case["t0"], case["t1"]
    viols, feats = [], []
    ncmp = ncall = 0
    conv = gto.default_conventions(9)
    rng = gb.rng_for(6, l0, ord(k0), l1, ord(k1))
    for geom, order in itertools.product(GEOMS, ("desc", "asc")):
        for a, b in EXPPAIRS:
            if geom == "coincident":
                xyz = np.array([[0.1, -0.2, 0.3], [0.1, -0.2, 0.3]])
            elif geom == "near":
                xyz = np.array([[0.1, -0.2, 0.3], [0.9, 0.5, -0.4]])
            elif geom == "far":
                xyz = np.array([[0.1, -0.2, 0.3], [3.1, -2.5, 2.2]])
            else:  # far enough that (some) primitive pairs fall below the screening threshold
                mu = a * b / (a + b)
                d = math.sqrt(36.0 / mu)
                xyz = np.array([[0.0, 0.0, 0.0], [d * 0.6, -d * 0.64, d * 0.48]])
            # primitives listed in decreasing and in increasing exponent order (the statement fixes no order)
            if order == "desc":
                sh0 = gb.make_shell(0, [l0], [k0], [a, a * 0.31], [[0.7], [0.4]])
            else:
                sh0 = gb.make_shell(0, [l0], [k0], [a * 0.31, a], [[0.4], [0.7]])
            sh1 = gb.make_shell(1, [l1], [k1], [b], [[1.0]])
            # one basis (both shells) ...
            basis = gb.make_basis([sh0, sh1], conv)
            S = compute_overlap(basis, xyz)
            R, A, T = gto.overlap_exact(basis, xyz, with_bound=True)
            v, n = compare(S, R, A, T, f"one-basis {l0}{k0}|{l1}{k1} {geom} primitives {order} exps=({a},{b})")
            viols += v
            ncmp += S.size
            ncall += 1
            if (np.abs(S - S.T) > TOLF * EPS * A + 1e-14).any():
                viols.append(_v("overlap-symmetry", f"one-basis {l0}{k0}|{l1}{k1} {geom}: asymmetric by {np.abs(S - S.T).max():.2e}"))
            # ... and the two-basis call on different geometries
            b0 = gb.make_basis([sh0], conv)
            b1 = gb.make_basis([gb.make_shell(0, [l1], [k1], [b], [[1.0]])], conv)
            S01 = compute_overlap(b0, xyz[:1], b1, xyz[1:])
            R01, A01, T01 = gto.overlap_exact(b0, xyz[:1], b1, xyz[1:], with_bound=True)
            v, n2 = compare(S01, R01, A01, T01, f"two-basis {l0}{k0}|{l1}{k1} {geom} primitives {order} exps=({a},{b})")
            viols += v
            ncmp += S01.size
            ncall += 1
            S10 = compute_overlap(b1, xyz[1:], b0, xyz[:1])
            ncall += 1
            if np.abs(S10 - S01.T).max() > TOLF * EPS * A01.max() + 1e-14 + T01.max():
                viols.append(_v("overlap-transpose", f"two-basis {l0}{k0}|{l1}{k1} {geom}: exchanging the bases does not transpose"))
            if n + n2 > 0:
                feats.append(f"pair:{l0}{k0}|{l1}{k1}:{geom}:{order}")
    return viols, feats, {"compute_overlap_calls": ncall, "elements_compared": ncmp}, {
        "pair": f"{l0}{k0}|{l1}{k1}", "geometries": GEOMS, "exponent_pairs": EXPPAIRS}


def case_random(case):
    from iodata.overlap import compute_overlap

    rng = gb.rng_for(6, 1, case["seed"], case["i"])
    natom = int(rng.integers(1, 6))
    xyz = gb.random_geometry(rng, natom, spread=1.8, mindist=0.0)
    if natom > 1 and rng.random() < 0.4:
        xyz[-1] = xyz[0]  # coincident centres
    lmax = int(rng.choice([2, 3, 4, 5, 7], p=[0.3, 0.3, 0.2, 0.1, 0.1]))
    shells = []
    budget = 70 if lmax <= 4 else 110
    while True:
        contraction = str(rng.choice(["segmented", "sp", "generalized"], p=[0.55, 0.15, 0.3]))
        sh = gb.random_shell(rng, int(rng.integers(0, natom)), lmax=lmax, contraction=contraction,
                             nprim=int(rng.integers(1, 7)), exp_range=(1e-2, 1e5))
        if rng.random() < 0.5:
            sh = gb.shuffle_primitives(rng, sh)
        if sum(s.nbasis for s in shells) + sh.nbasis > budget:
            if shells:
                break
            continue
        shells.append(sh)
        if len(shells) >= int(rng.integers(1, 9)):
            break
    if rng.random() < 0.3:
        shells = [gb.relayout_shell(rng, sh) for sh in shells]  # same shells, arrays in other memory layouts
        xyz = np.asfortranarray(xyz)
    keys = gb.keys_of(shells)
    conv = gb.random_conventions(rng, keys)
    basis = gb.make_basis(shells, conv)
    viols = []
    S = compute_overlap(basis, xyz)
    R, A, T = gto.overlap_exact(basis, xyz, with_bound=True)
    v, n = compare(S, R, A, T, "random one-basis")
    viols += v
    ncall, ncmp = 1, S.size
    if (np.abs(S - S.T) > TOLF * EPS * A + 1e-14).any():
        viols.append(_v("overlap-symmetry", f"random basis: asymmetric by {np.abs(S - S.T).max():.2e}"))
    w = np.linalg.eigvalsh((S + S.T) / 2)
    if w.min() < -(1e-10 * max(w.max(), 1.0) + len(w) * T.max()):
        viols.append(_v("overlap-psd", f"random basis: smallest eigenvalue {w.min():.3e} (largest {w.max():.3e})"))
    # translation invariance
    shift = rng.normal(scale=5.0, size=3)
    S2 = compute_overlap(basis, xyz + shift)
    ncall += 1
    # the shifted coordinates are rounded and r_P - r_A is formed from larger numbers: the achievable accuracy degrades by
    # about |r|_max * sqrt(alpha_max) (sensitivity of a Gaussian product to a displacement of its centres)
    amax = max(float(sh.exponents.max()) for sh in shells)
    degr = 1.0 + float(np.abs(xyz + shift).max()) * np.sqrt(amax)
    if (np.abs(S2 - S) > 2 * TOLF * EPS * A * degr + 2e-14 + 2 * T).any():
        viols.append(_v("overlap-translation", f"translation by {shift} changes the matrix by {np.abs(S2 - S).max():.2e}"))
    # other conventions: rows and columns permuted and sign-flipped by the label law
    conv2 = gb.random_conventions(rng, keys)
    S3 = compute_overlap(gb.make_basis(shells, conv2), xyz)
    ncall += 1
    from .c10 import expected_perm

    skeys = [(int(l), str(k)) for sh in shells for l, k in zip(sh.angmoms, sh.kinds)]
    perm, signs = expected_perm(skeys, conv, conv2)
    want = S[perm][:, perm] * np.outer(signs, signs)
    if (np.abs(S3 - want) > 1e-13 * A[perm][:, perm] + 1e-15).any():
        viols.append(_v("overlap-conventions", "changing conventions does not permute/sign-flip rows and columns accordingly"))
    # two-basis call against a second random basis, and its transpose
    natom2 = int(rng.integers(1, 4))
    xyz2 = gb.random_geometry(rng, natom2, spread=1.8, mindist=0.0) + rng.normal(scale=0.7, size=3)
    shells2 = [gb.random_shell(rng, int(rng.integers(0, natom2)), lmax=min(lmax, 5),
                               contraction=str(rng.choice(["segmented", "generalized"])), nprim=int(rng.integers(1, 5)),
                               exp_range=(1e-2, 1e4)) for _ in range(int(rng.integers(1, 4)))]
    shells2 = [gb.shuffle_primitives(rng, sh) if rng.random() < 0.5 else sh for sh in shells2]
    conv_b = gb.random_conventions(rng, gb.keys_of(shells2))
    basis2 = gb.make_basis(shells2, conv_b)
    S01 = compute_overlap(basis, xyz, basis2, xyz2)
    R01, A01, T01 = gto.overlap_exact(basis, xyz, basis2, xyz2, with_bound=True)
    v, n2 = compare(S01, R01, A01, T01, "random two-basis")
    viols += v
    S10 = compute_overlap(basis2, xyz2, basis, xyz)
    ncall += 2
    ncmp += S01.size
    if (np.abs(S10.T - S01) > 2 * TOLF * EPS * A01 + 2e-14 + 2 * T01).any():
        viols.append(_v("overlap-transpose", "random two-basis: exchanging the bases does not transpose the matrix"))
    # the SAME basis object for both arguments at two geometries (displaced / distorted copies of one molecule), and with the same
    # geometry (must equal the one-basis matrix)
    xyz_b = xyz + rng.normal(scale=0.4, size=xyz.shape)
    Ssame = compute_overlap(basis, xyz, basis, xyz_b)
    Rs, As, Ts = gto.overlap_exact(basis, xyz, basis, xyz_b, with_bound=True)
    v, n3 = compare(Ssame, Rs, As, Ts, "same basis object at two geometries")
    viols += v
    Sback = compute_overlap(basis, xyz_b, basis, xyz)
    if (np.abs(Sback.T - Ssame) > 2 * TOLF * EPS * As + 2e-14 + 2 * Ts).any():
        viols.append(_v("overlap-transpose", "same basis object at two geometries: exchanging the geometries does not transpose the matrix"))
    Sdiag = compute_overlap(basis, xyz, basis, xyz)
    v, _n = compare(Sdiag, R, A, T, "same basis object, same geometry, two-basis call")
    viols += v
    ncall += 3
    ncmp += 2 * Ssame.size
    # centres on integer lattice points given as an integer array (np.indices grids, coordinates typed without decimal points)
    xyz_i = np.rint(xyz * 1.5).astype(int)
    Si = compute_overlap(basis, xyz_i)
    Ri, Ai, Ti = gto.overlap_exact(basis, xyz_i.astype(float), with_bound=True)
    v, _n = compare(Si, Ri, Ai, Ti, "integer-typed coordinates")
    viols += v
    ncall += 1
    ncmp += Si.size
    for x in viols:
        x["shells"] = describe(shells)
        x["atcoords"] = xyz.tolist()
        x["conventions"] = {f"{l}{k}": val for (l, k), val in conv.items()}
    feats = []
    if n + n2 > 0:
        feats.append("random:" + ",".join(f"{l}{k}" for l, k in keys) + f":natom={natom}:gen={max(s.ncon for s in shells)}")
    return viols, feats, {"compute_overlap_calls": ncall, "elements_compared": ncmp}, {
        "shells": describe(shells)[:4], "natom": natom, "nbasis": int(basis.nbasis)}


def case_reject(case):
    from iodata.basis import MolecularBasis
    from iodata.overlap import compute_overlap

    conv = gto.default_conventions(4)
    sh = gb.make_shell(0, [1], ["c"], [1.0], [[1.0]])
    good = gb.make_basis([sh], conv)
    l1 = MolecularBasis([sh], conv, "L1")
    xyz = np.zeros((1, 3))
    viols = []
    tests = [
        ("L1 first basis", lambda: compute_overlap(l1, xyz)),
        ("L1 second basis", lambda: compute_overlap(good, xyz, l1, xyz)),
        ("L1 first basis with an L2 second basis", lambda: compute_overlap(l1, xyz, good, xyz)),
        ("L1 first basis with an L2 second basis on another geometry", lambda: compute_overlap(l1, xyz, good, xyz + 0.7)),
        ("both bases L1", lambda: compute_overlap(l1, xyz, l1, xyz)),
        ("second basis without second geometry", lambda: compute_overlap(good, xyz, good, None)),
        ("second geometry without second basis", lambda: compute_overlap(good, xyz, None, xyz)),
    ]
    nrej = 0
    for name, fn in tests:
        try:
            res = fn()
        except (ValueError, TypeError):
            nrej += 1
            continue
        except Exception as exc:
            nrej += 1  # rejected, if with an unexpected type; the statement only says "rejected"
            continue
        viols.append(_v("overlap-unsupported-accepted", f"{name}: accepted, returned array of shape {np.shape(res)}"))
    return viols, ["reject:L1", "reject:geometry"], {"rejections": nrej, "compute_overlap_calls": len(tests)}, {"tests": [t[0] for t in tests]}


def case_tfs(case):
    from iodata.overlap_cartpure import tfs

    l = case["l"]
    tf = np.asarray(tfs[l])
    # HORTON2 order: Cartesian alphabetical, pure c0 c1 s1 c2 s2 ...
    carts = [(nx, ny, l - nx - ny) for nx in range(l, -1, -1) for ny in range(l - nx, -1, -1)]
    pures = [(0, False)] + [x for m in range(1, l + 1) for x in ((m, False), (m, True))]
    viols = []
    if tf.shape != (len(pures), len(carts)):
        return [_v("tfs-entry", f"tfs[{l}] has shape {tf.shape}, expected {(len(pures), len(carts))}")], [], {}, {}
    nent = 0
    for ip, (m, sine) in enumerate(pures):
        poly = gto.solid_harmonic(l, m, sine)
        for ic, n in enumerate(carts):
            ratio = math.sqrt(gto.dfact(2 * n[0] - 1) * gto.dfact(2 * n[1] - 1) * gto.dfact(2 * n[2] - 1) / gto.dfact(2 * l - 1))
            want = poly.get(n, 0.0) * ratio
            nent += 1
            if abs(tf[ip, ic] - want) > 4 * EPS * max(1.0, abs(want)):
                viols.append(_v("tfs-entry", f"tfs[{l}][{ip},{ic}] ({'s' if sine else 'c'}{m} <- {n}) = {tf[ip, ic]!r}, "
                                f"solid-harmonic coefficient x norm ratio = {want!r}"))
    return viols, [f"tfs:l={l}"], {"tfs_entries_compared": nent}, {"l": l, "shape": list(tf.shape)}


def _kernel_ref_gh(x1, x2, n1, n2, two_at):
    a = two_at / 2
    t, w = np.polynomial.hermite.hermgauss(24)
    t = t / math.sqrt(a)
    vals = (t + x1) ** n1 * (t + x2) ** n2
    return float((w * vals).sum() / math.sqrt(math.pi)), float((w * np.abs(vals)).sum() / math.sqrt(math.pi))


def case_kernel(case):
    import mpmath

    from iodata.overlap import GaussianOverlap

    go = GaussianOverlap(7)
    n1 = case["n1"]
    rng = gb.rng_for(6, 5, case["seed"], n1)
    viols = []
    ncmp = nmp = 0
    for n2 in range(8):
        for k in range(case["nargs"]):
            x1, x2 = rng.normal(scale=2.0, size=2)
            a = float(10 ** rng.uniform(-2, 4))
            got = go.compute_overlap_gaussian_1d(x1, x2, n1, n2, 2 * a)
            ref, refabs = _kernel_ref_gh(x1, x2, n1, n2, 2 * a)
            ncmp += 1
            if abs(got - ref) > TOLF * EPS * refabs + 1e-300:
                viols.append(_v("kernel-value", f"kernel n1={n1} n2={n2} x1={x1!r} x2={x2!r} a={a!r}: {got!r} vs quadrature {ref!r}"))
            if k < case["nmp"]:
                mpmath.mp.dps = 40
                f = lambda t: (t + mpmath.mpf(x1)) ** n1 * (t + mpmath.mpf(x2)) ** n2 * mpmath.exp(-mpmath.mpf(a) * t * t)
                s = 8 / math.sqrt(a)
                val = mpmath.quad(f, [-s, -s / 4, 0, s / 4, s]) / mpmath.sqrt(mpmath.pi / mpmath.mpf(a))
                nmp += 1
                if abs(got - float(val)) > TOLF * EPS * refabs + 1e-300:
                    viols.append(_v("kernel-value", f"kernel n1={n1} n2={n2} x1={x1!r} x2={x2!r} a={a!r}: {got!r} vs mpmath {float(val)!r}"))
    return viols, [f"kernel:n1={n1}"], {"kernel_calls": ncmp, "kernel_mpmath_refs": nmp}, {"n1": n1, "n2": "0..7", "args_per_kernel": case["nargs"]}


def case_kernel_symbolic(case):
    import sympy as sp

    from iodata.overlap import GaussianOverlap

    go = GaussianOverlap(7)
    x1, x2, t = sp.symbols("x1 x2 t", real=True)
    a = sp.symbols("a", positive=True)
    viols, feats = [], []
    nsym = nsampled = 0
    moments = {}
    for m in range(0, 2 * case["nmax"] + 1):
        moments[m] = sp.simplify(sp.integrate(t**m * sp.exp(-a * t**2), (t, -sp.oo, sp.oo)) / sp.sqrt(sp.pi / a))
    for n1 in range(case["nmax"] + 1):
        for n2 in range(case["nmax"] + 1):
            expr = go.compute_overlap_gaussian_1d(x1, x2, n1, n2, 2 * a)
            expr = sp.nsimplify(sp.sympify(expr), rational=True)
            poly = sp.Poly(sp.expand((t + x1) ** n1 * (t + x2) ** n2), t)
            want = sum(c * moments[m] for (m,), c in poly.terms())
            diff = sp.simplify(sp.expand(expr - want))
            if diff == 0:
                nsym += 1
                feats.append(f"symbolic:{n1},{n2}")
            else:
                # could not be shown symbolically: decide numerically on a few points, report as sampled only
                ok = True
                for vals in [(0.3, -1.2, 0.7), (2.0, 0.5, 13.0), (-1.1, 1.9, 0.02)]:
                    d = complex(diff.subs({x1: vals[0], x2: vals[1], a: vals[2]}).evalf(30))
                    ref = complex(want.subs({x1: vals[0], x2: vals[1], a: vals[2]}).evalf(30))
                    if abs(d) > 1e-20 * max(1.0, abs(ref)):
                        ok = False
                if ok:
                    nsampled += 1
                else:
                    viols.append(_v("kernel-symbolic", f"kernel ({n1},{n2}) on symbols differs from the Gaussian-moment integral: {diff}"))
    return viols, feats, {"kernels_symbolic_identical": nsym, "kernels_sampled_only": nsampled}, {"nmax": case["nmax"], "symbolic_identical": nsym}


def run_case(case):
    kind = case["kind"]
    fn = {"pair": case_pair, "random": case_random, "reject": case_reject, "tfs": case_tfs, "kernel": case_kernel,
          "kernel_symbolic": case_kernel_symbolic}[kind]
    viols, feats, counters, sample = fn(case)
    return {"status": "violation" if viols else "ok", "violations": viols[:10], "features": feats, "counters": counters, "sample": sample}
