"""C12 - orbital and shell objects keep their derived quantities consistent.

Bounded-exhaustive assignment histories on real MolecularOrbitals objects (all kinds, orbital counts 0..6,
occupation patterns) with an invariant monitor after every step; exhaustive small Shell constructions incl.
illegal kinds and every shape mismatch.
"""

import itertools

import numpy as np

from ..gen.basis import rng_for

PROPERTY = "C12"
LEVEL = "exploration"
RULE = (
    "MolecularOrbitals: configurations = kind x (norba, norbb) in 0..6 x initial occupation pattern; histories = all sequences "
    "up to depth 2 over the full assignment alphabet (occs, occsa, occsb, occs_aminusb, coeffs, energies, irreps with valid, None, "
    "wrong-length and length-1 values) and depth 3 over the occupation alphabet (quick); depth 3 full / depth 4 occupations "
    "(thorough); invariants evaluated after every step. Shell: all constructions with 1..4 contractions, l in 0..9, kinds c/p/other, "
    "and every single shape mismatch. distinct = distinct (configuration, history) / distinct shell constructions; non-trivial = at "
    "least one assignment succeeded or one rejection was observed."
)
EXHAUSTIVE = ["histories to the stated depth per configuration", "Shell shape-mismatch matrix"]
ASSUMPTIONS = ["documented alpha/beta rules of the MolecularOrbitals docstring re-implemented independently"]
TIMEOUT = {"quick": 900, "thorough": 7200}


def configs():
    out = []
    for n in range(0, 7):
        for pat in ("none", "closed", "rohf", "nearint", "fractional", "aminusb", "aminusb_neg"):
            out.append(("restricted", n, n, pat))
    for na in range(0, 7):
        for nb in sorted({0, max(na - 1, 0), na, min(na + 2, 6)}):
            for pat in ("none", "integer", "fractional"):
                out.append(("unrestricted", na, nb, pat))
    for n in range(0, 7):
        for pat in ("none", "integer"):
            out.append(("generalized", n, None, pat))
    return out


CONFIGS = configs()


def initial(kind, na, nb, pat):
    """Constructor keyword arguments for a configuration."""
    norb = na if kind != "unrestricted" else na + nb
    occs = aminusb = None
    if pat == "closed":
        occs = np.where(np.arange(norb) < (norb + 1) // 2, 2.0, 0.0)
    elif pat == "rohf":
        occs = np.array(([2.0, 1.0, 1.0, 0.0, 0.0, 0.0, 0.0])[:norb]) if norb else np.zeros(0)
    elif pat == "nearint":
        # integer occupations up to numerical noise (natural-orbital occupations of a nearly single-determinant state)
        occs = np.array(([2.0, 1.0 + 1e-9, 1.0 - 3e-10, 1e-9, 0.0, 0.0, 0.0])[:norb]) if norb else np.zeros(0)
    elif pat == "fractional":
        occs = np.array([0.9, 0.6, 0.3, 0.15, 0.05, 0.02, 0.01, 0.7, 0.4, 0.2, 0.1, 0.03, 0.0][:norb]) * (2 if kind == "restricted" else 1)
    elif pat in ("aminusb", "aminusb_neg"):
        occs = np.array([2.0, 1.6, 1.0, 0.4, 0.2, 0.0, 0.0][:norb])
        aminusb = np.array([0.0, 0.2, 0.8, 0.4, -0.1, 0.0, 0.0][:norb]) * (-1 if pat == "aminusb_neg" else 1)
    elif pat == "integer":
        occs = np.where(np.arange(norb) % 2 == 0, 1.0, 0.0)
    nbasis = 3
    nrow = nbasis * (2 if kind == "generalized" else 1)
    coeffs = np.arange(nrow * norb, dtype=float).reshape(nrow, norb) + 1.0
    energies = np.arange(norb, dtype=float) - 2.0
    irreps = np.array([f"i{k}" for k in range(norb)])
    return {"kind": kind, "norba": na if kind != "generalized" else None, "norbb": nb if kind != "generalized" else None,
            "occs": occs, "coeffs": coeffs, "energies": energies, "irreps": irreps, "occs_aminusb": aminusb}


def alphabet(kind, na, nb, full):
    """Assignment symbols (attribute, tag) for a configuration; values are materialised by `value`."""
    ops = [("occs", "none"), ("occs", "int"), ("occs", "frac"), ("occs", "nearint"), ("occs", "long"), ("occsa", "int"), ("occsa", "frac"), ("occsa", "half"), ("occsa", "long"),
           ("occsa", "one"), ("occsb", "int"), ("occsb", "frac"), ("occsb", "half"), ("occsb", "long"), ("occsb", "one"),
           ("occs_aminusb", "none"), ("occs_aminusb", "valid"), ("occs_aminusb", "long")]
    if full:
        ops += [("coeffs", "none"), ("coeffs", "valid"), ("coeffs", "long"), ("energies", "none"), ("energies", "valid"), ("energies", "long"),
                ("irreps", "none"), ("irreps", "valid"), ("irreps", "long"), ("kind", "restricted"), ("kind", "unrestricted"),
                ("kind", "generalized"), ("kind", "bogus"), ("norba", "plus1"), ("norbb", "plus1"), ("norba", "none")]
    return ops


def value(kind, na, nb, attr, tag, mo):
    norb = mo.norb if mo.norb is not None else 0
    if attr in ("occs", "occs_aminusb", "energies", "irreps"):
        n = norb
    elif attr == "occsa":
        n = na if kind != "generalized" else norb
    elif attr == "occsb":
        n = nb if kind != "generalized" else norb
    else:
        n = norb
    if tag == "none":
        return None
    if attr == "coeffs":
        rows = 3 * (2 if kind == "generalized" else 1)
        return np.ones((rows, n + (1 if tag == "long" else 0))) * 0.5
    if attr == "irreps":
        return np.array([f"j{k}" for k in range(n + (1 if tag == "long" else 0))])
    if attr == "kind":
        return tag
    if attr in ("norba", "norbb"):
        if tag == "none":
            return None
        cur = getattr(mo, attr)
        return (cur or 0) + 1
    if tag == "long":
        return np.linspace(0.1, 0.9, n + 1)
    if tag == "one":
        return np.array([0.75])
    if tag == "int":
        top = 2.0 if (attr == "occs" and kind == "restricted") else 1.0
        return np.where(np.arange(n) < (n + 1) // 2, top, 0.0)
    if tag == "nearint":
        top = 2.0 if (attr == "occs" and kind == "restricted") else 1.0
        base = np.where(np.arange(n) < (n + 1) // 2, top, 0.0)
        if n >= 2:
            base[(n + 1) // 2 - 1] = 1.0
        return base + np.where(np.arange(n) % 2 == 0, 1e-9, -2e-13) * (base > 0) + 1e-9 * (base == 0) * (np.arange(n) % 3 == 0)
    if tag == "half":
        # the same half-integer pattern for either spin: alpha = beta = [1, .5, .5, 0, ...] makes every spin-summed
        # occupation an integer although the orbitals are spin-unpolarised
        return np.array([1.0, 0.5, 0.5, 0.0, 0.0, 0.0, 0.0])[:n] if n else np.zeros(0)
    if tag == "frac":
        scale = 2.0 if (attr == "occs" and kind == "restricted") else 1.0
        return np.linspace(0.95, 0.05, n) * scale if n else np.zeros(0)
    if tag == "valid":
        if attr == "occs_aminusb":
            return np.linspace(0.3, -0.1, n) if n else np.zeros(0)
        return np.linspace(-1.0, 1.0, n) if n else np.zeros(0)
    raise ValueError((attr, tag))


def plan(tier, seed):
    cases = []
    for ic in range(len(CONFIGS)):
        if tier == "quick":
            cases.append({"kind": "mo", "config": ic, "full": True, "depth": 2})
            cases.append({"kind": "mo", "config": ic, "full": False, "depth": 3})
        else:
            cases.append({"kind": "mo", "config": ic, "full": True, "depth": 3})
            cases.append({"kind": "mo", "config": ic, "full": False, "depth": 4})
    cases.append({"kind": "mo_ctor"})
    for ncon in (1, 2, 3, 4):
        cases.append({"kind": "shell", "ncon": ncon, "seed": seed, "n": 300 if tier == "quick" else 5000})
    cases.append({"kind": "shell_shapes"})
    return cases


class Violation(Exception):
    def __init__(self, key, msg):
        super().__init__(msg)
        self.key = key


def documented_ab(occs, aminusb):
    """Admissible (alpha, beta) splittings.  The documentation says "integer occupations" -> high-spin splitting, otherwise
    halves; for values that are integers only up to noise (< 1e-6) it does not say which, so both are admitted there (the
    statement's own clauses - sum, electron count, spin polarisation - are checked in every case)."""
    if aminusb is not None:
        return [((occs + aminusb) / 2, (occs - aminusb) / 2)]
    a = np.clip(occs, 0, 1)
    if (occs == np.round(occs)).all():
        return [(a, occs - a)]
    if (np.abs(occs - np.round(occs)) < 1e-6).all():
        return [(a, occs - a), (occs / 2, occs / 2)]
    return [(occs / 2, occs / 2)]


def _raises(fn):
    try:
        fn()
    except Exception as exc:
        return type(exc).__name__
    return None


def close(a, b, tol=1e-12):
    a = np.asarray(a, dtype=float)
    b = np.asarray(b, dtype=float)
    return a.shape == b.shape and (a.size == 0 or np.abs(a - b).max() <= tol)


def check_mo(mo, stats):
    """Invariants on the current state of a MolecularOrbitals object (public observables only)."""
    kind = mo.kind
    if kind == "generalized":
        stats["inv_generalized"] += 1
        for name in ("occsa", "occsb", "coeffsa", "coeffsb", "energiesa", "energiesb", "irrepsa", "irrepsb", "spinpol"):
            r = _raises(lambda name=name: getattr(mo, name))
            if r is None:
                raise Violation("generalized-spin-access", f"generalized orbitals gave {name} instead of refusing")
        if mo.occs is not None and abs(mo.nelec - mo.occs.sum()) > 1e-12:
            raise Violation("nelec-sum", f"generalized nelec {mo.nelec} vs {mo.occs.sum()}")
        return
    na, nb = mo.norba, mo.norbb
    if mo.occs is None:
        stats["inv_none"] += 1
        if mo.occsa is not None or mo.occsb is not None or mo.nelec is not None or mo.spinpol is not None:
            raise Violation("occs-none", "occupations absent but occsa/occsb/nelec/spinpol are not None")
    else:
        stats["inv_occ"] += 1
        a, b = mo.occsa, mo.occsb
        if a is None or b is None or a.shape != (na,) or b.shape != (nb,):
            raise Violation("occ-shapes", f"occsa/occsb shapes {None if a is None else a.shape}/{None if b is None else b.shape} for norba/norbb {na}/{nb}")
        if kind == "restricted":
            if not close(a + b, mo.occs):
                raise Violation("occ-sum", f"occsa + occsb = {(a + b).tolist()} but occs = {mo.occs.tolist()}")
            adm = documented_ab(mo.occs, mo.occs_aminusb)
            if not any(close(a, ea) and close(b, eb) for ea, eb in adm):
                ea, eb = adm[0]
                raise Violation("occ-rules", f"occsa/occsb {a.tolist()}/{b.tolist()} differ from the documented rules {ea.tolist()}/{eb.tolist()}")
        else:
            if not np.array_equal(np.concatenate([a, b]), mo.occs):
                raise Violation("occ-sum", f"concatenated occsa, occsb {a.tolist()} {b.tolist()} differ from occs {mo.occs.tolist()}")
        if abs(mo.nelec - mo.occs.sum()) > 1e-12:
            raise Violation("nelec-sum", f"nelec {mo.nelec} vs sum of occupations {mo.occs.sum()}")
        want = abs(a.sum() - b.sum())
        if mo.spinpol is None or abs(mo.spinpol - want) > 1e-12:
            key = "spinpol-sign-restricted" if (mo.spinpol is not None and abs(mo.spinpol + want) < 1e-12) else "spinpol-abs-diff"
            raise Violation(key, f"spinpol {mo.spinpol} but |sum(occsa) - sum(occsb)| = {want}")
    for name in ("coeffs", "energies", "irreps"):
        full = getattr(mo, name)
        va, vb = getattr(mo, name + "a"), getattr(mo, name + "b")
        if full is None:
            if va is not None or vb is not None:
                raise Violation("views", f"{name} absent but {name}a/{name}b present")
            continue
        stats["inv_views"] += 1
        if kind == "restricted":
            ok = np.array_equal(va, full) and np.array_equal(vb, full)
        elif name == "coeffs":
            ok = np.array_equal(va, full[:, :na]) and np.array_equal(vb, full[:, na:])
        else:
            ok = np.array_equal(va, full[:na]) and np.array_equal(vb, full[na:])
        if not ok:
            raise Violation("views", f"{name}a/{name}b are not the documented slices of {name}")
    # lengths agree with the number of orbitals
    norb = mo.norb
    for name in ("occs", "energies", "irreps", "occs_aminusb"):
        v = getattr(mo, name)
        if v is not None and len(v) != norb:
            raise Violation("length-accepted", f"{name} has length {len(v)} but norb = {norb}")
    if mo.coeffs is not None and mo.coeffs.shape[1] != norb:
        raise Violation("length-accepted", f"coeffs has {mo.coeffs.shape[1]} columns but norb = {norb}")
    if kind == "restricted" and na != nb:
        raise Violation("kind-counts", f"restricted with norba={na} norbb={nb}")
    if na is None or nb is None:
        raise Violation("kind-counts", f"{kind} orbitals with norba/norbb = {na}/{nb}")
    if mo.occs_aminusb is not None and kind != "restricted":
        raise Violation("kind-counts", f"occs_aminusb set on {kind} orbitals")


def run_mo_history(cfg, ops, stats):
    from iodata.orbitals import MolecularOrbitals

    kind, na, nb, pat = cfg
    mo = MolecularOrbitals(**initial(kind, na, nb, pat))
    check_mo(mo, stats)
    ok_any = False
    for attr, tag in ops:
        val = value(kind, na, nb, attr, tag, mo)
        cur_kind = mo.kind
        before_a = before_b = None
        if cur_kind != "generalized" and mo.occs is not None:
            before_a, before_b = np.array(mo.occsa), np.array(mo.occsb)
        try:
            setattr(mo, attr, val)
            outcome = None
        except Exception as exc:
            outcome = type(exc).__name__
        stats["steps"] += 1
        # wrong lengths must be rejected
        if tag == "long" or (tag == "one" and attr in ("occsa", "occsb") and cur_kind != "generalized"
                             and (mo.norba if attr == "occsa" else mo.norbb) not in (1,)):
            stats["bad_length_attempts"] += 1
            if outcome is None:
                n_expected = {"occsa": mo.norba, "occsb": mo.norbb}.get(attr, mo.norb)
                raise Violation("length-accepted", f"{attr} of length {np.shape(val)} accepted ({cur_kind}, norba={mo.norba}, norbb={mo.norbb}, "
                                f"expected {n_expected})")
        if cur_kind == "generalized" and attr in ("occsa", "occsb") and outcome is None:
            raise Violation("generalized-spin-access", f"assignment of {attr} accepted on generalized orbitals")
        if outcome is None:
            ok_any = True
            stats["ok_assignments"] += 1
            if attr in ("occsa", "occsb") and val is not None:
                got = getattr(mo, attr)
                stats["readbacks"] += 1
                if got is None or not close(got, val):
                    raise Violation("occ-readback", f"{attr}={np.asarray(val).tolist()} succeeded but reads back {None if got is None else got.tolist()}")
                other = mo.occsb if attr == "occsa" else mo.occsa
                prev = before_b if attr == "occsa" else before_a
                if prev is not None and not close(other, prev):
                    raise Violation("occ-other-spin-changed", f"{attr} assignment changed the other spin {prev.tolist()} -> {other.tolist()}")
        else:
            stats["rejections"] += 1
        if attr in ("kind", "norba", "norbb") and outcome is None:
            # Re-dimensioning an existing object re-interprets arrays that were legitimately assigned before; the statement
            # only requires that a kind contradicting the orbital counts is rejected.  The history ends here.
            k, a, b = mo.kind, mo.norba, mo.norbb
            bad = (k == "generalized" and (a is not None or b is not None)) or (k != "generalized" and (a is None or b is None)) or (
                k == "restricted" and a != b)
            if bad:
                raise Violation("kind-counts", f"{attr}={val!r} accepted: kind={k} with norba={a} norbb={b}")
            return ok_any
        check_mo(mo, stats)
    return ok_any


def case_mo(case, stats):
    cfg = CONFIGS[case["config"]]
    kind, na, nb, pat = cfg
    ops = alphabet(kind, na, nb, case["full"])
    viols = {}
    nontrivial = 0
    depth = case["depth"]
    lo = 0 if case["full"] else depth
    sample = None
    for d in range(lo, depth + 1):
        for seq in itertools.product(range(len(ops)), repeat=d):
            h = [ops[i] for i in seq]
            stats["histories"] += 1
            try:
                if run_mo_history(cfg, h, stats) or d > 0:
                    nontrivial += 1
            except Violation as v:
                if v.key not in viols:
                    viols[v.key] = {"key": v.key, "msg": str(v), "history": {"config": list(cfg), "ops": [list(o) for o in h]}, "count": 0}
                viols[v.key]["count"] += 1
            if sample is None and d == depth:
                sample = {"config": list(cfg), "ops": [list(o) for o in h]}
    return list(viols.values()), nontrivial, sample


def case_mo_ctor(stats):
    """Constructions that must be rejected: kinds contradicting counts, wrong lengths."""
    from iodata.orbitals import MolecularOrbitals

    viols = []
    n = 0
    bad = [
        ("restricted norba != norbb", dict(kind="restricted", norba=2, norbb=3)),
        ("restricted with None count", dict(kind="restricted", norba=None, norbb=None)),
        ("unrestricted with None count", dict(kind="unrestricted", norba=2, norbb=None)),
        ("generalized with counts", dict(kind="generalized", norba=2, norbb=2)),
        ("unknown kind", dict(kind="other", norba=2, norbb=2)),
        ("aminusb on unrestricted", dict(kind="unrestricted", norba=1, norbb=1, occs=np.ones(2), occs_aminusb=np.zeros(2))),
    ]
    for kind in ("restricted", "unrestricted"):
        na, nb = 2, 2
        norb = 2 if kind == "restricted" else 4
        for name in ("occs", "energies", "irreps", "occs_aminusb"):
            if name == "occs_aminusb" and kind != "restricted":
                continue
            for length in (norb - 1, norb + 1):
                bad.append((f"{kind} {name} length {length}", dict(kind=kind, norba=na, norbb=nb, **{name: np.ones(length)})))
        for ncol in (norb - 1, norb + 1):
            bad.append((f"{kind} coeffs columns {ncol}", dict(kind=kind, norba=na, norbb=nb, coeffs=np.ones((3, ncol)))))
    for label, kw in bad:
        n += 1
        stats["ctor_attempts"] += 1
        r = _raises(lambda kw=kw: MolecularOrbitals(**kw))
        if r is None:
            viols.append({"key": "ctor-accepted", "msg": f"construction accepted: {label}"})
        else:
            stats["rejections"] += 1
    return viols, n


def shell_nbasis(angmoms, kinds):
    tot = 0
    for l, k in zip(angmoms, kinds):
        if k == "c":
            tot += (l + 1) * (l + 2) // 2
        elif k == "p" and l >= 2:
            tot += 2 * l + 1
        else:
            return None
    return tot


def case_shell(case, stats):
    from iodata.basis import Shell

    rng = rng_for(12, case["seed"], case["ncon"])
    viols = []
    seen = set()
    ncon = case["ncon"]
    combos = list(itertools.product(range(10), ["c", "p", "x"]))
    if ncon == 1:
        todo = [(c,) for c in combos]
    else:
        todo = [tuple(combos[int(i)] for i in rng.integers(0, len(combos), size=ncon)) for _ in range(case["n"])]
    for combo in todo:
        if combo in seen:
            continue
        seen.add(combo)
        angmoms = [c[0] for c in combo]
        kinds = [c[1] for c in combo]
        nexp = int(rng.integers(1, 4))
        stats["shell_constructions"] += 1
        try:
            sh = Shell(0, angmoms, kinds, np.linspace(1, 2, nexp), np.ones((nexp, ncon)))
        except Exception as exc:
            if shell_nbasis(angmoms, kinds) is not None:
                viols.append({"key": "shell-legal-rejected", "msg": f"legal shell {combo} rejected: {exc!r}"})
            continue
        want = shell_nbasis(angmoms, kinds)
        try:
            got = sh.nbasis
        except Exception:
            got = None
        if got != want:
            viols.append({"key": "shell-nbasis", "msg": f"shell {combo}: nbasis {got}, expected {want}"})
        if sh.ncon != ncon or sh.nexp != nexp:
            viols.append({"key": "shell-nbasis", "msg": f"shell {combo}: ncon/nexp {sh.ncon}/{sh.nexp}"})
        # the count FOLLOWS the angular momenta and kinds: after it was read once, other kinds / angular momenta are assigned (or
        # written into the arrays in place, as the Molden reader does) and it is read again
        other = tuple(combos[int(i)] for i in rng.integers(0, len(combos), size=ncon))
        ang2, kinds2 = [c[0] for c in other], [c[1] for c in other]
        mode = int(rng.integers(3))
        try:
            if mode == 0:
                sh.angmoms = ang2
                sh.kinds = kinds2
            elif mode == 1:
                sh.kinds = kinds2
                ang2 = angmoms
            else:
                for i, k in enumerate(kinds2):
                    sh.kinds[i] = k
                ang2 = angmoms
        except Exception:
            continue
        stats["shell_reassignments"] = stats.get("shell_reassignments", 0) + 1
        want2 = shell_nbasis(ang2, kinds2)
        try:
            got2 = sh.nbasis
        except Exception:
            got2 = None
        if got2 != want2:
            viols.append({"key": "shell-nbasis", "msg": f"shell {combo} after {['assigning angmoms and kinds', 'assigning kinds', 'writing kinds in place'][mode]} "
                                                          f"{list(zip(ang2, kinds2))}: nbasis {got2}, expected {want2} (it was {got} before)"})
    return viols[:10], len(seen)


def case_shell_shapes(stats):
    """Every single shape mismatch between angmoms, kinds, exponents, coeffs; at construction and at assignment."""
    from iodata.basis import Shell

    viols = []
    n = 0
    for ncon in (1, 2, 3, 4):
        for nexp in (1, 2, 3):
            good = dict(icenter=0, angmoms=list(range(ncon)), kinds=["c"] * ncon, exponents=np.linspace(1, 2, nexp), coeffs=np.ones((nexp, ncon)))
            variants = []
            for d in (-1, 1):
                if ncon + d >= 1:
                    variants.append(("angmoms", list(range(ncon + d))))
                    variants.append(("kinds", ["c"] * (ncon + d)))
                    variants.append(("coeffs", np.ones((nexp, ncon + d))))
                if nexp + d >= 1:
                    variants.append(("exponents", np.linspace(1, 2, nexp + d)))
                    variants.append(("coeffs", np.ones((nexp + d, ncon))))
            variants.append(("coeffs", np.ones(nexp * ncon)))
            variants.append(("coeffs", np.ones((nexp, ncon, 1))))
            if nexp != ncon:
                variants.append(("coeffs", np.ones((ncon, nexp))))
            for name, bad in variants:
                n += 2
                stats["shell_mismatch_attempts"] += 2
                kw = dict(good)
                kw[name] = bad
                if _raises(lambda kw=kw: Shell(**kw)) is None:
                    viols.append({"key": "shell-shape-accepted", "msg": f"construction with {name} of shape {np.shape(bad)} accepted (nexp={nexp}, ncon={ncon})"})
                sh = Shell(**good)
                if _raises(lambda: setattr(sh, name, bad)) is None:
                    viols.append({"key": "shell-shape-accepted", "msg": f"assignment of {name} with shape {np.shape(bad)} accepted (nexp={nexp}, ncon={ncon})"})
                else:
                    stats["rejections"] += 1
    return viols[:10], n


def run_case(case):
    keys = ["histories", "steps", "ok_assignments", "rejections", "readbacks", "bad_length_attempts", "inv_occ", "inv_none", "inv_views",
            "inv_generalized", "ctor_attempts", "shell_constructions", "shell_mismatch_attempts"]
    stats = {k: 0 for k in keys}
    sample = None
    if case["kind"] == "mo":
        viols, nontrivial, sample = case_mo(case, stats)
        feats = [f"mo:{case['config']}:{'full' if case['full'] else 'occ'}:d{case['depth']}"]
    elif case["kind"] == "mo_ctor":
        viols, nontrivial = case_mo_ctor(stats)
        feats = ["mo_ctor"]
        sample = {"constructions": nontrivial}
    elif case["kind"] == "shell":
        viols, nontrivial = case_shell(case, stats)
        feats = [f"shell:ncon={case['ncon']}"]
        sample = {"ncon": case["ncon"], "constructions": nontrivial}
    else:
        viols, nontrivial = case_shell_shapes(stats)
        feats = ["shell_shapes"]
        sample = {"mismatch_attempts": nontrivial}
    stats["nontrivial"] = nontrivial
    return {"status": "violation" if viols else "ok", "violations": viols, "features": feats, "counters": stats, "sample": sample}


def finish(results, tier):
    n = sum(r.get("counters", {}).get("nontrivial", 0) for r in results)
    out = {"distinct_nontrivial": n, "configurations": len(CONFIGS)}
    for k in ("inv_occ", "inv_views", "inv_generalized", "readbacks", "rejections"):
        if sum(r.get("counters", {}).get(k, 0) for r in results) == 0:
            out["inconclusive"] = f"monitor {k} never evaluated"
    return out
