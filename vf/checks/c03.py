"""C03 - loaded values are exactly what the file says under the format's published layout.

Files are produced by R.spec_writers (independent writers that follow the public specifications) from random models;
the real load_one / load_many read them; every expected value is compared with the loaded object.
Usage for one writer while developing:  VF_ONLY_WRITER=sdf ./check C03
"""

import os
import shutil
import tempfile
import warnings

import numpy as np

from ..gen.basis import rng_for
from ..ref import spec_writers, wfncompare
from ..ref.spec_writers import base

PROPERTY = "C03"
LEVEL = "exploration"
RULE = (
    "per writer module (one per readable format, see vf/ref/spec_writers) x model class (field-width boundaries, negative / wide "
    "numbers, optional sections absent, section orders, ...) x seeds: generate model -> write file following the public "
    "specification -> load_one (and load_many for multi-frame formats) -> compare every expected value (unit-converted with "
    "R.units, tolerance half a unit of the writer's last digit); wavefunctions are compared as functions of space with R.gto. "
    "distinct = distinct (writer, class, feature set); non-trivial = at least one expected value was compared on a loaded object."
)
ASSUMPTIONS = ["the writers in vf/ref/spec_writers follow the public format specifications cited in their SOURCES",
               "R.units CODATA literals", "R.gto evaluator for wavefunction formats"]
TIMEOUT = {"quick": 1200, "thorough": 7200}


def writers():
    ws = spec_writers.all_writers()
    only = os.environ.get("VF_ONLY_WRITER")
    if only:
        ws = {k: v for k, v in ws.items() if k in only.split(",")}
    return ws


def plan(tier, seed):
    cases = []
    nrep = 3 if tier == "quick" else 150
    for name, mod in sorted(writers().items()):
        for klass in mod.CLASSES:
            if klass in getattr(mod, "NOT_ASSERTED", {}):
                continue
            for rep in range(nrep):
                cases.append({"writer": name, "klass": klass, "rep": rep, "seed": seed})
    return cases


def _v(key, msg, **kw):
    d = {"key": key, "msg": msg}
    d.update(kw)
    return d


def fmt_path(path):
    return ".".join(str(p) for p in path)


def classify(writer, path, klass="", got=None, want=None):
    """Mechanism key of a value mismatch.

    A mismatch by a recognisable unit factor is keyed by (writer, attribute, factor) whatever the model class;
    anything else by (writer, model class = the input feature that triggers it, attribute).
    """
    from ..ref import units

    try:
        ratio = float(got) / float(want)
        name = units.named_ratio(ratio)
        if name is not None:
            return f"{writer}:unit:{fmt_path(path[:1])}:{name}"
    except (TypeError, ValueError, ZeroDivisionError):
        pass
    return f"{writer}:{klass}:{fmt_path(path[:2] if len(path) > 1 and isinstance(path[1], str) else path[:1])}"


def run_case(case):
    import iodata
    from iodata.utils import LoadError

    mod = writers()[case["writer"]]
    rng = rng_for(3, case["seed"], case["rep"], sum(map(ord, case["writer"] + case["klass"])))
    model = mod.generate(rng, case["klass"])
    text = mod.write(model)
    root = tempfile.mkdtemp(prefix="vf_c03_")
    viols = []
    counters = {"files_written": 1, "load_one_ok": 0, "frames_loaded": 0, "values_compared": 0, "load_errors": 0}
    fmt = mod.FORMAT if getattr(mod, "EXPLICIT_FMT", False) else None
    kwargs = getattr(mod, "load_kwargs", lambda m: {})(model)
    try:
        path = os.path.join(root, getattr(mod, "filename", lambda m: mod.FILENAME)(model))
        with open(path, "w") as fh:
            fh.write(text)
        exp = mod.expected(model)
        with warnings.catch_warnings():
            warnings.simplefilter("ignore")
            try:
                data = iodata.load_one(path, fmt=fmt, **kwargs)
            except LoadError as exc:
                data = None
                counters["load_errors"] += 1
                viols.append(_v(f"{case['writer']}:{case['klass']}:load-refused", f"well-formed {case['writer']} file ({case['klass']}) refused: {exc}",
                                cause=repr(exc.__cause__)))
        if data is not None:
            counters["load_one_ok"] += 1
            for p, got, want, note in base.compare(data, exp):
                viols.append(_v(classify(case["writer"], p, case["klass"], got, want), f"{case['writer']}/{case['klass']}: {fmt_path(p)} = {got!r}, file says {want!r} ({note})"))
            counters["values_compared"] += len(exp)
            if base.WFN in exp:
                for msg in wfncompare.compare_wfn(exp[base.WFN], data, rng, rel_tol=getattr(mod, "WFN_REL_TOL", 1e-6)):
                    viols.append(_v(f"{case['writer']}:{case['klass']}:wavefunction", f"{case['writer']}/{case['klass']}: {msg}"))
                counters["values_compared"] += 1
        if hasattr(mod, "frames") and hasattr(iodata.api.FORMAT_MODULES[mod.FORMAT], "load_many"):
            fexp = mod.frames(model)
            with warnings.catch_warnings():
                warnings.simplefilter("ignore")
                got_frames = []
                try:
                    for d in iodata.load_many(path, fmt=fmt, **kwargs):
                        got_frames.append(d)
                except LoadError as exc:
                    viols.append(_v(f"{case['writer']}:{case['klass']}:load_many-refused", f"load_many refused a well-formed file after {len(got_frames)} frames: {exc}"))
            counters["frames_loaded"] += len(got_frames)
            if len(got_frames) != len(fexp):
                viols.append(_v(f"{case['writer']}:{case['klass']}:frame-count", f"{case['writer']}/{case['klass']}: load_many yielded {len(got_frames)} frames, file has {len(fexp)}"))
            for k, (d, e) in enumerate(zip(got_frames, fexp)):
                for p, got, want, note in base.compare(d, e):
                    viols.append(_v(classify(case["writer"], p, case["klass"], got, want), f"{case['writer']}/{case['klass']} frame {k}: {fmt_path(p)} = {got!r}, file says {want!r} ({note})"))
                counters["values_compared"] += len(e)
    finally:
        shutil.rmtree(root, ignore_errors=True)
    feats = [f"{case['writer']}:{case['klass']}:" + ",".join(model.get("features", []))] if counters["values_compared"] else []
    # one entry per mechanism key (with a count), so that a listed finding can never crowd out an unlisted one
    bykey = {}
    for v in viols:
        if v["key"] in bykey:
            bykey[v["key"]]["count"] = bykey[v["key"]].get("count", 1) + 1
        else:
            bykey[v["key"]] = v
    viols = list(bykey.values())
    for v in viols:
        v["file_head"] = text[:1500]
    sample = {"writer": case["writer"], "class": case["klass"], "features": model.get("features"), "file_head": text[:300]}
    return {"status": "violation" if viols else "ok", "violations": viols[:40], "features": feats, "counters": counters, "sample": sample}


def finish(results, tier):
    ws = writers()
    from iodata.api import FORMAT_MODULES

    covered = sorted({m.FORMAT for m in ws.values()})
    missing = sorted(set(FORMAT_MODULES) - set(covered))
    return {"formats_with_writer": covered, "formats_not_covered": missing}
