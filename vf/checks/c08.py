"""C08 - dump failures follow the error contract; pre-flight errors spare existing files.

Fault enumeration on the real dump_one / dump_many / write_input:
  * every subset of the declared `required` attributes cleared,
  * every prepare_dump rejection reason x allow_changes,
  * faulty frame at every index of a dump_many sequence (list and generator), empty sequence,
  * unknown / unsupported formats,
  * an exception injected at the k-th write() of the output file for every k (M4 write proxy),
under the file monitor (bytes / existence before and after), the audit log (M6: no event on the target before a
pre-flight rejection), and the descriptor check.
"""

import errno
import itertools
import os
import shutil
import tempfile
import warnings

import numpy as np

from ..gen import basis as gb
from ..gen import objects as go
from ..gen import wfnobjects as wo
from ..mon import audit, fileproxy

PROPERTY = "C08"
LEVEL = "fault_enumeration"
RULE = (
    "13 dump_one + 4 dump_many formats x every subset of required attributes set to None x target {absent, pre-existing}; every "
    "prepare_dump rejection reason (generalized orbitals, occs_aminusb, generalized contractions, pure functions for WFN/WFX, "
    "non-aufbau occupations for FCHK, missing schema_name) x allow_changes; dump_many with the faulty frame at index 0, 1, middle, "
    "last as list and generator, empty sequence; unknown/unsupported formats; write faults: one run per k in 1..W write calls (all k "
    "when W <= 300 in thorough / 40 sampled in quick) x {OSError, ValueError, RuntimeError}. distinct = distinct (format, operation, "
    "fault kind, fault position class, allow_changes, target state); non-trivial = a fault was injected and the outcome classified."
)
EXHAUSTIVE = ["subsets of required attributes per format", "faulty-frame index classes", "write index k (thorough, W <= 300)"]
ASSUMPTIONS = ["iodata.api.open is looked up as a module global at call time (so the proxy is honoured)",
               "sys.addaudithook 'open' events cover target creation"]
TIMEOUT = {"quick": 1200, "thorough": 7200}
SENTINEL = "sentinel bytes that must survive a pre-flight rejection\n"


def plan(tier, seed):
    cases = []
    for fmt in go.DUMP_FORMATS:
        cases.append({"kind": "required", "fmt": fmt, "seed": seed})
        cases.append({"kind": "write_fault", "fmt": fmt, "op": "dump_one", "seed": seed, "kmax": 40 if tier == "quick" else 300})
    for fmt in go.MANY_FORMATS:
        cases.append({"kind": "many", "fmt": fmt, "seed": seed})
        cases.append({"kind": "write_fault", "fmt": fmt, "op": "dump_many", "seed": seed, "kmax": 40 if tier == "quick" else 300})
    for fmt in ("fchk", "molden", "molekel", "wfn", "wfx", "json_qcschema"):
        for rep in range(2 if tier == "quick" else 12):
            cases.append({"kind": "prepare", "fmt": fmt, "seed": seed, "rep": rep})
    cases.append({"kind": "selection", "seed": seed})
    for prog in ("gaussian", "orca"):
        cases.append({"kind": "write_fault", "fmt": prog, "op": "write_input", "seed": seed, "kmax": 40 if tier == "quick" else 300})
    cases.append({"kind": "unwritable", "seed": seed})
    # the repository's own test-suite as a workload under monitor M9 (vf/mon/pytest_plugin.py)
    cases.append({"kind": "suite", "tier": tier, "timeout": 3300})
    return cases


def _v(key, msg, **kw):
    d = {"key": key, "msg": msg}
    d.update(kw)
    return d


def call(fn, filt="ignore"):
    """Run fn under a warning filter ("ignore", or "error" = python -W error); return (outcome, exception)."""
    with warnings.catch_warnings():
        warnings.simplefilter(filt)
        try:
            fn()
            return "returned", None
        except BaseException as exc:  # noqa: BLE001
            if isinstance(exc, (KeyboardInterrupt, SystemExit)) or type(exc).__name__ == "CaseTimeout":
                raise
            return type(exc).__name__, exc


def preflight_call(fn, root, target, tag, expect, viols, counters, pre_exists):
    """Run a call that must be rejected before the target is touched."""
    if pre_exists:
        with open(target, "w") as fh:
            fh.write(SENTINEL)
    elif os.path.exists(target):
        os.remove(target)
    before = audit.file_state(target)
    with audit.Watch(root) as w:
        outcome, exc = call(fn)
    after = audit.file_state(target)
    counters["preflight_calls"] += 1
    if outcome != expect:
        viols.append(_v("wrong-exception", f"{tag}: {outcome} ({exc}), expected {expect}"))
    if before != after:
        viols.append(_v("preflight-target-changed", f"{tag}: target {'bytes changed' if before[0] and after[0] else 'created or removed'} "
                        f"although the call was rejected with {outcome}"))
    if w.on(target):
        viols.append(_v("preflight-target-touched", f"{tag}: file-system events on the target before the rejection: {w.on(target)[:3]}"))
    if audit.open_fds_on(target):
        viols.append(_v("file-left-open", f"{tag}: descriptor on the target left open"))
    if exc is not None and outcome == expect and os.path.basename(target) not in str(exc):
        # observation only: the statement of C08 says nothing about the wording of the message
        counters["observed_message_without_file"] = counters.get("observed_message_without_file", 0) + 1
    return outcome


def case_required(case):
    import attrs
    import iodata

    fmt = case["fmt"]
    rng = gb.rng_for(8, case["seed"], sum(map(ord, fmt)))
    data, _f = go.make(fmt, rng, "small")
    mod = iodata.api.FORMAT_MODULES[fmt]
    viols, feats = [], []
    counters = {"preflight_calls": 0, "subsets": 0, "could_not_clear": 0}
    root = tempfile.mkdtemp(prefix="vf_c08_")
    try:
        for op in ("dump_one", "dump_many"):
            if not hasattr(mod, op):
                continue
            req = list(getattr(mod, op).required)
            for r in range(1, len(req) + 1):
                for sub in itertools.combinations(req, r):
                    d = attrs.evolve(data)
                    ok = True
                    # orbitals first: charge / nelec re-derive themselves from them
                    for name in sorted(sub, key=lambda n: n != "mo"):
                        try:
                            setattr(d, name, None)
                        except Exception:
                            ok = False
                    if not ok or any(getattr(d, name) is not None for name in sub):
                        counters["could_not_clear"] += 1  # e.g. atcorenums re-derives from atnums
                        continue
                    counters["subsets"] += 1
                    for pre in (False, True):
                        target = os.path.join(root, go.filename(fmt, f"req_{op}"))
                        if op == "dump_one":
                            fn = lambda d=d, target=target: iodata.dump_one(d, target, fmt=go.explicit_fmt(fmt))  # noqa: E731
                        else:
                            fn = lambda d=d, target=target: iodata.dump_many([d], target, fmt=go.explicit_fmt(fmt))  # noqa: E731
                        preflight_call(fn, root, target, f"{fmt}.{op} with {sub} = None (target {'exists' if pre else 'absent'})",
                                       "PrepareDumpError", viols, counters, pre)
                    feats.append(f"required:{fmt}:{op}:{'+'.join(sub)}")
    finally:
        shutil.rmtree(root, ignore_errors=True)
    return viols, feats, counters, {"fmt": fmt, "required": {op: list(getattr(mod, op).required) for op in ("dump_one", "dump_many") if hasattr(mod, op)}}


def rejected_objects(fmt, rng):
    """(label, object, expected outcome without allow_changes, with allow_changes)."""
    from iodata.orbitals import MolecularOrbitals

    out = []
    # every format: objects whose derived properties (spinpol, nelec, charge) raise or are undefined when the pre-flight
    # code reads them - generalized orbitals, orbitals without occupations.  Whatever the format makes of them, only the
    # documented outcomes are admitted (written, PrepareDumpError, DumpError).
    if fmt not in ("fchk", "molden", "molekel", "wfn", "wfx"):
        for label, mo in (("generalized orbitals attached", MolecularOrbitals("generalized", None, None, np.array([1.0, 0.0]),
                                                                               rng.normal(size=(6, 2)), np.array([-1.0, 0.5]))),
                          ("orbitals without occupations attached", MolecularOrbitals("restricted", 2, 2))):
            d, _ = go.make(fmt, rng)
            try:
                d.charge = None
                d.nelec = None
                d.spinpol = None
                d.mo = mo
            except Exception:
                continue
            out.append((label, d, "returned", "returned"))
    if fmt == "json_qcschema":
        d, _ = go.make(fmt, rng)
        d.extra = {k: v for k, v in d.extra.items() if k != "schema_name"}
        out.append(("missing schema_name", d, "PrepareDumpError", "PrepareDumpError"))
        d2, _ = go.make(fmt, rng)
        d2.extra = dict(d2.extra)
        d2.extra["schema_name"] = "qcschema_basis"
        out.append(("qcschema_basis", d2, "PrepareDumpError", "PrepareDumpError"))
        return out
    ghosts = "none"
    # generalized orbitals
    d, _ = wo.make(rng, fmt, nbasis_max=14, spin="restricted", contraction="segmented", ghosts=ghosts, lmax=1)
    nb = d.obasis.nbasis
    mo = MolecularOrbitals("generalized", None, None, np.array([1.0, 0.0]), rng.normal(size=(2 * nb, 2)), np.array([-1.0, 0.5]))
    d.mo = None
    d.mo = mo
    out.append(("generalized orbitals", d, "PrepareDumpError", "PrepareDumpError"))
    # occs_aminusb
    d, _ = wo.make(rng, fmt, nbasis_max=14, spin="aminusb", contraction="segmented", ghosts=ghosts, lmax=1, virtuals=True)
    if fmt == "fchk":
        # FCHK has no notion of occs_aminusb: the object is acceptable exactly when its alpha and beta occupations are
        # fully occupied orbitals followed by empty ones (documented rejection reason "non-aufbau occupations")
        def aufbau(o):
            n = int(round(float(o.sum())))
            return bool((o[:n] == 1.0).all() and (o[n:] == 0.0).all())

        exp = "returned" if aufbau(d.mo.occsa) and aufbau(d.mo.occsb) and d.mo.occs.sum() > 0 else "PrepareDumpError"
        out.append(("occs_aminusb", d, exp, exp))
    else:
        out.append(("occs_aminusb", d, "PrepareDumpError", "returned"))
    # an explicit occs_aminusb that is all zeros on open-shell occupations (what assigning equal occsa / occsb to restricted orbitals
    # gives): present, hence needing conversion for the formats without a notion of it
    if fmt != "fchk":
        d, _ = wo.make(rng, fmt, nbasis_max=14, spin="aminusb_zero", contraction="segmented", ghosts=ghosts, lmax=1, virtuals=True)
        out.append(("all-zero occs_aminusb", d, "PrepareDumpError", "returned"))
    # generalized contractions (not SP)
    for _ in range(20):
        d, f = wo.make(rng, fmt, nbasis_max=16, spin="restricted", contraction="generalized", ghosts=ghosts, lmax=1, virtuals=True)
        if any(sh.ncon > 1 and not (sh.ncon == 2 and list(sh.angmoms) == [0, 1]) for sh in d.obasis.shells):
            out.append(("generalized contractions", d, "PrepareDumpError", "returned"))
            break
    # a two-fold contraction listed as P,S: the same functions as an SP shell in another order, but not an "SP shell" of any format
    for _ in range(20):
        d, f = wo.make(rng, fmt, nbasis_max=16, spin="restricted", contraction="sp", ghosts=ghosts, lmax=1, virtuals=True)
        isp = [i for i, sh in enumerate(d.obasis.shells) if sh.ncon == 2 and list(sh.angmoms) == [0, 1]]
        if not isp:
            continue
        import attrs

        from iodata.basis import Shell

        shells = list(d.obasis.shells)
        sh = shells[isp[0]]
        off = sum(x.nbasis for x in shells[:isp[0]])
        shells[isp[0]] = Shell(sh.icenter, sh.angmoms[::-1].copy(), sh.kinds[::-1].copy(), sh.exponents.copy(), sh.coeffs[:, ::-1].copy())
        rows = np.arange(d.obasis.nbasis)
        rows[off:off + 4] = [off + 1, off + 2, off + 3, off]
        mo = d.mo
        d.obasis = attrs.evolve(d.obasis, shells=shells)
        d.mo = attrs.evolve(mo, coeffs=mo.coeffs[rows].copy())
        out.append(("P,S contraction", d, "PrepareDumpError", "returned"))
        break
    # pure functions for WFN/WFX
    if fmt in ("wfn", "wfx"):
        d, _ = wo.make(rng, "fchk", nbasis_max=16, spin="restricted", contraction="segmented", ghosts=ghosts, lmax=2, virtuals=True,
                       conv_class="horton2")
        if any("p" in list(sh.kinds) for sh in d.obasis.shells):
            out.append(("pure functions", d, "PrepareDumpError", "PrepareDumpError"))
    # pure functions hidden behind a Cartesian first contraction of a generalized shell
    if fmt in ("wfn", "wfx"):
        from iodata.basis import Shell
        import attrs

        d, _ = wo.make(rng, fmt, nbasis_max=10, spin="restricted", contraction="segmented", ghosts=ghosts, lmax=1, virtuals=True)
        extra_sh = Shell(0, [1, 2], ["c", "p"], np.array([1.3, 0.4]), np.array([[0.6, 0.8], [0.5, 0.3]]))
        nb0 = d.obasis.nbasis
        conv = dict(d.obasis.conventions)
        conv.setdefault((2, "p"), ["c0", "c1", "s1", "c2", "s2"])
        conv.setdefault((1, "c"), ["x", "y", "z"])
        mo = d.mo
        d.obasis = attrs.evolve(d.obasis, shells=list(d.obasis.shells) + [extra_sh], conventions=conv)
        d.mo = attrs.evolve(mo, coeffs=np.vstack([mo.coeffs, np.zeros((8, mo.coeffs.shape[1]))]))
        out.append(("pure functions in a mixed generalized shell", d, "PrepareDumpError", "PrepareDumpError"))
    # non-aufbau occupations for FCHK
    if fmt == "fchk":
        d, _ = wo.make(rng, fmt, nbasis_max=14, spin="restricted", contraction="segmented", ghosts=ghosts, lmax=1, virtuals=True)
        if d.mo.norb >= 3:
            occs = np.zeros(d.mo.norb)
            occs[0] = 2.0
            occs[2] = 2.0
            d.mo.occs = occs
            out.append(("non-aufbau occupations", d, "PrepareDumpError", "PrepareDumpError"))
        # restricted orbitals whose alpha channel is aufbau but whose beta channel has a hole: a singly occupied orbital below a
        # doubly occupied one, or explicit occs_aminusb of mixed sign
        for label, occs, amb in (("non-aufbau beta occupations", [2.0, 1.0, 2.0], None),
                                 ("non-aufbau beta occupations (mixed-sign occs_aminusb)", [2.0, 1.0, 1.0], [0.0, 1.0, -1.0])):
            d, _ = wo.make(rng, fmt, nbasis_max=14, spin="restricted", contraction="segmented", ghosts=ghosts, lmax=1, virtuals=True)
            if d.mo.norb >= 4:
                pad = np.zeros(d.mo.norb - 3)
                d.mo.occs = np.concatenate([occs, pad])
                d.mo.occs_aminusb = None if amb is None else np.concatenate([amb, pad])
                out.append((label, d, "PrepareDumpError", "PrepareDumpError"))
    # objects on which prepare_dump itself stumbles (an exception inside it must surface as PrepareDumpError)
    if fmt == "fchk":
        d, _ = wo.make(rng, fmt, nbasis_max=10, spin="restricted", contraction="segmented", ghosts=ghosts, lmax=1)
        d.mo.occs = None
        out.append(("orbitals without occupations", d, "PrepareDumpError", "PrepareDumpError"))
        d, _ = wo.make(rng, fmt, nbasis_max=10, spin="restricted", contraction="segmented", ghosts=ghosts, lmax=1)
        d.obasis = None
        out.append(("orbitals without basis", d, "PrepareDumpError", "PrepareDumpError"))
    # no orbitals / no basis for formats that need them
    if fmt != "fchk":
        d, _ = wo.make(rng, fmt, nbasis_max=10, spin="restricted", contraction="segmented", ghosts=ghosts, lmax=1)
        d.obasis = None
        out.append(("no basis", d, "PrepareDumpError", "PrepareDumpError"))
    return out


def case_prepare(case):
    import iodata

    fmt = case["fmt"]
    rng = gb.rng_for(8, 1, case["seed"], case["rep"], sum(map(ord, fmt)))
    viols, feats = [], []
    counters = {"preflight_calls": 0, "allowed_conversions": 0}
    root = tempfile.mkdtemp(prefix="vf_c08p_")
    try:
        for label, d, exp_no, exp_yes in rejected_objects(fmt, rng):
            for allow, expect in ((False, exp_no), (True, exp_yes)):
                for pre in (False, True):
                    target = os.path.join(root, go.filename(fmt, "prep"))
                    fn = lambda d=d, target=target, allow=allow: iodata.dump_one(d, target, fmt=go.explicit_fmt(fmt), allow_changes=allow)  # noqa: E731
                    tag = f"{fmt}.dump_one: {label}, allow_changes={allow}, target {'exists' if pre else 'absent'}"
                    if expect == "PrepareDumpError":
                        preflight_call(fn, root, target, tag, expect, viols, counters, pre)
                    else:
                        outcome, exc = call(fn)
                        counters["allowed_conversions"] += 1
                        if outcome not in ("returned", "PrepareDumpError", "DumpError"):
                            viols.append(_v("wrong-exception", f"{tag}: {outcome} ({exc})"))
                        # the same call with warnings turned into errors (python -W error): the announcement of a conversion
                        # then surfaces as an exception inside the call and must still come out as one of the documented types
                        outcome, exc = call(fn, "error")
                        counters["calls_warnings_as_errors"] = counters.get("calls_warnings_as_errors", 0) + 1
                        if outcome not in ("returned", "PrepareDumpError", "DumpError"):
                            viols.append(_v("wrong-exception", f"{tag}, warnings as errors: {outcome} ({exc})"))
                        if audit.open_fds_on(target):
                            viols.append(_v("file-left-open", f"{tag}: descriptor left open"))
                    feats.append(f"prepare:{fmt}:{label}:allow={allow}:pre={pre}")
    finally:
        shutil.rmtree(root, ignore_errors=True)
    return viols, feats, counters, {"fmt": fmt, "reasons": [x[0] for x in rejected_objects(fmt, gb.rng_for(1))]}


def case_many(case):
    import iodata

    fmt = case["fmt"]
    rng = gb.rng_for(8, 2, case["seed"], sum(map(ord, fmt)))
    viols, feats = [], []
    counters = {"preflight_calls": 0, "dump_many_calls": 0, "pulls": 0}
    root = tempfile.mkdtemp(prefix="vf_c08m_")
    req = list(iodata.api.FORMAT_MODULES[fmt].dump_many.required)
    try:
        nframe = 5
        for bad_index in (0, 1, 2, nframe - 1):
            for as_gen in (False, True):
                for pre in (False, True):
                    frames = [go.make(fmt, rng, "small")[0] for _ in range(nframe)]
                    if fmt == "mol2":
                        for fr in frames:
                            if "mol2charges" not in (fr.atcharges or {}):
                                fr.atcharges = {"mol2charges": np.zeros(fr.natom)}
                    frames[bad_index].atcoords = None
                    target = os.path.join(root, go.filename(fmt, "many"))
                    log = []
                    src = fileproxy.PullLog(frames, log)
                    arg = iter(src) if as_gen else frames

                    def fn(arg=arg, target=target):
                        iodata.dump_many(arg, target, fmt=go.explicit_fmt(fmt))

                    tag = f"{fmt}.dump_many: frame {bad_index} of {nframe} lacks atcoords ({'generator' if as_gen else 'list'}, target {'exists' if pre else 'absent'})"
                    counters["dump_many_calls"] += 1
                    if bad_index == 0:
                        preflight_call(fn, root, target, tag, "PrepareDumpError", viols, counters, pre)
                    else:
                        if pre:
                            with open(target, "w") as fh:
                                fh.write(SENTINEL)
                        outcome, exc = call(fn)
                        if outcome != "PrepareDumpError":
                            viols.append(_v("later-frame-error-swallowed" if outcome == "returned" else "wrong-exception",
                                            f"{tag}: {outcome} ({exc}), expected PrepareDumpError to reach the caller"))
                        if audit.open_fds_on(target):
                            viols.append(_v("file-left-open", f"{tag}: descriptor left open"))
                    if as_gen:
                        counters["pulls"] += src.pulled
                        if src.pulled > bad_index + 1:
                            viols.append(_v("pulled-past-error", f"{tag}: {src.pulled} items pulled although frame {bad_index} is at fault"))
                    feats.append(f"many:{fmt}:bad={bad_index}:gen={as_gen}:pre={pre}")
        # empty sequence
        for arg_label, arg in (("empty list", []), ("empty generator", iter(()))):
            target = os.path.join(root, go.filename(fmt, "empty"))
            if os.path.exists(target):
                os.remove(target)
            with audit.Watch(root) as w:
                outcome, exc = call(lambda arg=arg, target=target: iodata.dump_many(arg, target, fmt=go.explicit_fmt(fmt)))
            counters["dump_many_calls"] += 1
            if outcome != "DumpError":
                viols.append(_v("wrong-exception", f"{fmt}.dump_many({arg_label}): {outcome}, expected DumpError"))
            if os.path.exists(target) or w.on(target):
                viols.append(_v("empty-sequence-created-file", f"{fmt}.dump_many({arg_label}) touched or created the target"))
            feats.append(f"many:{fmt}:{arg_label}")
    finally:
        shutil.rmtree(root, ignore_errors=True)
    return viols, feats, counters, {"fmt": fmt, "required": req}


def case_write_fault(case):
    import iodata

    fmt, op = case["fmt"], case["op"]
    rng = gb.rng_for(8, 3, case["seed"], sum(map(ord, fmt + op)))
    viols, feats = [], []
    counters = {"dry_run_writes": 0, "faults_injected": 0, "closes_observed": 0}
    root = tempfile.mkdtemp(prefix="vf_c08w_")
    expect = "WriteInputError" if op == "write_input" else "DumpError"
    try:
        if op == "write_input":
            data, _ = go.make("xyz", rng, "small")
            target = os.path.join(root, "input.in")

            def run():
                iodata.write_input(data, target, fmt)
        elif op == "dump_one":
            data, _ = go.make(fmt, rng, "small")
            target = os.path.join(root, go.filename(fmt, "w"))

            def run():
                iodata.dump_one(data, target, fmt=go.explicit_fmt(fmt), allow_changes=True)
        else:
            frames = [go.make(fmt, rng, "small")[0] for _ in range(3)]
            if fmt == "mol2":
                for fr in frames:
                    fr.atcharges = {"mol2charges": np.zeros(fr.natom)}
            target = os.path.join(root, go.filename(fmt, "wm"))

            def run():
                iodata.dump_many(iter(frames), target, fmt=go.explicit_fmt(fmt))
        log = []
        with fileproxy.OpenProxy(log) as px:
            outcome, exc = call(run)
        if outcome != "returned":
            return [_v("harness", f"dry run of {fmt}.{op} failed: {outcome} {exc}")], [], counters, None
        W = sum(1 for e in log if e[0] == "write")
        counters["dry_run_writes"] = W
        if not px.files:
            return [], [], counters, {"note": "proxy not honoured"}
        ks = list(range(1, W + 1))
        if W > case["kmax"]:
            picks = sorted(set([1, 2, 3, W - 1, W] + [int(k) for k in rng.integers(1, W + 1, size=case["kmax"])]))
            ks = [k for k in picks if 1 <= k <= W]
        excs = [OSError(errno.ENOSPC, "No space left on device"), ValueError("injected"), RuntimeError("injected")]
        for k in ks:
            e = excs[k % 3]
            log = []
            with fileproxy.OpenProxy(log, fault_at=k, fault_exc=e) as px:
                outcome, exc = call(run)
                closed = px.all_closed_by_iodata()
            counters["faults_injected"] += 1
            tag = f"{fmt}.{op}: {type(e).__name__} at write {k} of {W}"
            if outcome != expect:
                viols.append(_v("write-fault-exception", f"{tag}: surfaced as {outcome} ({exc}), expected {expect}"))
            elif exc.__cause__ is not e and exc is not e and not (expect == "DumpError" and isinstance(exc.__cause__, type(e))):
                pass  # the contract does not require chaining
            if not closed:
                viols.append(_v("file-left-open", f"{tag}: output file not closed by the call"))
            else:
                counters["closes_observed"] += 1
            if audit.open_fds_on(target):
                viols.append(_v("file-left-open", f"{tag}: descriptor on the target still open"))
            if ("fault", k, type(e).__name__) not in log:
                viols.append(_v("harness", f"{tag}: fault was not reached"))
        feats += [f"fault:{fmt}:{op}:{pos}" for pos in ("first", "middle", "last")]
    finally:
        shutil.rmtree(root, ignore_errors=True)
    return viols[:12], feats, counters, {"fmt": fmt, "op": op, "writes": counters["dry_run_writes"], "faults": counters["faults_injected"]}


def case_selection(case):
    import iodata

    rng = gb.rng_for(8, 4, case["seed"])
    viols, feats = [], []
    counters = {"preflight_calls": 0}
    root = tempfile.mkdtemp(prefix="vf_c08s_")
    data, _ = go.make("xyz", rng, "small")
    try:
        tests = [
            ("dump_one unknown extension", lambda t: iodata.dump_one(data, t), "x.unknown_ext"),
            ("dump_one unknown fmt", lambda t: iodata.dump_one(data, t, fmt="no_such_format"), "x.xyz"),
            ("dump_one to a read-only format (by name)", lambda t: iodata.dump_one(data, t), "x.gro"),
            ("dump_one to a read-only format (explicit)", lambda t: iodata.dump_one(data, t, fmt="cp2klog"), "x.xyz"),
            ("dump_many to a single-frame format", lambda t: iodata.dump_many([data], t), "x.cube"),
            ("dump_many unknown fmt", lambda t: iodata.dump_many([data], t, fmt="nope"), "x.xyz"),
            ("write_input unknown program", lambda t: iodata.write_input(data, t, "no_such_program"), "x.in"),
        ]
        for label, fn, name in tests:
            for pre in (False, True):
                target = os.path.join(root, name)
                preflight_call(lambda fn=fn, target=target: fn(target), root, target, label, "FileFormatError", viols, counters, pre)
                feats.append(f"selection:{label}:pre={pre}")
    finally:
        shutil.rmtree(root, ignore_errors=True)
    return viols, feats, counters, {"tests": 7}


def case_unwritable(case):
    """The only non-contract exception admitted: the OS error when the target cannot be opened."""
    import iodata

    rng = gb.rng_for(8, 5, case["seed"])
    data, _ = go.make("xyz", rng, "small")
    viols = []
    root = tempfile.mkdtemp(prefix="vf_c08u_")
    counters = {"unwritable_calls": 0}
    try:
        for label, fn in (
            ("dump_one", lambda t: iodata.dump_one(data, t)),
            ("dump_many", lambda t: iodata.dump_many([data], t)),
            ("write_input", lambda t: iodata.write_input(data, t, "gaussian")),
        ):
            target = os.path.join(root, "missing_dir", "x.xyz")
            outcome, exc = call(lambda fn=fn, target=target: fn(target))
            counters["unwritable_calls"] += 1
            if not isinstance(exc, OSError) and outcome not in ("DumpError", "WriteInputError"):
                viols.append(_v("wrong-exception", f"{label} into a missing directory: {outcome} ({exc})"))
    finally:
        shutil.rmtree(root, ignore_errors=True)
    return viols, ["unwritable:dump_one", "unwritable:dump_many", "unwritable:write_input"], counters, {"target": "missing_dir/x.xyz"}


def run_case(case):
    if case.get("kind") == "suite":
        from .. import suite

        return suite.case(['preflight-spares'], case["tier"])
    fn = {"required": case_required, "prepare": case_prepare, "many": case_many, "write_fault": case_write_fault,
          "selection": case_selection, "unwritable": case_unwritable}[case["kind"]]
    viols, feats, counters, sample = fn(case)
    if any(v["key"] == "harness" for v in viols):
        return {"status": "inconclusive", "reason": "; ".join(v["msg"] for v in viols if v["key"] == "harness")[:500]}
    return {"status": "violation" if viols else "ok", "violations": viols[:12], "features": feats, "counters": counters, "sample": sample}


def finish(results, tier):
    tot = {}
    for r in results:
        for k, v in (r.get("counters") or {}).items():
            tot[k] = tot.get(k, 0) + v
    if tot.get("faults_injected", 0) == 0 or tot.get("preflight_calls", 0) == 0:
        return {"inconclusive": "no fault was injected / no pre-flight call observed"}
    return {}
