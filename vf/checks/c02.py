"""C02 - save-then-reload returns the same data for every read/write format.

Objects in the documented domain of each of the 13 read/write formats (gen.objects) are written with the real dump_one and
read back with load_one; every attribute the format STORES (per-format table below, taken from the format specifications /
module docstrings) is compared: discrete data exactly, real data to half a unit of the last digit the format prints.
Inside the documented domain a refusal (any exception from dump_one) is a violation as well.
"""

import os
import shutil
import tempfile
import warnings

import numpy as np

from ..gen import basis as gb
from ..gen import objects as go
from ..ref import units
from ..ref.spec_writers.base import Approx, Exact, Expect, compare

PROPERTY = "C02"
LEVEL = "exploration"
RULE = (
    "per format: objects over size classes small / medium (9,10,99,100,101 atoms) / large (999,1000,1001) / wide coordinates, "
    "every optional attribute present or absent at random, every dictionary key the writer recognises, bonds of every type, "
    "symmetric matrices, cube shapes incl. nz % 6 != 0; dump_one -> load_one -> per-attribute comparison with the format's printed "
    "precision. distinct = distinct (format, class, set of optional attributes present); non-trivial = the file was written and at "
    "least one stored attribute compared."
)
ASSUMPTIONS = ["per-format tables of stored attributes and printed precision (this module), written from the format specifications",
               "R.units for unit factors"]
TIMEOUT = {"quick": 1500, "thorough": 7200}
A = units.angstrom


def plan(tier, seed):
    cases = []
    n = {"small": 10, "medium": 6, "large": 1, "wide": 4} if tier == "quick" else {"small": 1500, "medium": 500, "large": 40, "wide": 400}
    for fmt in go.DUMP_FORMATS:
        for klass, cnt in n.items():
            if klass == "large" and fmt in ("fcidump", "json_qcschema", "fchk", "molden", "molekel", "wfn", "wfx", "cube"):
                continue
            for i in range(cnt):
                cases.append({"fmt": fmt, "klass": klass, "i": i, "seed": seed})
    # directed variants: optional data absent / alternative documented types / user-defined XYZ columns / many atoms
    for i in range(4 if tier == "quick" else 300):
        for variant in ("fchk-no-orbitals", "fcidump-float-counts", "xyz-atom-columns", "molekel-no-charges", "every-bond-type"):
            cases.append({"fmt": variant.split("-")[0], "klass": "variant", "variant": variant, "i": i, "seed": seed})
    for fmt in ("xyz", "pdb", "mol2"):
        for i in range(1 if tier == "quick" else 12):
            cases.append({"fmt": fmt, "klass": "huge", "i": i, "seed": seed})
    # every combination of pure / Cartesian d, f and g shells present together (the Molden tags [5D], [5D10F], [7F], [5D7F], [9G]
    # and their absence; the per-shell type codes of FCHK / Molekel)
    for fmt in ("molden", "molekel", "fchk"):
        for i in range(8 * (1 if tier == "quick" else 10)):
            cases.append({"fmt": fmt, "klass": "kinds", "i": i, "seed": seed})
    return cases


def _v(key, msg, **kw):
    d = {"key": key, "msg": msg}
    d.update(kw)
    return d


def approx(x, atol, rtol=0.0):
    """Half a unit of the last printed digit (atol / rtol) plus the float64 representation error of the value itself."""
    x = np.asarray(x, dtype=float)
    scale = float(np.abs(x[np.isfinite(x)]).max()) if x.size and np.isfinite(x).any() else 0.0
    return Approx(x, atol=atol + 8 * np.finfo(float).eps * scale, rtol=rtol)


def stored(fmt, d):
    """What the format stores for object d: {path: Exact | Approx}."""
    e = Expect()
    if fmt in ("xyz", "pdb", "mol2", "sdf"):
        e[("atnums",)] = Exact(np.asarray(d.atnums))
        prec = {"xyz": 0.5e-10, "pdb": 0.5e-3, "mol2": 0.5e-4, "sdf": 0.5e-4}[fmt]
        e[("atcoords",)] = approx(d.atcoords, prec * A * 1.01 + 1e-12, units.RTOL)
        if d.title is not None:
            e[("title",)] = Exact(d.title)
    if fmt == "pdb":
        if d.atffparams.get("attypes") is not None:
            for k in ("attypes", "restypes", "resnums"):
                e[("atffparams", k)] = Exact(np.asarray(d.atffparams[k]))
        for k in ("occupancies", "bfactors"):
            if d.extra.get(k) is not None:
                e[("extra", k)] = approx(d.extra[k], 0.5e-2 + 1e-12)
        if d.extra.get("chainids") is not None:
            e[("extra", "chainids")] = Exact(np.asarray(d.extra["chainids"]))
    if fmt == "mol2":
        if d.atcharges.get("mol2charges") is not None:
            e[("atcharges", "mol2charges")] = approx(d.atcharges["mol2charges"], 0.5e-4 + 1e-12)
        if d.atffparams.get("attypes") is not None:
            e[("atffparams", "attypes")] = Exact(np.asarray(d.atffparams["attypes"]))
        if d.bonds is not None:
            e[("bonds",)] = Exact(np.asarray(d.bonds))
    if fmt == "sdf" and d.bonds is not None:
        e[("bonds",)] = Exact(np.asarray(d.bonds))
    if fmt == "poscar":
        # documented re-ordering: atoms grouped by element (heaviest first), order kept inside a group
        order = np.concatenate([np.nonzero(d.atnums == z)[0] for z in sorted(np.unique(d.atnums))[::-1]])
        e[("atnums",)] = Exact(np.asarray(d.atnums)[order])
        scale = np.abs(d.cellvecs).max()
        e[("cellvecs",)] = approx(d.cellvecs, 1e-15 * A + 1e-13 * scale)
        e[("atcoords",)] = approx(np.asarray(d.atcoords)[order], 1e-10 * max(1.0, np.abs(d.atcoords).max()) + 1e-9)
        if d.title is not None:
            e[("title",)] = Exact(d.title)
    if fmt == "cube":
        e[("atnums",)] = Exact(np.asarray(d.atnums))
        e[("atcoords",)] = approx(d.atcoords, 0.5e-6 + 1e-12)
        e[("atcorenums",)] = approx(d.atcorenums, 0.5e-6 + 1e-12)
        e[("cube", "origin")] = approx(d.cube.origin, 0.5e-6 + 1e-12)
        e[("cube", "axes")] = approx(d.cube.axes, 0.5e-6 + 1e-12)
        e[("cube", "data")] = approx(d.cube.data, 1e-300, 0.5e-5 * 1.01)
        # the cell spanned by the grid (row i = step vector i times the number of points along it), which the reader returns as cellvecs
        shape = np.array(d.cube.data.shape, dtype=float)
        e[("cellvecs",)] = approx(d.cube.axes * shape[:, None], (0.5e-6 + 1e-12) * float(shape.max()))
        if d.title is not None:
            e[("title",)] = Exact(d.title)
    if fmt == "fcidump":
        e[("one_ints", "core_mo")] = approx(d.one_ints["core_mo"], 1e-300, 1e-15)
        e[("two_ints", "two_mo")] = approx(d.two_ints["two_mo"], 1e-300, 1e-15)
        if d.core_energy is not None:
            e[("core_energy",)] = approx(d.core_energy, 1e-300, 1e-15)
        e[("nelec",)] = approx(d.nelec, 1e-12)
        e[("spinpol",)] = approx(d.spinpol, 1e-12)
    if fmt == "json_qcschema":
        e[("atnums",)] = Exact(np.asarray(d.atnums))
        e[("atcoords",)] = approx(d.atcoords, 1e-300, 1e-14)
        e[("charge",)] = approx(d.charge, 1e-10)
        e[("spinpol",)] = approx(d.spinpol, 1e-10)
        if d.atmasses is not None:
            e[("atmasses",)] = approx(d.atmasses, 1e-300, 1e-12)
        if d.bonds is not None:
            e[("bonds",)] = Exact(np.asarray(d.bonds))
        for name in ("title", "lot", "obasis_name", "g_rot"):
            if getattr(d, name) is not None:
                e[(name,)] = Exact(getattr(d, name))
        if d.energy is not None:
            e[("energy",)] = approx(d.energy, 1e-300, 1e-14)
    if fmt in ("fchk", "molden", "molekel", "wfn", "wfx"):
        e[("atnums",)] = Exact(np.asarray(d.atnums))
        cprec = {"fchk": (0.0, 0.5e-8), "molden": (1e-17, 0.0), "molekel": (0.5e-6 * A, units.RTOL), "wfn": (0.5e-8, 0.0), "wfx": (0.0, 1e-14)}[fmt]
        e[("atcoords",)] = approx(d.atcoords, cprec[0] * 1.01 + 1e-12, cprec[1] * 1.01)
        occ_tol = {"fchk": 1e-12, "molden": 1e-15, "molekel": 0.5e-7 * 1.01, "wfn": 0.5e-7 * 1.01, "wfx": 1e-13}[fmt]
        en_tol = {"fchk": (0.0, 0.5e-8), "molden": (0.0, 1e-15), "molekel": (0.5e-12, 0.0), "wfn": (0.5e-6, 0.0), "wfx": (0.0, 1e-13)}[fmt]
        # a WFN file (without the Multiwfn spin extension) is spin-ambiguous when no occupation exceeds 1 (documented heuristic)
        if fmt != "wfn" or (d.mo.kind == "restricted" and d.mo.occs.max() > 1.0):
            e[("mo", "kind")] = Exact(d.mo.kind)
            e[("mo", "occs")] = approx(d.mo.occs, occ_tol)
            e[("mo", "energies")] = approx(d.mo.energies, en_tol[0] * 1.01 + 1e-14, en_tol[1] * 1.01)
        if fmt in ("fchk", "molden", "wfx"):
            e[("atcorenums",)] = approx(d.atcorenums, 0.5 if fmt == "molden" else 1e-7, 0.5e-8 if fmt == "fchk" else 0.0)
        if fmt in ("fchk", "wfn", "wfx") and d.energy is not None:
            e[("energy",)] = approx(d.energy, 0.5e-12 * 1.01 if fmt == "wfn" else 0.0, {"fchk": 0.5e-8 * 1.01, "wfn": 0.0, "wfx": 1e-13}[fmt])
        if fmt in ("molden", "wfn", "wfx") and d.title is not None:
            e[("title",)] = Exact(d.title)
    if fmt == "fchk":
        r8 = 0.5e-8 * 1.01
        if d.title is not None:
            e[("title",)] = Exact(d.title)
        if d.atmasses is not None:
            e[("atmasses",)] = approx(d.atmasses, 1e-300, r8 + units.RTOL)
        if d.atgradient is not None:
            e[("atgradient",)] = approx(d.atgradient, 1e-300, r8)
        if d.athessian is not None:
            e[("athessian",)] = approx(d.athessian, 1e-300, r8)
        for key in ("mulliken", "esp", "npa", "mbs", "hirshfeld", "cm5"):
            if key in d.atcharges:
                e[("atcharges", key)] = approx(d.atcharges[key], 1e-300, r8)
        for key in ((1, "c"), (2, "c")):
            if key in d.moments:
                e[("moments", key)] = approx(d.moments[key], 1e-300, r8)
        if d.lot is not None:
            e[("lot",)] = Exact(d.lot.lower())
        if d.obasis_name is not None:
            e[("obasis_name",)] = Exact(d.obasis_name.lower())
        if d.run_type is not None:
            e[("run_type",)] = Exact(d.run_type)
    if fmt == "molekel" and "mulliken" in d.atcharges:
        e[("atcharges", "mulliken")] = approx(d.atcharges["mulliken"], 0.5e-6 * 1.01)
    if fmt == "wfx" and d.atgradient is not None:
        e[("atgradient",)] = approx(d.atgradient, 1e-300, 1e-13)
    if fmt == "wfx":
        # the optional fields the WFX writer takes from `extra` (counts exactly, reals to the printed digits) - also when they are zero
        for k in ("num_core_electrons", "num_perturbations"):
            if d.extra.get(k) is not None:
                e[("extra", k)] = Exact(int(d.extra[k]))
        for k in ("nuc_viral", "full_virial_ratio", "virial_ratio"):
            if d.extra.get(k) is not None:
                e[("extra", k)] = approx(d.extra[k], 1e-300, 1e-13)
        for k in ("keywords", "model_name"):
            if d.extra.get(k) is not None:
                e[("extra", k)] = Exact(d.extra[k])
    return e


def in_domain(fmt, d):
    """Documented domain limits of the formats (field widths)."""
    if fmt == "sdf":
        return d.natom <= 999 and (d.bonds is None or len(d.bonds) <= 999)
    if fmt == "pdb":
        return d.natom <= 99999
    return True


def bonds_as_set(b):
    return sorted({(min(int(i), int(j)), max(int(i), int(j))) for i, j, _t in np.asarray(b).reshape(-1, 3)})


def run_case(case):
    import iodata

    fmt = case["fmt"]
    rng = gb.rng_for(2, case["seed"], case["i"], sum(map(ord, fmt + case["klass"])))
    if case["klass"] == "variant":
        return run_variant(case, rng)
    if case["klass"] == "kinds":
        from ..gen import wfnobjects as wo

        combo = {2: "pc"[case["i"] & 1], 3: "pc"[(case["i"] >> 1) & 1], 4: "pc"[(case["i"] >> 2) & 1]}
        data, feats = wo.make(rng, fmt, lmax=4, force_kinds=combo, need_l=(2, 3, 4) if case["i"] % 16 < 8 else (2, 3), nbasis_max=60,
                              contraction="segmented", conv_class="native", spin="restricted", ghosts="none", natom=2)
        feats = dict(feats, fmt=fmt, klass="kinds", kinds="".join(combo[l] for l in (2, 3, 4)))
    else:
        data, feats = go.make(fmt, rng, case["klass"])
    # FCHK run types: every documented value is in the domain
    if fmt == "fchk":
        data.run_type = [None, "energy", "energy_force", "opt", "scan", "freq"][case["i"] % 6]
        feats["run_type"] = data.run_type
    if fmt == "wfx" and case["i"] % 2 == 0:
        # the optional WFX fields, with the values an all-electron calculation has: zero core electrons, zero perturbations, a
        # vanishing nuclear virial
        zero = case["i"] % 4 == 0
        data.extra = dict(data.extra or {}, keywords="GTO", num_perturbations=0, model_name="Restricted HF", virial_ratio=2.0003,
                          num_core_electrons=0 if zero else 10, nuc_viral=0.0 if zero else -0.25, full_virial_ratio=0.0 if zero else 2.0004)
        feats["wfx_extra"] = "zeros" if zero else "non-zero"
    # memory layout of the arrays is not part of the data: Fortran-ordered / strided / reversed views of equal arrays
    if case["i"] % 3 == 2:
        go.relayout(data, gb.rng_for(2, 77, case["seed"], case["i"]))
        feats["layout"] = "non-contiguous"
    root = tempfile.mkdtemp(prefix="vf_c02_")
    viols = []
    counters = {"dumps": 0, "reloads": 0, "values_compared": 0, "refusals": 0}
    tag = f"{fmt}/{case['klass']}"
    try:
        path = os.path.join(root, go.filename(fmt))
        with warnings.catch_warnings():
            warnings.simplefilter("ignore")
            try:
                iodata.dump_one(data, path, fmt=go.explicit_fmt(fmt))
                counters["dumps"] += 1
            except Exception as exc:
                counters["refusals"] += 1
                if not in_domain(fmt, data):
                    # outside the documented domain a refusal is the right outcome (only silent garbage would be a violation)
                    return result([], [f"{fmt}:{case['klass']}:out-of-domain-refused"], counters, feats)
                viols.append(_v(f"{fmt}:refused:{type(exc).__name__}", f"{tag}: in-domain object refused: {type(exc).__name__}: {exc} "
                                f"(cause {exc.__cause__!r}); features {feats}"))
                return result(viols, [], counters, feats)
            try:
                new = iodata.load_one(path, fmt=go.explicit_fmt(fmt))
                counters["reloads"] += 1
            except Exception as exc:
                viols.append(_v(f"{fmt}:own-output-unreadable", f"{tag}: written file cannot be read back: {type(exc).__name__}: {exc} "
                                f"(cause {exc.__cause__!r}); features {feats}"))
                return result(viols, [], counters, feats)
        exp = stored(fmt, data)
        counters["values_compared"] += len(exp)
        for p, got, want, note in compare(new, exp):
            viols.append(_v(f"{fmt}:{'.'.join(str(x) for x in p[:2])}", f"{tag}: {'.'.join(str(x) for x in p)} = {got!r} after reload, written {want!r} ({note})"))
        if fmt == "pdb" and data.bonds is not None:
            counters["values_compared"] += 1
            got = None if new.bonds is None else bonds_as_set(new.bonds)
            if got != bonds_as_set(data.bonds):
                viols.append(_v("pdb:bonds", f"{tag}: CONECT pairs after reload {str(got)[:120]} differ from the written bonds {str(bonds_as_set(data.bonds))[:120]}"))
    finally:
        shutil.rmtree(root, ignore_errors=True)
    opt = sorted(k for k, v in feats.items() if v is True)
    return result(viols, [f"{fmt}:{case['klass']}:" + ",".join(opt)], counters, feats)


def roundtrip(data, fmt, tag, viols, counters, expect=None, kwargs=None, feats=None):
    """dump_one + load_one + comparison; returns the reloaded object or None."""
    import iodata

    kwargs = kwargs or {}
    root = tempfile.mkdtemp(prefix="vf_c02v_")
    try:
        path = os.path.join(root, go.filename(fmt))
        with warnings.catch_warnings():
            warnings.simplefilter("ignore")
            try:
                iodata.dump_one(data, path, fmt=go.explicit_fmt(fmt), **kwargs)
                counters["dumps"] += 1
            except Exception as exc:
                counters["refusals"] += 1
                viols.append(_v(f"{tag}:refused:{type(exc).__name__}", f"{tag}: in-domain object refused: {type(exc).__name__}: {exc} (cause {exc.__cause__!r})"))
                return None
            try:
                new = iodata.load_one(path, fmt=go.explicit_fmt(fmt), **kwargs)
                counters["reloads"] += 1
            except Exception as exc:
                viols.append(_v(f"{tag}:own-output-unreadable", f"{tag}: written file cannot be read back: {type(exc).__name__}: {exc} (cause {exc.__cause__!r})"))
                return None
        exp = expect if expect is not None else stored(fmt, data)
        counters["values_compared"] += len(exp)
        for p, got, want, note in compare(new, exp):
            viols.append(_v(f"{tag}:{'.'.join(str(x) for x in p[:2])}", f"{tag}: {'.'.join(str(x) for x in p)} = {got!r} after reload, written {want!r} ({note})"))
        return new
    finally:
        shutil.rmtree(root, ignore_errors=True)


def run_variant(case, rng):
    from iodata import IOData

    variant = case["variant"]
    viols = []
    counters = {"dumps": 0, "reloads": 0, "values_compared": 0, "refusals": 0}
    feats = {"variant": variant}
    if variant == "fchk-no-orbitals":
        # the FCHK writer declares only atnums and atcorenums as required: an object without basis and orbitals is in its domain
        natom = int(rng.integers(1, 6))
        d = IOData(atnums=rng.integers(1, 10, size=natom), atcoords=np.round(rng.normal(size=(natom, 3)), 6), charge=0,
                   energy=float(np.round(rng.normal(), 6)), title="no orbitals")
        exp = Expect({("atnums",): Exact(np.asarray(d.atnums)), ("atcoords",): approx(d.atcoords, 1e-300, 0.5e-8 * 1.01),
                      ("energy",): approx(d.energy, 1e-300, 0.5e-8 * 1.01)})
        roundtrip(d, "fchk", "fchk:no-orbitals", viols, counters, exp)
    elif variant == "fcidump-float-counts":
        d, _ = go.make("fcidump", rng, "small")
        d.nelec = float(d.nelec)
        d.spinpol = float(d.spinpol)
        roundtrip(d, "fcidump", "fcidump:float-counts", viols, counters)
    elif variant == "molekel-no-charges":
        d, _ = go.make("molekel", rng, "small")
        d.atcharges = {}
        new = roundtrip(d, "molekel", "molekel:no-charges", viols, counters)
        if new is not None and not isinstance(new.atcharges, dict):
            viols.append(_v("molekel:no-charges:atcharges", f"atcharges is {new.atcharges!r} after reload of a file without charges (a dictionary is documented)"))
    elif variant == "every-bond-type":
        from iodata.periodic import bond2num

        for fmt, types in (("mol2", sorted(set(bond2num.values()))), ("sdf", list(range(1, 9)))):
            natom = len(types) + 1
            d = IOData(atnums=rng.integers(1, 10, size=natom), atcoords=np.round(rng.normal(size=(natom, 3)), 4) * A,
                       bonds=np.array([[k, k + 1, t] for k, t in enumerate(types)]), title="bond types")
            roundtrip(d, fmt, f"{fmt}:every-bond-type", viols, counters)
    elif variant == "xyz-atom-columns":
        # user-defined columns, as documented in the module docstring of iodata.formats.xyz
        from iodata.formats.xyz import DEFAULT_ATOM_COLUMNS

        # several keyed columns may store into the SAME dictionary attribute (two charge models, two extra fields)
        cols = [*DEFAULT_ATOM_COLUMNS,
                ("atcharges", "mulliken", (), float, float, "{:10.5f}".format),
                ("atgradient", None, (3,), float, (lambda word: -float(word)), (lambda value: f"{-value:15.10f}")),
                ("atcharges", "esp", (), float, float, "{:10.5f}".format),
                ("extra", "spin_a", (), float, float, "{:8.3f}".format),
                ("extra", "spin_b", (), float, float, "{:8.3f}".format)]
        natom = int(rng.integers(1, 12))
        d = IOData(atnums=rng.integers(1, 30, size=natom), atcoords=np.round(rng.normal(size=(natom, 3)), 6) * A,
                   atcharges={"mulliken": np.round(rng.normal(size=natom), 5), "esp": np.round(rng.normal(size=natom), 5)},
                   atgradient=np.round(rng.normal(size=(natom, 3)), 10), title="custom columns",
                   extra={"spin_a": np.round(rng.normal(size=natom), 3), "spin_b": np.round(rng.normal(size=natom), 3)})
        exp = stored("xyz", d)
        exp[("atcharges", "mulliken")] = approx(d.atcharges["mulliken"], 0.5e-5 * 1.01)
        exp[("atcharges", "esp")] = approx(d.atcharges["esp"], 0.5e-5 * 1.01)
        exp[("extra", "spin_a")] = approx(d.extra["spin_a"], 0.5e-3 * 1.01)
        exp[("extra", "spin_b")] = approx(d.extra["spin_b"], 0.5e-3 * 1.01)
        exp[("atgradient",)] = approx(d.atgradient, 0.5e-10 * 1.01)
        roundtrip(d, "xyz", "xyz:atom-columns", viols, counters, exp, kwargs={"atom_columns": cols})
    return result(viols, [f"variant:{variant}"], counters, feats)


def result(viols, feats, counters, sample):
    bykey = {}
    for v in viols:
        bykey.setdefault(v["key"], v)
    return {"status": "violation" if viols else "ok", "violations": list(bykey.values()), "features": feats, "counters": counters,
            "sample": {k: (v if isinstance(v, (int, float, str, bool, type(None))) else str(v)) for k, v in list(sample.items())[:10]}}
