"""C16 - results depend only on the arguments, not on call history or interleaving.

A pool of closed API calls (every format's load_one / load_many / dump_one / dump_many / write_input, conversions, failing
calls), each on its own files.  Baseline: every call alone in a FRESH interpreter (subprocess) -> digest.  Histories: shuffled
sequences with repetitions in one interpreter, with a snapshot of the module-level tables (M7) before and after every call.
Schedules: 2..16 threads executing permutations of the pool under a sys.monitoring LINE callback that yields the GIL inside
iodata code (M8).  Oracle: every digest equals the baseline digest; the tables never change.
"""

import hashlib
import json
import os
import shutil
import subprocess
import sys
import tempfile
import threading
import warnings

from .. import bootstrap
from ..gen import basis as gb
from ..gen import corpus
from ..gen import objects as go
from ..mon import snapshot as snap
from ..mon import tables

PROPERTY = "C16"
LEVEL = "exploration"
RULE = (
    "pool of ~90 closed API calls (one or two corpus files per readable format through load_one / load_many, generated objects of "
    "all 13 dump formats through dump_one, dump_many for 4 formats, write_input for both programs, corpus conversions with and "
    "without allow_changes, failing calls); per case a subset of 12 calls: baseline digests from fresh subprocesses, then a shuffled "
    "history with repetitions (3 rounds) in one interpreter with table snapshots around every call, or N threads (2,4,8,16) running "
    "permutations under the yield injector. distinct = distinct (mode, call id, position class / thread count); non-trivial = the "
    "call ran in both settings and the digests were compared. The number of distinct yield points and observed context switches "
    "is recorded."
)
ASSUMPTIONS = ["digest = canonical deep snapshot of the returned object / sha256 of written bytes / exception type + message with "
               "temporary paths normalised", "sys.monitoring LINE events (CPython 3.12) for yield injection"]
TIMEOUT = {"quick": 1500, "thorough": 7200}
CASE_TIMEOUT = 900


def pool():
    """Deterministic list of call specs."""
    specs = []
    byfmt = {}
    for e in sorted(corpus.entries(max_cost=0.25, max_size=150_000), key=lambda e: e["size"]):
        byfmt.setdefault(e["fmt"], []).append(e)
    for fmt, lst in sorted(byfmt.items()):
        for e in lst[:2]:
            specs.append({"op": "load_one", "file": e["file"], "fmt": fmt if e["explicit"] else None})
    for fn, fmt in (("water_trajectory.xyz", None), ("water_extended_trajectory.xyz", "extxyz"), ("peroxide_opt.fchk", None),
                    ("water2.gro", None), ("example.sdf", None), ("caffeine.mol2", None), ("water_trajectory_no_model.pdb", None)):
        if os.path.exists(os.path.join(bootstrap.DATA_DIR, fn)):
            specs.append({"op": "load_many", "file": fn, "fmt": fmt})
    for fmt in go.DUMP_FORMATS:
        for k in range(2):
            specs.append({"op": "dump_one", "fmt": fmt, "k": k, "allow": bool(k)})
    for fmt in go.MANY_FORMATS:
        specs.append({"op": "dump_many", "fmt": fmt, "k": 0})
    for prog in ("gaussian", "orca"):
        specs.append({"op": "write_input", "prog": prog, "k": 0})
    for src, dst, allow in (("water_sto3g_hf_g03.fchk", "molden", False), ("water_sto3g_hf_g03.fchk", "wfx", False),
                            ("h2o_sto3g.wfn", "wfx", False), ("h2o_sto3g.wfn", "fchk", True), ("water_dimer_ghost.fchk", "wfx", False),
                            ("h2_sto3g.mkl", "molden", False), ("nh3_molden_cart.molden", "wfn", True), ("water_hfs_321g.fchk", "molekel", True),
                            ("water.xyz", "pdb", False), ("water.xyz", "sdf", False), ("atom_om2.cp2k.out", "wfx", True)):
        specs.append({"op": "convert", "file": src, "dst": dst, "allow": allow})
    specs += [
        {"op": "fail", "what": "load-unknown-extension"}, {"op": "fail", "what": "dump-missing-attr"},
        {"op": "fail", "what": "load-garbage-xyz"}, {"op": "fail", "what": "dump-atnum-zero-xyz"},
        {"op": "fail", "what": "dump-atnum-zero-pdb"}, {"op": "fail", "what": "input-unknown-program"},
    ]
    for i, s in enumerate(specs):
        s["id"] = i
    return specs


def _digest_obj(obj):
    return "OBJ:" + snap.digest(obj)


def _file_digest(path):
    with open(path, "rb") as fh:
        return "BYTES:" + hashlib.sha256(fh.read()).hexdigest()


def execute(spec, workdir):
    """Run one call; all files it writes go to workdir (created fresh). Returns a digest string."""
    import iodata
    from iodata import IOData

    os.makedirs(workdir, exist_ok=True)
    op = spec["op"]
    try:
        with warnings.catch_warnings():
            warnings.simplefilter("ignore")
            if op == "load_one":
                return _digest_obj(iodata.load_one(os.path.join(bootstrap.DATA_DIR, spec["file"]), fmt=spec["fmt"]))
            if op == "load_many":
                frames = list(iodata.load_many(os.path.join(bootstrap.DATA_DIR, spec["file"]), fmt=spec["fmt"]))
                return "OBJ:" + hashlib.sha256("".join(snap.digest(f) for f in frames).encode()).hexdigest() + f":{len(frames)}"
            if op == "dump_one":
                data, _ = go.make(spec["fmt"], gb.rng_for(16, spec["k"], sum(map(ord, spec["fmt"]))), "small")
                path = os.path.join(workdir, go.filename(spec["fmt"]))
                iodata.dump_one(data, path, fmt=go.explicit_fmt(spec["fmt"]), allow_changes=spec["allow"])
                return _file_digest(path)
            if op == "dump_many":
                rng = gb.rng_for(16, 7, spec["k"], sum(map(ord, spec["fmt"])))
                frames = [go.make(spec["fmt"], rng, "small")[0] for _ in range(3)]
                if spec["fmt"] == "mol2":
                    import numpy as np

                    for f in frames:
                        f.atcharges = {"mol2charges": np.zeros(f.natom)}
                path = os.path.join(workdir, go.filename(spec["fmt"], "many"))
                iodata.dump_many(iter(frames), path)
                return _file_digest(path)
            if op == "write_input":
                data, _ = go.make("xyz", gb.rng_for(16, 9, spec["k"]), "small")
                path = os.path.join(workdir, "input.in")
                iodata.write_input(data, path, spec["prog"])
                return _file_digest(path)
            if op == "convert":
                data = iodata.load_one(os.path.join(bootstrap.DATA_DIR, spec["file"]))
                path = os.path.join(workdir, go.filename(spec["dst"], "conv"))
                iodata.dump_one(data, path, allow_changes=spec["allow"])
                return _file_digest(path) + "|" + _digest_obj(iodata.load_one(path))
            if op == "fail":
                what = spec["what"]
                if what == "load-unknown-extension":
                    iodata.load_one(os.path.join(workdir, "nothing.unknown_ext"))
                elif what == "dump-missing-attr":
                    iodata.dump_one(IOData(atnums=[1, 1]), os.path.join(workdir, "x.xyz"))
                elif what == "load-garbage-xyz":
                    p = os.path.join(workdir, "g.xyz")
                    with open(p, "w") as fh:
                        fh.write("2\ntitle\nH 0 0 0\nXx a b c\n")
                    iodata.load_one(p)
                elif what in ("dump-atnum-zero-xyz", "dump-atnum-zero-pdb"):
                    # atomic number 0 (a ghost/dummy centre) has no element symbol: the outcome must not depend on history
                    ext = what.rsplit("-", 1)[1]
                    d = IOData(atnums=[0, 1], atcoords=[[0.0, 0.0, 0.0], [0.0, 0.0, 1.0]], extra={})
                    p = os.path.join(workdir, f"z.{ext}")
                    iodata.dump_one(d, p)
                    return _file_digest(p)
                elif what == "input-unknown-program":
                    iodata.write_input(IOData(atnums=[1], atcoords=[[0, 0, 0]]), os.path.join(workdir, "i.in"), "nope")
                return "RETURNED"
    except Exception as exc:
        msg = str(exc).replace(workdir, "<WORKDIR>").replace(os.path.dirname(workdir), "<TMP>")
        return f"EXC:{type(exc).__name__}:{msg}"
    raise ValueError(op)


def baseline(spec_ids, root):
    """Digest of each call alone in a fresh interpreter."""
    out = {}
    procs = []
    env = dict(os.environ, VF_REPO=bootstrap.REPO, PYTHONHASHSEED="0")
    for sid in spec_ids:
        wd = os.path.join(root, f"base{sid}")
        p = subprocess.Popen([sys.executable, "-m", "vf.checks.c16", "--exec", str(sid), wd], cwd=bootstrap.VERIF_ROOT, env=env,
                             stdout=subprocess.PIPE, stderr=subprocess.PIPE, text=True)
        procs.append((sid, p))
        if len(procs) >= 4:
            sid0, p0 = procs.pop(0)
            o, e = p0.communicate(timeout=600)
            out[sid0] = _parse(o, e)
    for sid0, p0 in procs:
        o, e = p0.communicate(timeout=600)
        out[sid0] = _parse(o, e)
    return out


def _parse(stdout, stderr):
    for line in stdout.splitlines():
        if line.startswith("DIGEST "):
            return line[7:]
    return "NO-DIGEST:" + stderr[-300:]


def plan(tier, seed):
    n = len(pool())
    cases = []
    nh = 16 if tier == "quick" else 120
    for i in range(nh):
        cases.append({"kind": "history", "i": i, "seed": seed, "npool": n})
    for i, nt in enumerate([2, 4, 8, 16] * (2 if tier == "quick" else 10)):
        cases.append({"kind": "threads", "i": i, "nthreads": nt, "seed": seed, "npool": n})
    return cases


def _v(key, msg, **kw):
    d = {"key": key, "msg": msg}
    d.update(kw)
    return d


def describe(spec):
    return {k: v for k, v in spec.items() if k != "id"}


def run_case(case):
    specs = pool()
    rng = gb.rng_for(16, case["seed"], case["i"], 1 if case["kind"] == "history" else 2)
    chosen = sorted(int(i) for i in rng.choice(len(specs), size=min(12, len(specs)), replace=False))
    root = tempfile.mkdtemp(prefix="vf_c16_")
    viols, feats = [], []
    counters = {"baseline_subprocesses": 0, "calls_in_history": 0, "digest_comparisons": 0, "table_snapshots": 0, "thread_calls": 0,
                "line_events": 0, "yields": 0, "context_switches": 0, "distinct_yield_points": 0}
    try:
        base = baseline(chosen, root)
        counters["baseline_subprocesses"] = len(base)
        for sid, dg in base.items():
            if dg.startswith("NO-DIGEST"):
                return {"status": "inconclusive", "reason": f"baseline subprocess of call {sid} gave no digest: {dg}"}
        if case["kind"] == "history":
            seq = []
            for _round in range(3):
                order = [chosen[i] for i in rng.permutation(len(chosen))]
                seq += order
            t0 = tables.tables_snapshot()
            counters["table_snapshots"] += 1
            for pos, sid in enumerate(seq):
                dg = execute(specs[sid], os.path.join(root, f"h{pos}"))
                counters["calls_in_history"] += 1
                counters["digest_comparisons"] += 1
                if dg != base[sid]:
                    prev = [describe(specs[s]) for s in seq[max(0, pos - 3):pos]]
                    viols.append(_v(f"history-dependent:{specs[sid]['op']}", f"call {describe(specs[sid])} at position {pos} of a shuffled history gives "
                                    f"{dg[:120]} but {base[sid][:120]} alone in a fresh interpreter; preceding calls: {prev}"))
                t1 = tables.tables_snapshot()
                counters["table_snapshots"] += 1
                dd = tables.tables_diff(t0, t1)
                if dd:
                    viols.append(_v(f"module-table-modified:{dd[0][0].split('[')[0]}", f"module table changed by call {describe(specs[sid])}: {dd[0]}"))
                    t0 = t1
                feats.append(f"history:{sid}:{'first' if pos < len(chosen) else 'repeat'}")
        else:
            nt = case["nthreads"]
            results = {}
            errors = []
            t0 = tables.tables_snapshot()

            def worker(tid):
                try:
                    order = [chosen[i] for i in gb.rng_for(16, case["seed"], case["i"], 100 + tid).permutation(len(chosen))]
                    for pos, sid in enumerate(order):
                        results[(tid, pos, sid)] = execute(specs[sid], os.path.join(root, f"t{tid}_{pos}"))
                except BaseException as exc:  # noqa: BLE001
                    errors.append(repr(exc))

            p = 0.02 if nt <= 4 else 0.01
            with tables.YieldInjector(bootstrap.REPO, p=p, seed=case["i"]) as inj:
                threads = [threading.Thread(target=worker, args=(t,)) for t in range(nt)]
                for th in threads:
                    th.start()
                for th in threads:
                    th.join()
            counters["line_events"] = inj.events
            counters["yields"] = inj.yields
            counters["context_switches"] = inj.context_switches
            counters["distinct_yield_points"] = len(inj.switch_points)
            if errors:
                return {"status": "inconclusive", "reason": f"thread died in the harness: {errors[:2]}"}
            for (tid, pos, sid), dg in sorted(results.items()):
                counters["thread_calls"] += 1
                counters["digest_comparisons"] += 1
                if dg != base[sid]:
                    viols.append(_v(f"schedule-dependent:{specs[sid]['op']}", f"call {describe(specs[sid])} in thread {tid} of {nt} gives {dg[:120]} "
                                    f"but {base[sid][:120]} alone in a fresh interpreter"))
                feats.append(f"threads={nt}:{sid}")
            dd = tables.tables_diff(t0, tables.tables_snapshot())
            counters["table_snapshots"] += 2
            if dd:
                viols.append(_v(f"module-table-modified:{dd[0][0].split('[')[0]}", f"module table changed during the threaded run: {dd[0]}"))
            if inj.context_switches < 2:
                return {"status": "inconclusive", "reason": "fewer than 2 context switches observed"}
    finally:
        shutil.rmtree(root, ignore_errors=True)
    bykey = {}
    for v in viols:
        bykey.setdefault(v["key"], v)
    sample = {"kind": case["kind"], "calls": [describe(specs[s]) for s in chosen[:5]], "nthreads": case.get("nthreads")}
    return {"status": "violation" if viols else "ok", "violations": list(bykey.values()), "features": sorted(set(feats)), "counters": counters,
            "sample": sample}


def finish(results, tier):
    tot = {}
    for r in results:
        for k, v in (r.get("counters") or {}).items():
            tot[k] = tot.get(k, 0) + v
    out = {"pool_size": len(pool())}
    if tot.get("context_switches", 0) < 2 or tot.get("calls_in_history", 0) == 0:
        out["inconclusive"] = "no interleaving / no history executed"
    return out


if __name__ == "__main__":
    # subprocess entry point: python -m vf.checks.c16 --exec <spec id> <workdir>
    if len(sys.argv) == 4 and sys.argv[1] == "--exec":
        bootstrap.init()
        warnings.simplefilter("ignore")
        spec = pool()[int(sys.argv[2])]
        print("DIGEST " + execute(spec, sys.argv[3]))
