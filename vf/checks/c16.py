"""C16 - results depend only on the arguments, not on call history or interleaving.

A pool of closed API calls (every format's load_one / load_many / dump_one / dump_many / write_input, conversions, failing
calls), each on its own files.  Baseline: every call alone in a FRESH interpreter (subprocess) -> digest.  Histories: shuffled
sequences with repetitions in one interpreter, with a snapshot of the module-level tables (M7) before and after every call.
Schedules: 2..16 threads executing permutations of the pool under a sys.monitoring LINE callback that yields the GIL inside
iodata code (M8).  Oracle: every digest equals the baseline digest; the tables never change.
"""

import hashlib
import json
import os
import shutil
import subprocess
import sys
import tempfile
import threading
import warnings

from .. import bootstrap
from ..gen import basis as gb
from ..gen import corpus
from ..gen import objects as go
from ..mon import snapshot as snap
from ..mon import tables

PROPERTY = "C16"
LEVEL = "exploration"
RULE = (
    "pool of ~90 closed API calls (one or two corpus files per readable format through load_one / load_many, generated objects of "
    "all 13 dump formats through dump_one, dump_many for 4 formats, write_input for both programs, corpus conversions with and "
    "without allow_changes, failing calls); per case a subset of 12 calls: baseline digests from fresh subprocesses, then a shuffled "
    "history with repetitions (3 rounds) in one interpreter with table snapshots around every call, or N threads (2,4,8,16) running "
    "permutations under the yield injector; per format, all generated files of the specification-following writers (every model class) "
    "loaded in shuffled orders with repetitions vs alone in fresh interpreters, and per dump format generated objects of every class dumped in shuffled orders. distinct = distinct (mode, call id, position class / thread count); non-trivial = the "
    "call ran in both settings and the digests were compared. The number of distinct yield points and observed context switches "
    "is recorded."
)
ASSUMPTIONS = ["digest = canonical deep snapshot of the returned object / sha256 of written bytes / exception type + message with "
               "temporary paths normalised", "sys.monitoring LINE events (CPython 3.12) for yield injection"]
TIMEOUT = {"quick": 1500, "thorough": 7200}
CASE_TIMEOUT = 900


def pool():
    """Deterministic list of call specs."""
    specs = []
    byfmt = {}
    for e in sorted(corpus.entries(max_cost=0.25, max_size=150_000), key=lambda e: e["size"]):
        byfmt.setdefault(e["fmt"], []).append(e)
    for fmt, lst in sorted(byfmt.items()):
        for e in lst[:2]:
            specs.append({"op": "load_one", "file": e["file"], "fmt": fmt if e["explicit"] else None})
    for fn, fmt in (("water_trajectory.xyz", None), ("water_extended_trajectory.xyz", "extxyz"), ("peroxide_opt.fchk", None),
                    ("water2.gro", None), ("example.sdf", None), ("caffeine.mol2", None), ("water_trajectory_no_model.pdb", None)):
        if os.path.exists(os.path.join(bootstrap.DATA_DIR, fn)):
            specs.append({"op": "load_many", "file": fn, "fmt": fmt})
    for fmt in go.DUMP_FORMATS:
        for k in range(2):
            specs.append({"op": "dump_one", "fmt": fmt, "k": k, "allow": bool(k)})
    for fmt in go.MANY_FORMATS:
        specs.append({"op": "dump_many", "fmt": fmt, "k": 0})
    for prog in ("gaussian", "orca"):
        specs.append({"op": "write_input", "prog": prog, "k": 0})
    for src, dst, allow in (("water_sto3g_hf_g03.fchk", "molden", False), ("water_sto3g_hf_g03.fchk", "wfx", False),
                            ("h2o_sto3g.wfn", "wfx", False), ("h2o_sto3g.wfn", "fchk", True), ("water_dimer_ghost.fchk", "wfx", False),
                            ("h2_sto3g.mkl", "molden", False), ("nh3_molden_cart.molden", "wfn", True), ("water_hfs_321g.fchk", "molekel", True),
                            ("water.xyz", "pdb", False), ("water.xyz", "sdf", False), ("atom_om2.cp2k.out", "wfx", True)):
        specs.append({"op": "convert", "file": src, "dst": dst, "allow": allow})
    # lazily consumed trajectories: two load_many iterators advanced in turn (their contexts close out of order), a conversion
    # of a lazily loaded trajectory that fails while the iterator is suspended, an iterator abandoned after one frame
    specs += [
        {"op": "lazy", "what": "interleaved", "files": ["water_trajectory.xyz", "water_trajectory_no_model.pdb"]},
        {"op": "lazy", "what": "interleaved", "files": ["example.sdf", "caffeine.mol2"]},
        {"op": "lazy", "what": "dump-fails", "files": ["water_trajectory.xyz"]},
        {"op": "lazy", "what": "abandoned", "files": ["water_trajectory.xyz"]},
    ]
    specs += [
        {"op": "fail", "what": "load-unknown-extension"}, {"op": "fail", "what": "dump-missing-attr"},
        {"op": "fail", "what": "load-garbage-xyz"}, {"op": "fail", "what": "dump-atnum-zero-xyz"},
        {"op": "fail", "what": "dump-atnum-zero-pdb"}, {"op": "fail", "what": "input-unknown-program"},
    ]
    for i, s in enumerate(specs):
        s["id"] = i
    return specs


def _digest_obj(obj):
    return "OBJ:" + snap.digest(obj)


def _file_digest(path):
    with open(path, "rb") as fh:
        return "BYTES:" + hashlib.sha256(fh.read()).hexdigest()


def execute(spec, workdir):
    """Run one call; all files it writes go to workdir (created fresh). Returns a digest string."""
    import iodata
    from iodata import IOData

    os.makedirs(workdir, exist_ok=True)
    op = spec["op"]
    try:
        with warnings.catch_warnings():
            warnings.simplefilter("ignore")
            if op == "load_one":
                return _digest_obj(iodata.load_one(os.path.join(bootstrap.DATA_DIR, spec["file"]), fmt=spec["fmt"]))
            if op == "load_many":
                frames = list(iodata.load_many(os.path.join(bootstrap.DATA_DIR, spec["file"]), fmt=spec["fmt"]))
                return "OBJ:" + hashlib.sha256("".join(snap.digest(f) for f in frames).encode()).hexdigest() + f":{len(frames)}"
            if op == "dump_one":
                data, _ = go.make(spec["fmt"], gb.rng_for(16, spec["k"], sum(map(ord, spec["fmt"]))), "small")
                path = os.path.join(workdir, go.filename(spec["fmt"]))
                iodata.dump_one(data, path, fmt=go.explicit_fmt(spec["fmt"]), allow_changes=spec["allow"])
                return _file_digest(path)
            if op == "dump_many":
                rng = gb.rng_for(16, 7, spec["k"], sum(map(ord, spec["fmt"])))
                frames = [go.make(spec["fmt"], rng, "small")[0] for _ in range(3)]
                if spec["fmt"] == "mol2":
                    import numpy as np

                    for f in frames:
                        f.atcharges = {"mol2charges": np.zeros(f.natom)}
                path = os.path.join(workdir, go.filename(spec["fmt"], "many"))
                iodata.dump_many(iter(frames), path)
                return _file_digest(path)
            if op == "write_input":
                data, _ = go.make("xyz", gb.rng_for(16, 9, spec["k"]), "small")
                path = os.path.join(workdir, "input.in")
                iodata.write_input(data, path, spec["prog"])
                return _file_digest(path)
            if op == "convert":
                data = iodata.load_one(os.path.join(bootstrap.DATA_DIR, spec["file"]))
                path = os.path.join(workdir, go.filename(spec["dst"], "conv"))
                iodata.dump_one(data, path, allow_changes=spec["allow"])
                return _file_digest(path) + "|" + _digest_obj(iodata.load_one(path))
            if op == "lazy":
                paths = [os.path.join(bootstrap.DATA_DIR, f) for f in spec["files"]]
                if spec["what"] == "interleaved":
                    its = [iodata.load_many(p) for p in paths]
                    digests = []
                    for pair in zip(*its):  # zip stops at the shorter one: the other iterator is left suspended, then collected
                        digests += [snap.digest(f) for f in pair]
                    del its
                    return "OBJ:" + hashlib.sha256("".join(digests).encode()).hexdigest() + f":{len(digests)}"
                if spec["what"] == "dump-fails":
                    try:
                        iodata.dump_many(iodata.load_many(paths[0]), os.path.join(workdir, "no_such_dir", "out.xyz"))
                    except OSError as exc:
                        return f"EXC:{type(exc).__name__}"
                    return "RETURNED"
                it = iodata.load_many(paths[0])
                first = snap.digest(next(it))
                del it
                return "OBJ:" + first
            if op == "fail":
                what = spec["what"]
                if what == "load-unknown-extension":
                    iodata.load_one(os.path.join(workdir, "nothing.unknown_ext"))
                elif what == "dump-missing-attr":
                    iodata.dump_one(IOData(atnums=[1, 1]), os.path.join(workdir, "x.xyz"))
                elif what == "load-garbage-xyz":
                    p = os.path.join(workdir, "g.xyz")
                    with open(p, "w") as fh:
                        fh.write("2\ntitle\nH 0 0 0\nXx a b c\n")
                    iodata.load_one(p)
                elif what in ("dump-atnum-zero-xyz", "dump-atnum-zero-pdb"):
                    # atomic number 0 (a ghost/dummy centre) has no element symbol: the outcome must not depend on history
                    ext = what.rsplit("-", 1)[1]
                    d = IOData(atnums=[0, 1], atcoords=[[0.0, 0.0, 0.0], [0.0, 0.0, 1.0]], extra={})
                    p = os.path.join(workdir, f"z.{ext}")
                    iodata.dump_one(d, p)
                    return _file_digest(p)
                elif what == "input-unknown-program":
                    iodata.write_input(IOData(atnums=[1], atcoords=[[0, 0, 0]]), os.path.join(workdir, "i.in"), "nope")
                return "RETURNED"
    except Exception as exc:
        msg = str(exc).replace(workdir, "<WORKDIR>").replace(os.path.dirname(workdir), "<TMP>")
        return f"EXC:{type(exc).__name__}:{msg}".replace("\n", "\\n")
    raise ValueError(op)


def gen_specs(writer, tier):
    """Call specs on generated files: every model class of one specification-following writer (shared with C03)."""
    from ..ref import spec_writers

    mod = spec_writers.all_writers()[writer]
    out = []
    for klass in mod.CLASSES:
        for rep in range(1 if tier == "quick" else 2):
            out.append({"op": "load_gen", "writer": writer, "klass": klass, "rep": rep})
    return out


_SHARED = {}
SHARED_WFN_TARGETS = ["molden", "fchk", "molekel", "wfn", "wfx", "xyz", "molden"]
SHARED_MOL_TARGETS = ["xyz", "pdb", "mol2", "sdf", "json_qcschema", "xyz"]


def shared_object(j):
    """Object number j of the shared pool: built once per interpreter and handed to every dump that names it, the way a script
    converts one loaded object to several formats.  0..3: wavefunctions whose shells are NOT grouped by atom; 4, 5: molecules."""
    if j not in _SHARED:
        rng = gb.rng_for(16, 13, j)
        if j < 4:
            from ..gen import wfnobjects as wo

            _SHARED[j], _ = wo.make(rng, "wfn", nbasis_max=16, lmax=1, spin=["restricted", "unrestricted", "rohf", "restricted"][j],
                                    shell_order="shuffled", contraction="segmented", ghosts="none", natom=3 + j % 2)
        else:
            _SHARED[j], _ = go.make(["sdf", "mol2"][j - 4], rng, "medium")
    return _SHARED[j]


def dump_specs(fmt, tier):
    """Call specs dumping generated objects of every class of one format (plus wavefunction objects needing conversion)."""
    out = []
    if fmt == "shared":
        for j in range(6):
            for t, target in enumerate(SHARED_WFN_TARGETS if j < 4 else SHARED_MOL_TARGETS):
                out.append({"op": "dump_gen", "fmt": target, "klass": f"shared:{j}:{t}", "k": j, "allow": True, "shared": j})
        return out
    for klass in ("small", "medium", "wide"):
        for k in range(2 if tier == "quick" else 4):
            out.append({"op": "dump_gen", "fmt": fmt, "klass": klass, "k": k, "allow": False})
    if fmt in ("fchk", "molden", "molekel", "wfn", "wfx"):
        for k, spin in enumerate(["restricted", "rohf", "unrestricted", "aminusb", "aminusb_zero", "fractional"]):
            out.append({"op": "dump_gen", "fmt": fmt, "klass": "wfn:" + spin, "k": k, "allow": True})
    return out


def execute_dump(spec, workdir):
    import iodata

    fmt = spec["fmt"]
    rng = gb.rng_for(16, 11, spec["k"], sum(map(ord, fmt + spec["klass"])))
    if "shared" in spec:
        data = shared_object(spec["shared"])
    elif spec["klass"].startswith("wfn:"):
        from ..gen import wfnobjects as wo

        data, _ = wo.make(rng, fmt, nbasis_max=14, spin=spec["klass"][4:], ghosts="none" if fmt == "molekel" else None)
    else:
        data, _ = go.make(fmt, rng, spec["klass"])
    os.makedirs(workdir, exist_ok=True)
    path = os.path.join(workdir, go.filename(fmt))
    with warnings.catch_warnings():
        warnings.simplefilter("ignore")
        try:
            iodata.dump_one(data, path, fmt=go.explicit_fmt(fmt), allow_changes=spec["allow"])
            return _file_digest(path)
        except Exception as exc:
            return f"EXC:{type(exc).__name__}:" + str(exc).replace(workdir, "<WORKDIR>").replace("\n", "\\n")


def execute_gen(spec, workdir):
    """Write the generated file of a spec into workdir and load it (load_one, and load_many where the format has it)."""
    import iodata

    if spec["op"] == "dump_gen":
        return execute_dump(spec, workdir)

    from ..ref import spec_writers

    mod = spec_writers.all_writers()[spec["writer"]]
    rng = gb.rng_for(16, 5, spec["rep"], sum(map(ord, spec["writer"] + spec["klass"])))
    model = mod.generate(rng, spec["klass"])
    os.makedirs(workdir, exist_ok=True)
    path = os.path.join(workdir, getattr(mod, "filename", lambda m: mod.FILENAME)(model))
    with open(path, "w") as fh:
        fh.write(mod.write(model))
    fmt = mod.FORMAT if getattr(mod, "EXPLICIT_FMT", False) else None
    kwargs = getattr(mod, "load_kwargs", lambda m: {})(model)
    parts = []
    with warnings.catch_warnings():
        warnings.simplefilter("ignore")
        try:
            obj = iodata.load_one(path, fmt=fmt, **kwargs)
            parts.append(_digest_obj(obj))
            if hasattr(iodata.api.FORMAT_MODULES[mod.FORMAT], "dump_one"):
                # the conversion of the file to its own format: bytes written
                out = os.path.join(workdir, "rewritten_" + os.path.basename(path))
                try:
                    iodata.dump_one(obj, out, fmt=mod.FORMAT, allow_changes=True)
                    parts.append("REWRITE:" + _file_digest(out))
                except Exception as exc:
                    parts.append(f"REWRITE-EXC:{type(exc).__name__}:" + str(exc).replace(workdir, "<WORKDIR>").replace("\n", "\\n"))
        except Exception as exc:
            parts.append(f"EXC:{type(exc).__name__}:" + str(exc).replace(workdir, "<WORKDIR>").replace("\n", "\\n"))
        if hasattr(iodata.api.FORMAT_MODULES[mod.FORMAT], "load_many"):
            try:
                frames = list(iodata.load_many(path, fmt=fmt, **kwargs))
                parts.append("MANY:" + hashlib.sha256("".join(snap.digest(f) for f in frames).encode()).hexdigest() + f":{len(frames)}")
            except Exception as exc:
                parts.append(f"EXC:{type(exc).__name__}:" + str(exc).replace(workdir, "<WORKDIR>").replace("\n", "\\n"))
    return "|".join(parts)


def baseline_gen(specs, root):
    out = {}
    procs = []
    # the fresh interpreters run under ANOTHER string-hash seed than this one (results must not depend on set / dict iteration order)
    env = dict(os.environ, VF_REPO=bootstrap.REPO, PYTHONHASHSEED="1" if os.environ.get("PYTHONHASHSEED", "0") != "1" else "2")
    for k, spec in enumerate(specs):
        wd = os.path.join(root, f"gbase{k}")
        p = subprocess.Popen([sys.executable, "-m", "vf.checks.c16", "--exec-gen", json.dumps(spec), wd], cwd=bootstrap.VERIF_ROOT, env=env,
                             stdout=subprocess.PIPE, stderr=subprocess.PIPE, text=True)
        procs.append((k, p))
        if len(procs) >= 4:
            k0, p0 = procs.pop(0)
            o, e = p0.communicate(timeout=600)
            out[k0] = _parse(o, e)
    for k0, p0 in procs:
        o, e = p0.communicate(timeout=600)
        out[k0] = _parse(o, e)
    return out


def case_format_history(case):
    """All generated files of ONE format loaded in shuffled orders with repetitions in one interpreter: state that a reader
    keeps between calls (lookup tables filled while parsing, caches keyed by less than the arguments) shows as a digest that
    differs from the one obtained alone in a fresh interpreter."""
    specs = dump_specs(case["writer"][5:], case["tier"]) if case["writer"].startswith("dump:") else gen_specs(case["writer"], case["tier"])
    rng = gb.rng_for(16, case["seed"], 3, sum(map(ord, case["writer"])))
    root = tempfile.mkdtemp(prefix="vf_c16g_")
    viols, feats = [], []
    counters = {"baseline_subprocesses": 0, "calls_in_history": 0, "digest_comparisons": 0, "table_snapshots": 0, "format_histories": 1}
    try:
        base = baseline_gen(specs, root)
        counters["baseline_subprocesses"] = len(base)
        for k, dg in base.items():
            if dg.startswith("NO-DIGEST"):
                return {"status": "inconclusive", "reason": f"baseline subprocess of {specs[k]} gave no digest: {dg}"}
        seq = []
        for _round in range(3):
            seq += [int(i) for i in rng.permutation(len(specs))]
        t0 = tables.tables_snapshot()
        for pos, k in enumerate(seq):
            dg = execute_gen(specs[k], os.path.join(root, f"gbase{k}"))  # the same path as in the baseline run
            counters["calls_in_history"] += 1
            counters["digest_comparisons"] += 1
            if dg != base[k]:
                prev = [specs[j]["klass"] for j in seq[max(0, pos - 3):pos]]
                viols.append(_v(f"history-dependent:{'dump' if specs[k]['op'] == 'dump_gen' else 'load'}:{case['writer']}", f"{specs[k]['op']} of a generated {case['writer']} case (class {specs[k]['klass']}) at "
                                f"position {pos} of a shuffled history gives {dg[:100]} but {base[k][:100]} alone in a fresh interpreter; "
                                f"preceding classes: {prev}"))
            t1 = tables.tables_snapshot()
            counters["table_snapshots"] += 1
            dd = tables.tables_diff(t0, t1)
            if dd:
                viols.append(_v(f"module-table-modified:{dd[0][0].split('[')[0]}", f"module table changed by loading {specs[k]}: {dd[0]}"))
                t0 = t1
            feats.append(f"format-history:{case['writer']}:{specs[k]['klass']}")
    finally:
        shutil.rmtree(root, ignore_errors=True)
    bykey = {}
    for v in viols:
        bykey.setdefault(v["key"], v)
    sample = {"kind": "format_history", "writer": case["writer"], "files": len(specs), "history_length": len(seq)}
    return {"status": "violation" if viols else "ok", "violations": list(bykey.values()), "features": sorted(set(feats)), "counters": counters,
            "sample": sample}


FLOAT_TOKEN = __import__("re").compile(r"(?<![\w.])[-+]?(?:\d+\.\d*|\.\d+)(?:[eEdD][-+]?\d+)?(?![\w.])")
FIB = [0, 1, 2, 3, 5, 8, 13, 21, 34, 55, 89, 144, 233, 377, 610, 987]


def damaged_variants(text):
    """(label, text) variants of a file in which ONE real number is replaced by 0.0, -1.0 or 1.0e400 (positions 0, 1, 2, 3, 5, 8,
    13, ... of the real-number tokens), plus the file cut in the middle: the inputs of calls that fail, or succeed oddly."""
    toks = list(FLOAT_TOKEN.finditer(text))
    out = []
    for pos in FIB:
        if pos >= len(toks):
            break
        m = toks[pos]
        for name, repl in (("zero", "0.0"), ("neg", "-1.0"), ("huge", "1.0e400")):
            width = m.end() - m.start()
            out.append((f"{name}@{pos}", text[:m.start()] + repl.rjust(width)[:max(width, len(repl))] + text[m.end():]))
        # the same number replaced wherever it occurs (a repeated exponent, a repeated coordinate): a consistent damage
        same = [t for t in toks if t.group() == m.group()]
        if 1 < len(same) <= 12:
            bad = text
            for t in reversed(same):
                bad = bad[:t.start()] + "0.0".rjust(t.end() - t.start()) + bad[t.end():]
            out.append((f"zero-everywhere@{pos}", bad))
    lines = text.splitlines(keepends=True)
    out.append(("cut", "".join(lines[:max(1, len(lines) // 2)])))
    return out


def case_failure_history(case):
    """Hundreds of loads of damaged files (most of them failing) in one interpreter: after every one the module tables and
    the interpreter-global settings must be what they were, and a fixed set of healthy calls repeated in between must keep
    giving the digests they give alone in a fresh interpreter."""
    import iodata

    specs = pool()
    healthy = [s["id"] for s in specs if s["op"] in ("load_one", "convert")][case["part"]::case["nparts"]][:10]
    byfmt = {}
    for e in sorted(corpus.entries(max_cost=0.25, max_size=60_000), key=lambda e: e["size"]):
        byfmt.setdefault(e["fmt"], [])
        if len(byfmt[e["fmt"]]) < 2:
            byfmt[e["fmt"]].append(e)  # the two smallest files of every format
    victims = [e for _f, lst in sorted(byfmt.items()) for e in lst][case["part"]::case["nparts"]]
    root = tempfile.mkdtemp(prefix="vf_c16f_")
    viols, feats = [], []
    counters = {"baseline_subprocesses": 0, "damaged_loads": 0, "damaged_load_failures": 0, "digest_comparisons": 0, "table_snapshots": 0,
                "failure_histories": 1}
    try:
        base = baseline(healthy, root)
        counters["baseline_subprocesses"] = len(base)
        for sid, dg in base.items():
            if dg.startswith("NO-DIGEST"):
                return {"status": "inconclusive", "reason": f"baseline subprocess of call {sid} gave no digest: {dg}"}
        t0 = tables.tables_snapshot()
        ncall = 0
        for e in victims:
            with open(e["path"], errors="replace") as fh:
                text = fh.read()
            for label, bad in damaged_variants(text):
                path = os.path.join(root, os.path.basename(e["path"]))
                with open(path, "w") as fh:
                    fh.write(bad)
                with warnings.catch_warnings():
                    warnings.simplefilter("ignore")
                    try:
                        iodata.load_one(path, fmt=e["fmt"] if e["explicit"] else None)
                    except Exception:
                        counters["damaged_load_failures"] += 1
                counters["damaged_loads"] += 1
                ncall += 1
                t1 = tables.tables_snapshot()
                counters["table_snapshots"] += 1
                dd = tables.tables_diff(t0, t1)
                if dd:
                    viols.append(_v(f"module-table-modified:{dd[0][0].split('[')[0]}", f"loading {e['file']} damaged by {label} left "
                                    f"{dd[0][0]} changed: {dd[0][1]} -> {dd[0][2]}"))
                    t0 = t1
                if ncall % 40 == 0 or label == "cut":
                    for sid in healthy:
                        dg = execute(specs[sid], os.path.join(root, f"h{ncall}_{sid}"))
                        counters["digest_comparisons"] += 1
                        if dg != base[sid]:
                            viols.append(_v(f"history-dependent:{specs[sid]['op']}", f"call {describe(specs[sid])} after {ncall} loads of damaged files "
                                            f"(last: {e['file']} {label}) gives {dg[:120]} but {base[sid][:120]} alone in a fresh interpreter"))
            feats.append(f"failure-history:{e['fmt']}")
    finally:
        shutil.rmtree(root, ignore_errors=True)
    bykey = {}
    for v in viols:
        bykey.setdefault(v["key"], v)
    sample = {"kind": "failure_history", "formats": [e["fmt"] for e in victims], "damaged_loads": counters["damaged_loads"]}
    return {"status": "violation" if viols else "ok", "violations": list(bykey.values()), "features": feats, "counters": counters, "sample": sample}


def baseline(spec_ids, root):
    """Digest of each call alone in a fresh interpreter."""
    out = {}
    procs = []
    env = dict(os.environ, VF_REPO=bootstrap.REPO, PYTHONHASHSEED="1" if os.environ.get("PYTHONHASHSEED", "0") != "1" else "2")
    for sid in spec_ids:
        wd = os.path.join(root, f"base{sid}")
        p = subprocess.Popen([sys.executable, "-m", "vf.checks.c16", "--exec", str(sid), wd], cwd=bootstrap.VERIF_ROOT, env=env,
                             stdout=subprocess.PIPE, stderr=subprocess.PIPE, text=True)
        procs.append((sid, p))
        if len(procs) >= 4:
            sid0, p0 = procs.pop(0)
            o, e = p0.communicate(timeout=600)
            out[sid0] = _parse(o, e)
    for sid0, p0 in procs:
        o, e = p0.communicate(timeout=600)
        out[sid0] = _parse(o, e)
    return out


def _parse(stdout, stderr):
    for line in stdout.splitlines():
        if line.startswith("DIGEST "):
            return line[7:]
    return "NO-DIGEST:" + stderr[-300:]


def plan(tier, seed):
    n = len(pool())
    cases = []
    nh = 16 if tier == "quick" else 120
    for i in range(nh):
        cases.append({"kind": "history", "i": i, "seed": seed, "npool": n})
    for i, nt in enumerate([2, 4, 8, 16] * (2 if tier == "quick" else 10)):
        cases.append({"kind": "threads", "i": i, "nthreads": nt, "seed": seed, "npool": n})
    from ..ref import spec_writers

    for name in sorted(spec_writers.all_writers()):
        cases.append({"kind": "format_history", "writer": name, "seed": seed, "tier": tier})
    for fmt in go.DUMP_FORMATS:
        cases.append({"kind": "format_history", "writer": "dump:" + fmt, "seed": seed, "tier": tier})
    # one object converted to several formats in one interpreter (shuffled, repeated) against each dump alone in a fresh interpreter
    cases.append({"kind": "format_history", "writer": "dump:shared", "seed": seed, "tier": tier})
    nparts = 8
    for part in range(nparts):
        cases.append({"kind": "failure_history", "part": part, "nparts": nparts})
    return cases


def _v(key, msg, **kw):
    d = {"key": key, "msg": msg}
    d.update(kw)
    return d


def describe(spec):
    return {k: v for k, v in spec.items() if k != "id"}


def run_case(case):
    if case["kind"] == "format_history":
        return case_format_history(case)
    if case["kind"] == "failure_history":
        return case_failure_history(case)
    specs = pool()
    rng = gb.rng_for(16, case["seed"], case["i"], 1 if case["kind"] == "history" else 2)
    chosen = sorted(int(i) for i in rng.choice(len(specs), size=min(12, len(specs)), replace=False))
    root = tempfile.mkdtemp(prefix="vf_c16_")
    viols, feats = [], []
    counters = {"baseline_subprocesses": 0, "calls_in_history": 0, "digest_comparisons": 0, "table_snapshots": 0, "thread_calls": 0,
                "line_events": 0, "yields": 0, "context_switches": 0, "distinct_yield_points": 0, "observed_warnings_machinery_replaced": 0}
    try:
        base = baseline(chosen, root)
        counters["baseline_subprocesses"] = len(base)
        for sid, dg in base.items():
            if dg.startswith("NO-DIGEST"):
                return {"status": "inconclusive", "reason": f"baseline subprocess of call {sid} gave no digest: {dg}"}
        if case["kind"] == "history":
            seq = []
            for _round in range(3):
                order = [chosen[i] for i in rng.permutation(len(chosen))]
                seq += order
            t0 = tables.tables_snapshot()
            tables.warnings_machinery_replaced()
            counters["table_snapshots"] += 1
            for pos, sid in enumerate(seq):
                dg = execute(specs[sid], os.path.join(root, f"h{pos}"))
                counters["calls_in_history"] += 1
                counters["digest_comparisons"] += 1
                if dg != base[sid]:
                    prev = [describe(specs[s]) for s in seq[max(0, pos - 3):pos]]
                    viols.append(_v(f"history-dependent:{specs[sid]['op']}", f"call {describe(specs[sid])} at position {pos} of a shuffled history gives "
                                    f"{dg[:120]} but {base[sid][:120]} alone in a fresh interpreter; preceding calls: {prev}"))
                t1 = tables.tables_snapshot()
                counters["table_snapshots"] += 1
                dd = tables.tables_diff(t0, t1)
                if dd:
                    viols.append(_v(f"module-table-modified:{dd[0][0].split('[')[0]}", f"module table changed by call {describe(specs[sid])}: {dd[0]}"))
                    t0 = t1
                feats.append(f"history:{sid}:{'first' if pos < len(chosen) else 'repeat'}")
        else:
            nt = case["nthreads"]
            results = {}
            errors = []
            t0 = tables.tables_snapshot()
            tables.warnings_machinery_replaced()

            def worker(tid):
                try:
                    order = [chosen[i] for i in gb.rng_for(16, case["seed"], case["i"], 100 + tid).permutation(len(chosen))]
                    for pos, sid in enumerate(order):
                        results[(tid, pos, sid)] = execute(specs[sid], os.path.join(root, f"t{tid}_{pos}"))
                except BaseException as exc:  # noqa: BLE001
                    errors.append(repr(exc))

            p = 0.02 if nt <= 4 else 0.01
            with tables.YieldInjector(bootstrap.REPO, p=p, seed=case["i"]) as inj:
                threads = [threading.Thread(target=worker, args=(t,)) for t in range(nt)]
                for th in threads:
                    th.start()
                for th in threads:
                    th.join()
            counters["line_events"] = inj.events
            counters["yields"] = inj.yields
            counters["context_switches"] = inj.context_switches
            counters["distinct_yield_points"] = len(inj.switch_points)
            if errors:
                return {"status": "inconclusive", "reason": f"thread died in the harness: {errors[:2]}"}
            for (tid, pos, sid), dg in sorted(results.items()):
                counters["thread_calls"] += 1
                counters["digest_comparisons"] += 1
                if dg != base[sid]:
                    viols.append(_v(f"schedule-dependent:{specs[sid]['op']}", f"call {describe(specs[sid])} in thread {tid} of {nt} gives {dg[:120]} "
                                    f"but {base[sid][:120]} alone in a fresh interpreter"))
                feats.append(f"threads={nt}:{sid}")
            dd = tables.tables_diff(t0, tables.tables_snapshot())
            counters["table_snapshots"] += 2
            if dd:
                viols.append(_v(f"module-table-modified:{dd[0][0].split('[')[0]}", f"module table changed during the threaded run: {dd[0]}"))
            if inj.context_switches < 2:
                return {"status": "inconclusive", "reason": "fewer than 2 context switches observed"}
        # observation only (not part of the statement): is the warnings machinery still the original one?
        counters["observed_warnings_machinery_replaced"] = int(tables.warnings_machinery_replaced(repair=True))
    finally:
        shutil.rmtree(root, ignore_errors=True)
    bykey = {}
    for v in viols:
        bykey.setdefault(v["key"], v)
    sample = {"kind": case["kind"], "calls": [describe(specs[s]) for s in chosen[:5]], "nthreads": case.get("nthreads")}
    return {"status": "violation" if viols else "ok", "violations": list(bykey.values()), "features": sorted(set(feats)), "counters": counters,
            "sample": sample}


def finish(results, tier):
    tot = {}
    for r in results:
        for k, v in (r.get("counters") or {}).items():
            tot[k] = tot.get(k, 0) + v
    out = {"pool_size": len(pool())}
    if tot.get("context_switches", 0) < 2 or tot.get("calls_in_history", 0) == 0:
        out["inconclusive"] = "no interleaving / no history executed"
    return out


if __name__ == "__main__":
    # subprocess entry point: python -m vf.checks.c16 --exec <spec id> <workdir>
    if len(sys.argv) == 4 and sys.argv[1] == "--exec":
        bootstrap.init()
        warnings.simplefilter("ignore")
        spec = pool()[int(sys.argv[2])]
        print("DIGEST " + execute(spec, sys.argv[3]))
    if len(sys.argv) == 4 and sys.argv[1] == "--exec-gen":
        bootstrap.init()
        warnings.simplefilter("ignore")
        print("DIGEST " + execute_gen(json.loads(sys.argv[2]), sys.argv[3]))
