"""C04 - every physical quantity is in atomic units, consistently across formats.

(i)   the conversion constants of iodata.utils against CODATA literals (R.units);
(ii)  numbers PRINTED by the real writers: value_au / unit_of_format must appear in the written file (scan of the file's numbers);
(iii) conversion chains A -> B for all ordered pairs of the 13 read/write formats: load(dump_B(load(dump_A(x)))) keeps every
      quantity both formats carry (coordinates, cell vectors, masses, energies, gradients, core charges);
(iv)  files of all 25 readable formats written by the independent spec writers (expectations in atomic units by R.units) are
      loaded and converted to other formats: the quantities must still equal the spec writer's atomic-unit values;
(v)   corpus files describing the same system in two formats load to the same numbers.
A mismatch is classified by the unit factor it corresponds to (angstrom, nm, amu, eV, Debye, kcal/mol, ... and powers).
"""

import itertools
import os
import re
import shutil
import tempfile
import warnings

import numpy as np

from .. import bootstrap
from ..gen import basis as gb
from ..gen import corpus
from ..gen import objects as go
from ..ref import spec_writers, units
from ..ref.spec_writers import base

PROPERTY = "C04"
LEVEL = "exploration"
RULE = (
    "(quantity, source format, target format) triples: coordinates for all ordered pairs of the 13 read/write formats that carry "
    "them, masses (fchk, qcschema, charmm, gamess, qchem, extxyz), cell vectors (poscar, chgcar, locpot, gro, cube, extxyz), "
    "energies / gradients / core charges where carried; source files from the spec writers for all 25 readable formats; printed "
    "numbers of every writer; 10 constants; same-system corpus pairs. distinct = distinct (part, quantity, source, target); "
    "non-trivial = a quantity was compared for the pair."
)
ASSUMPTIONS = ["CODATA 2018 literals (R.units), 1e-8 relative consistency tolerance", "spec writers' atomic-unit expectations (C03)"]
TIMEOUT = {"quick": 1500, "thorough": 7200}
GEOM_FORMATS = ["xyz", "pdb", "mol2", "sdf", "poscar", "cube", "json_qcschema", "fchk", "molden", "molekel", "wfn", "wfx"]
PAIRS = [("cah110_hf_sto3g_g09.wfn", "cah110_hf_sto3g_g09.wfx"), ("h2o_sto3g.fchk", "h2o_sto3g.wfn"), ("he_s_orbital.fchk", "he_s_orbital.wfn"),
         ("he_spdfgh_orbital.fchk", "he_spdfgh_orbital.wfn"), ("he_spdfgh_virtual.fchk", "he_spdfgh_virtual.wfn"),
         ("lih_cation_uhf.wfn", "lih_cation_uhf.wfx"), ("lih_cation_rohf.wfn", "lih_cation_rohf.wfx"), ("lih_cation_cisd.wfn", "lih_cation_cisd.wfx"),
         ("water_sto3g_hf_g03.fchk", "water_sto3g_hf_g03.log"), ("li2.mkl", "li2.molden.input"), ("water.xyz", "water_number.xyz"),
         ("ch3_rohf_sto3g_g03.fchk", "ch3_rohf_sto3g_g03_fchk_multiwfn3.7.mwfn"), ("water_trajectory.xyz", "water_trajectory.pdb")]


def plan(tier, seed):
    cases = [{"kind": "constants"}]
    for fmt in GEOM_FORMATS + ["fcidump"]:
        for i in range(2 if tier == "quick" else 150):
            cases.append({"kind": "printed", "fmt": fmt, "i": i, "seed": seed})
    for a, b in itertools.permutations(GEOM_FORMATS, 2):
        for i in range(1 if tier == "quick" else 40):
            cases.append({"kind": "chain", "a": a, "b": b, "i": i, "seed": seed})
    for w, mod in sorted(spec_writers.all_writers().items()):
        for i in range(1 if tier == "quick" else 40):
            cases.append({"kind": "spec", "writer": w, "i": i, "seed": seed})
        if w in ("gamess", "qchemlog", "charmm", "extxyz", "gromacs", "fchk", "json_qcschema", "chgcar", "locpot", "cube", "poscar", "gaussianinput"):
            # formats carrying masses, cells, grids, moments: every class (directed reproduction of the unit findings)
            for klass in mod.CLASSES:
                if klass not in getattr(mod, "NOT_ASSERTED", {}):
                    cases.append({"kind": "spec", "writer": w, "i": 0, "seed": seed, "klass": klass})
    # coordinates of wavefunction files whose unit cannot be cross-checked by the reader's normalisation test
    for i in range(3 if tier == "quick" else 40):
        cases.append({"kind": "spec", "writer": "molden", "i": 1000 + i, "seed": seed, "klass": "distant_atoms_paren_units"})
    for p in PAIRS:
        cases.append({"kind": "pair", "a": p[0], "b": p[1]})
    return cases


def _v(key, msg, **kw):
    d = {"key": key, "msg": msg}
    d.update(kw)
    return d


def ratio_key(prefix, q, got, want):
    """Mechanism key: by unit factor when the ratio is recognisable."""
    try:
        g = np.asarray(got, dtype=float).ravel()
        w = np.asarray(want, dtype=float).ravel()
        m = (np.abs(w) > 1e-8) & np.isfinite(g) & np.isfinite(w)
        if m.any():
            r = g[m] / w[m]
            if np.abs(r / r[0] - 1).max() < 1e-6:
                name = units.named_ratio(float(r[0]))
                if name:
                    return f"{prefix}:unit:{q}:{name}", f"ratio loaded/expected = {r[0]:.9g} = {name}"
                return f"{prefix}:{q}", f"ratio loaded/expected = {r[0]:.9g}"
    except Exception:
        pass
    return f"{prefix}:{q}", "no common ratio"


def close(a, b, atol, rtol):
    a = np.asarray(a, dtype=float)
    b = np.asarray(b, dtype=float)
    return a.shape == b.shape and bool((np.abs(a - b) <= atol + rtol * np.abs(b)).all())


def case_constants(case):
    import iodata.utils as u

    viols = []
    n = 0
    for name, ref in units.CONSTANTS.items():
        n += 1
        got = getattr(u, name, None)
        if got is None or abs(got / ref - 1) > 1e-8:
            viols.append(_v(f"constant:{name}", f"iodata.utils.{name} = {got!r}, CODATA value {ref!r} (relative difference {abs(got / ref - 1) if got else 'n/a'})"))
    # relations between the constants
    rel = [("nanometer", u.nanometer / u.angstrom, 10.0), ("picosecond", u.picosecond / u.second, 1e-12), ("kcalmol", u.kcalmol / u.calmol, 1e3),
           ("kjmol", u.kcalmol / u.kjmol, 4.184), ("meter", u.meter / u.angstrom, 1e10)]
    for name, got, want in rel:
        n += 1
        if abs(got / want - 1) > 1e-12:
            viols.append(_v(f"constant:{name}", f"relation for {name}: {got!r} expected {want!r}"))
    return viols, [f"constant:{k}" for k in units.CONSTANTS], {"constants_checked": n}, {"constants": list(units.CONSTANTS)}


FLOAT = re.compile(r"[-+]?(?:\d+\.\d*|\.\d+|\d+)(?:[eEdD][-+]?\d+)?")


def file_numbers(text):
    out = []
    for m in FLOAT.finditer(text.replace(",", " ")):
        try:
            out.append(float(m.group(0).replace("D", "E").replace("d", "e")))
        except ValueError:
            pass
    return np.array(out)


# unit in which each writer must print (format specification): quantity -> {format: unit factor (value_au = number * unit)}
PRINT_UNITS = {
    "atcoords": {"xyz": units.angstrom, "pdb": units.angstrom, "mol2": units.angstrom, "sdf": units.angstrom, "cube": 1.0, "json_qcschema": 1.0,
                 "fchk": 1.0, "molden": 1.0, "molekel": units.angstrom, "wfn": 1.0, "wfx": 1.0},
    "cellvecs": {"poscar": units.angstrom},
    "atmasses": {"fchk": units.amu, "json_qcschema": units.amu},
    "energy": {"fchk": 1.0, "wfn": 1.0, "wfx": 1.0},
}
PRINT_PREC = {"xyz": 1e-9, "pdb": 1e-3, "mol2": 1e-4, "sdf": 1e-4, "cube": 1e-6, "json_qcschema": 1e-12, "fchk": 1e-7, "molden": 1e-12, "molekel": 1e-6,
              "wfn": 1e-7, "wfx": 1e-12, "poscar": 1e-9}


def case_printed(case):
    import iodata

    fmt = case["fmt"]
    rng = gb.rng_for(4, 1, case["seed"], case["i"], sum(map(ord, fmt)))
    data, feats = go.make(fmt, rng, "small")
    viols, featlist = [], []
    counters = {"files_scanned": 0, "printed_numbers_checked": 0}
    root = tempfile.mkdtemp(prefix="vf_c04p_")
    try:
        if fmt == "fchk" and data.atmasses is None:
            data.atmasses = np.round(rng.uniform(1, 200, size=data.natom), 5) * units.amu
        if fmt == "json_qcschema" and data.atmasses is None and "masses" not in (data.extra.get("molecule") or {}):
            # (a donor whose extra['molecule'] passes 'masses' through keeps those: documented pass-through)
            data.atmasses = np.round(rng.uniform(1, 200, size=data.natom), 5) * units.amu
        path = os.path.join(root, go.filename(fmt))
        with warnings.catch_warnings():
            warnings.simplefilter("ignore")
            try:
                iodata.dump_one(data, path, fmt=go.explicit_fmt(fmt), allow_changes=True)
            except Exception:
                return [], [], counters, None
        nums = file_numbers(open(path).read())
        counters["files_scanned"] += 1
        for q, table in PRINT_UNITS.items():
            if fmt not in table:
                continue
            val = getattr(data, q)
            if val is None:
                continue
            if fmt == "json_qcschema" and q == "atmasses" and "masses" in (data.extra.get("molecule") or {}):
                continue
            unit = table[fmt]
            vals = np.atleast_1d(np.asarray(val, dtype=float)).ravel()
            # distinctive values only (avoid accidental matches with small integers)
            picks = [v for v in vals if abs(v) > 0.3 and abs(v / unit - round(v / unit)) > 1e-3][:6]
            for v in picks:
                want = v / unit
                counters["printed_numbers_checked"] += 1
                tol = max(PRINT_PREC.get(fmt, 1e-6), abs(want) * (1e-7 if fmt in ("fchk", "wfn") else 2e-9))
                if not (np.abs(nums - want) <= tol).any():
                    # which unit WAS used?
                    used = None
                    for name, u in (("bohr", 1.0), ("angstrom", units.angstrom), ("nanometer", units.nanometer), ("amu", units.amu),
                                    ("electronvolt", units.electronvolt)):
                        if (np.abs(nums - v / u) <= max(tol, abs(v / u) * 1e-7)).any():
                            used = name
                    viols.append(_v(f"printed:{fmt}:{q}:{used or 'absent'}", f"{fmt} writer: {q} value {v!r} a.u. should be printed as {want!r} "
                                    f"({'found in ' + used if used else 'not found in the file'})"))
                    break
            featlist.append(f"printed:{fmt}:{q}")
    finally:
        shutil.rmtree(root, ignore_errors=True)
    return viols, featlist, counters, {"fmt": fmt, "quantities": [f.split(":")[2] for f in featlist]}


def quantities(d):
    """Dimensional quantities carried by an object: name -> array."""
    out = {}
    for q in ("atcoords", "atmasses", "cellvecs", "energy", "atgradient", "atcorenums"):
        v = getattr(d, q)
        if v is not None:
            out[q] = np.asarray(v, dtype=float)
    return out


CARRIES = {
    "atcoords": set(GEOM_FORMATS) - {"fcidump"},
    "atmasses": {"fchk", "json_qcschema"},
    "cellvecs": {"poscar"},
    "energy": {"fchk", "wfn", "wfx", "json_qcschema"},
    "atgradient": {"fchk", "wfx"},
    "atcorenums": {"fchk", "cube", "wfx", "molden"},
}
QTOL = {"xyz": 1e-9, "pdb": 1.1e-3, "mol2": 1.1e-4, "sdf": 1.1e-4, "poscar": 1e-8, "cube": 1.1e-6, "json_qcschema": 1e-10, "fchk": 0.0, "molden": 1e-12,
        "molekel": 1.1e-6, "wfn": 1e-7, "wfx": 1e-11}
QRTOL = {"fchk": 1.1e-8}


def reorder_for(fmt, d):
    """POSCAR groups atoms by element (documented): the comparison uses the same grouping."""
    if fmt != "poscar":
        return None
    return np.concatenate([np.nonzero(d.atnums == z)[0] for z in sorted(np.unique(d.atnums))[::-1]])


def case_chain(case):
    import iodata

    a, b = case["a"], case["b"]
    rng = gb.rng_for(4, 2, case["seed"], case["i"], sum(map(ord, a + "|" + b)))
    x, feats = go.make(a, rng, "small")
    if a == "poscar" or b == "poscar":
        if x.cellvecs is None:
            x.cellvecs = (np.round(rng.normal(size=(3, 3)), 6) + 4 * np.eye(3)) * units.angstrom
    if b == "cube" and x.cube is None:
        from iodata.utils import Cube

        x.cube = Cube(origin=np.zeros(3), axes=np.eye(3) * 0.3, data=np.round(rng.normal(size=(2, 2, 2)), 5))
    if b in ("fchk", "json_qcschema") and x.atmasses is None and a in ("fchk", "json_qcschema"):
        x.atmasses = np.round(rng.uniform(1, 200, size=x.natom), 5) * units.amu
    viols, feats_out = [], []
    counters = {"chains": 0, "quantities_compared": 0, "not_convertible": 0}
    root = tempfile.mkdtemp(prefix="vf_c04c_")
    try:
        pa = os.path.join(root, go.filename(a, "a"))
        pb = os.path.join(root, go.filename(b, "b"))
        with warnings.catch_warnings():
            warnings.simplefilter("ignore")
            try:
                iodata.dump_one(x, pa, fmt=go.explicit_fmt(a), allow_changes=True)
                xa = iodata.load_one(pa, fmt=go.explicit_fmt(a))
                if b == "json_qcschema" and "schema_name" not in xa.extra:
                    xa.extra = dict(xa.extra)
                    xa.extra["schema_name"] = "qcschema_molecule"
                    xa.extra.setdefault("schema_version", 2)
                    xa.extra.setdefault("molecule", {})
                    if xa.charge is None:
                        xa.charge = 0
                    if xa.spinpol is None:
                        xa.spinpol = 0
                if b == "pdb" and xa.extra is None:
                    xa.extra = {}
                if b == "poscar" and xa.cellvecs is None:
                    xa.cellvecs = x.cellvecs
                if b == "cube" and xa.cube is None:
                    xa.cube = x.cube
                if b in ("molden", "molekel", "wfn", "wfx") and (xa.mo is None or xa.obasis is None):
                    counters["not_convertible"] += 1
                    return [], [], counters, None
                iodata.dump_one(xa, pb, fmt=go.explicit_fmt(b), allow_changes=True)
                xb = iodata.load_one(pb, fmt=go.explicit_fmt(b))
            except (iodata.utils.PrepareDumpError, iodata.utils.DumpError, iodata.utils.LoadError):
                counters["not_convertible"] += 1
                return [], [], counters, None
        counters["chains"] += 1
        q0 = quantities(x)
        qb = quantities(xb)
        order = None
        for fmt_o, obj in ((a, x), (b, xa)):
            o = reorder_for(fmt_o, obj)
            if o is not None:
                order = o if order is None else order[o]
        for q, v0 in q0.items():
            if a not in CARRIES[q] or b not in CARRIES[q] or q not in qb:
                continue
            v1 = qb[q]
            if q == "atcorenums" and "cube" in (a, b) and (v0 == 0).any():
                continue  # the cube reader maps a zero charge column to the atomic number (ghost atoms are outside the cube domain)
            if order is not None and v0.ndim >= 1 and len(v0) == len(order) and q != "cellvecs":
                v0 = v0[order]
            atol = (QTOL[a] + QTOL[b]) * (units.angstrom if q in ("atcoords", "cellvecs") else 1.0) + 1e-9
            rtol = QRTOL.get(a, 0) + QRTOL.get(b, 0) + 4e-9
            counters["quantities_compared"] += 1
            if v1.shape != v0.shape or not close(v1, v0, atol, rtol):
                key, note = ratio_key(f"chain:{a}->{b}", q, v1, v0)
                viols.append(_v(key, f"{q} changed by {a} -> {b}: {np.ravel(v1)[:3]} vs original {np.ravel(v0)[:3]} ({note})"))
            feats_out.append(f"chain:{q}:{a}->{b}")
    finally:
        shutil.rmtree(root, ignore_errors=True)
    return viols, feats_out, counters, {"chain": f"{a}->{b}", "quantities": [f.split(":")[1] for f in feats_out]}


DIMENSIONAL = {"atcoords", "atmasses", "cellvecs", "energy", "atgradient", "athessian", "moments", "cube", "extra"}  # extra: thermochemistry, velocities, times, ...


def case_spec(case):
    import iodata

    mod = spec_writers.all_writers()[case["writer"]]
    rng = gb.rng_for(4, 3, case["seed"], case["i"], sum(map(ord, case["writer"])))
    classes = [k for k in mod.CLASSES if k not in getattr(mod, "NOT_ASSERTED", {})]
    klass = case.get("klass") or classes[int(rng.integers(len(classes)))]
    model = mod.generate(rng, klass)
    exp = mod.expected(model)
    viols, feats = [], []
    counters = {"spec_files": 1, "quantities_compared": 0, "conversions": 0}
    root = tempfile.mkdtemp(prefix="vf_c04s_")
    fmt = mod.FORMAT if getattr(mod, "EXPLICIT_FMT", False) else None
    try:
        path = os.path.join(root, mod.FILENAME)
        with open(path, "w") as fh:
            fh.write(mod.write(model))
        with warnings.catch_warnings():
            warnings.simplefilter("ignore")
            try:
                d = iodata.load_one(path, fmt=fmt)
            except iodata.utils.LoadError:
                return [], [], counters, None
        # dimensional quantities of the loaded object vs the spec writer's atomic-unit expectation
        sub = base.Expect({p: e for p, e in exp.items() if p != base.WFN and p[0] in DIMENSIONAL})
        for p, got, want, note in base.compare(d, sub):
            key, rn = ratio_key(f"load:{mod.FORMAT}", p[0], got if not isinstance(got, str) else np.nan, want if not isinstance(want, str) else np.nan)
            try:
                g = base.resolve(d, p[:1] if len(p) > 1 and not isinstance(p[-1], str) else p)
            except Exception:
                g = None
            # use full arrays for the ratio classification
            try:
                full_g = np.asarray(base.resolve(d, tuple(x for x in p if not isinstance(x, tuple) or x in getattr(d, 'moments', {}))), dtype=float)
                full_w = np.asarray(sub[tuple(x for x in p if not isinstance(x, tuple) or x in getattr(d, 'moments', {}))].value, dtype=float)
                key, rn = ratio_key(f"load:{mod.FORMAT}", p[0], full_g, full_w)
            except Exception:
                pass
            viols.append(_v(key, f"{mod.FORMAT} file ({klass}): {'.'.join(map(str, p))} = {got!r}, the file says {want!r} in atomic units ({rn})"))
        counters["quantities_compared"] += len(sub)
        for p in sub:
            feats.append(f"load:{mod.FORMAT}:{p[0]}")
        # conversions to formats that carry coordinates
        if ("atcoords",) in sub and d.atnums is not None and d.atcoords is not None and not any(v["key"].endswith("atcoords") for v in viols):
            for b in ("xyz", "pdb", "sdf"):
                pb = os.path.join(root, go.filename(b, "conv"))
                with warnings.catch_warnings():
                    warnings.simplefilter("ignore")
                    try:
                        if b == "pdb" and d.extra is None:
                            d.extra = {}
                        iodata.dump_one(d, pb, allow_changes=True)
                        xb = iodata.load_one(pb)
                    except Exception:
                        continue
                counters["conversions"] += 1
                want = np.asarray(sub[("atcoords",)].value, dtype=float)
                counters["quantities_compared"] += 1
                if xb.atcoords.shape != want.shape or not close(xb.atcoords, want, (QTOL[b] + 1e-6) * units.angstrom + sub[("atcoords",)].atol, 1e-8):
                    key, rn = ratio_key(f"convert:{mod.FORMAT}->{b}", "atcoords", xb.atcoords, want)
                    viols.append(_v(key, f"coordinates of a {mod.FORMAT} file changed when converted to {b} ({rn})"))
                feats.append(f"convert:{mod.FORMAT}->{b}")
    finally:
        shutil.rmtree(root, ignore_errors=True)
    bykey = {}
    for v in viols:
        bykey.setdefault(v["key"], v)
    return list(bykey.values()), feats, counters, {"writer": case["writer"], "klass": klass}


def case_pair(case):
    import iodata

    objs = []
    with warnings.catch_warnings():
        warnings.simplefilter("ignore")
        for fn in (case["a"], case["b"]):
            p = os.path.join(bootstrap.DATA_DIR, fn)
            if not os.path.exists(p):
                return None
            try:
                objs.append(iodata.load_one(p))
            except iodata.utils.LoadError:
                return None
    a, b = objs
    viols, feats = [], []
    n = 0
    if a.atcoords is not None and b.atcoords is not None and a.atcoords.shape == b.atcoords.shape:
        n += 1
        # printed precision of the coarser file (pdb 1e-3 A, wfn 1e-8 bohr ...)
        tol = 2e-3 * units.angstrom if any(f.endswith(".pdb") for f in (case["a"], case["b"])) else 2e-5
        # the same system may be stored in another orientation: compare interatomic distances
        da = np.linalg.norm(a.atcoords[:, None] - a.atcoords[None], axis=2)
        db = np.linalg.norm(b.atcoords[:, None] - b.atcoords[None], axis=2)
        if not close(da, db, 2 * tol, 1e-6):
            key, rn = ratio_key(f"pair:{case['a']}|{case['b']}", "atcoords", da[da > 0], db[db > 0])
            viols.append(_v(key, f"interatomic distances of {case['a']} and {case['b']} differ ({rn})"))
        feats.append(f"pair:{case['a']}|{case['b']}:atcoords")
    if a.energy is not None and b.energy is not None:
        n += 1
        if abs(a.energy - b.energy) > 1e-5 * max(1.0, abs(a.energy)):
            key, rn = ratio_key(f"pair:{case['a']}|{case['b']}", "energy", a.energy, b.energy)
            viols.append(_v(key, f"energies of {case['a']} and {case['b']}: {a.energy} vs {b.energy} ({rn})"))
        feats.append(f"pair:{case['a']}|{case['b']}:energy")
    return viols, feats, {"pairs": 1, "quantities_compared": n}, {"pair": [case["a"], case["b"]]}


def run_case(case):
    fn = {"constants": case_constants, "printed": case_printed, "chain": case_chain, "spec": case_spec, "pair": case_pair}[case["kind"]]
    res = fn(case)
    if res is None:
        return {"status": "skip"}
    viols, feats, counters, sample = res
    if sample is None and not feats:
        return {"status": "skip"}
    return {"status": "violation" if viols else "ok", "violations": viols, "features": feats, "counters": counters, "sample": sample}


def finish(results, tier):
    tot = {}
    for r in results:
        for k, v in (r.get("counters") or {}).items():
            tot[k] = tot.get(k, 0) + v
    if tot.get("constants_checked", 0) == 0 or tot.get("quantities_compared", 0) == 0:
        return {"inconclusive": "no constant / quantity compared"}
    return {}
