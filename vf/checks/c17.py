"""C17 - format selection is deterministic and declared capabilities are truthful.

The selection is observed through the public API with recorders bound in place of every format module's
load/dump functions (which function gets called, or which exception escapes), under an audit hook (M6) that logs
every file-system event below the case directory; declared lists are compared with the IOData attribute set, with
what successfully loaded files actually carry, and with what dump_one enforces before the target is opened.
"""

import os
import shutil
import tempfile
import warnings

import numpy as np

from ..gen import corpus
from ..mon import audit

PROPERTY = "C17"
LEVEL = "exploration"
RULE = (
    "selection: 25 modules x 4 operations x file names instantiated from every pattern (plus multi-pattern, case-changed, "
    "pattern-in-directory and extension-less names) x fmt in {None, every module, unknown} x {existing, missing file} x "
    "{bare, directory prefix, other cwd} [enumerated exhaustively]; declared names of all functions vs the IOData attribute set "
    "[exhaustive]; guaranteed lists vs every corpus file that loads and vs generated files of every model class of the "
    "specification-following writers (R.spec_writers); required lists: one dump per (format, required attribute) "
    "with that attribute None. distinct = distinct (basename, fmt, operation) triples / (module, list, name) / (file) / "
    "(format, attribute); non-trivial = the expectation was computed independently and compared."
)
EXHAUSTIVE = ["selection matrix", "declared attribute names", "(format, required attribute) pairs"]
ASSUMPTIONS = ["independent glob matcher for '*' patterns", "audit events 'open' and os.* cover file-system access of pure-Python code"]
TIMEOUT = {"quick": 900, "thorough": 3600}
OPS = ["load_one", "load_many", "dump_one", "dump_many"]


class Selected(BaseException):
    """Raised by a recorder in place of a format function; carries the module chosen."""

    def __init__(self, module, op):
        super().__init__(module, op)
        self.module = module
        self.op = op


def star_match(name, pattern):
    """Case-sensitive glob with '*' only (independent of fnmatch)."""
    parts = pattern.split("*")
    if len(parts) == 1:
        return name == pattern
    if not name.startswith(parts[0]):
        return False
    pos = len(parts[0])
    for mid in parts[1:-1]:
        k = name.find(mid, pos)
        if k < 0:
            return False
        pos = k + len(mid)
    return name.endswith(parts[-1]) and len(name) - len(parts[-1]) >= pos


def modules():
    from iodata.api import FORMAT_MODULES

    return FORMAT_MODULES


def candidate_names():
    mods = modules()
    names = set()
    for _name, m in mods.items():
        for pat in m.PATTERNS:
            inst = pat.replace("*", "abc")
            names.add(inst)
            names.add(pat.replace("*", ""))
            names.add(inst.upper())
            names.add(inst.lower())
            names.add(pat.replace("*", "x.y.z"))
            # the pattern is anchored at both ends: its literal text in the middle of a name, before another extension, or
            # followed / preceded by other characters is not a match of that pattern
            lit = pat.replace("*", "")
            names.update({f"pre_{lit}", f"{lit}_post", f"pre_{lit}.xyz", f"pre_{lit}_post", f"a{pat.replace('*', 'b')}c"})
    # the NAME of a format module is not a pattern: 'calc.gamess', 'geom.poscar' match nothing unless a pattern says so
    for mname in mods:
        names.update({f"calc.{mname}", mname, f"{mname}.dat2"})
    names |= {"x.cp2k.out", "FCIDUMP.molden", "POSCAR.xyz", "x.molden.input", "a.fchk.xyz", "CHGCAR.cube", "LOCPOT", "POSCAR",
              "noextension", "x.unknown_ext", "x.json", ".xyz", "xyz", "x.XYZ", "x.Fchk", "molecule.wfn.wfx", "AECCAR0", "x.log.gro",
              "x.pdb.sdf.mol2", "weird name.xyz", "x.xyz ", "FCIDUMP", "a.fcidump.dat"}
    return sorted(n for n in names if n and "/" not in n)


def expected_set(basename, fmt, op):
    """Independent expectation: (set of acceptable module names, must_raise)."""
    mods = modules()
    if fmt is not None:
        if fmt in mods and hasattr(mods[fmt], op):
            return {fmt}
        return set()
    return {n for n, m in mods.items() if hasattr(m, op) and any(star_match(basename, p) for p in m.PATTERNS)}


def plan(tier, seed):
    names = candidate_names()
    cases = []
    chunk = 12
    for i in range(0, len(names), chunk):
        cases.append({"kind": "select", "names": names[i:i + chunk]})
    cases.append({"kind": "declared"})
    for e in corpus.entries(max_cost=2.0 if tier == "quick" else None):
        cases.append({"kind": "guaranteed", "file": e["file"], "fmt": e["fmt"], "explicit": e["explicit"]})
    cases.append({"kind": "required"})
    # generated files: every model class of every specification-following writer (R.spec_writers, shared with C03)
    from ..ref import spec_writers

    for name, mod in sorted(spec_writers.all_writers().items()):
        for klass in mod.CLASSES:
            for rep in range(1 if tier == "quick" else 20):
                cases.append({"kind": "guaranteed_gen", "writer": name, "klass": klass, "rep": rep, "seed": seed})
    # the repository's own test-suite as a workload under monitor M9 (vf/mon/pytest_plugin.py)
    cases.append({"kind": "suite", "tier": tier, "timeout": 3300})
    return cases


def _v(key, msg, **kw):
    d = {"key": key, "msg": msg}
    d.update(kw)
    return d


class Recorders:
    """Bind recorders in place of load_one/load_many/dump_one/dump_many/prepare_dump of every format module."""

    def __init__(self):
        self.saved = []

    def __enter__(self):
        for name, m in modules().items():
            for op in OPS:
                if hasattr(m, op):
                    orig = getattr(m, op)
                    self.saved.append((m, op, orig))

                    def rec(*a, _name=name, _op=op, **k):
                        raise Selected(_name, _op)

                    rec.required = []
                    rec.optional = []
                    rec.guaranteed = []
                    rec.ifpresent = []
                    rec.fmt = getattr(orig, "fmt", name)
                    setattr(m, op, rec)
            if hasattr(m, "prepare_dump"):
                self.saved.append((m, "prepare_dump", m.prepare_dump))
                m.prepare_dump = lambda data, allow_changes, filename: data
        return self

    def __exit__(self, *exc):
        for m, op, orig in self.saved:
            setattr(m, op, orig)
        return False


def call_api(op, path, fmt, source="list", pulled=None):
    """Run the public API function; return ('module', name) | ('error', type name, message).
    source (dump_many only): the frames as a list, an empty list, a generator (pulls are appended to `pulled`) or the lazy
    result of load_many on a file that does not exist."""
    import iodata
    from iodata import IOData

    def lazy():
        for k in range(3):
            pulled.append(k)
            yield IOData()

    try:
        if op == "dump_many" and source != "list":
            frames = {"src-empty": lambda: [], "src-lazy": lazy,
                      "src-loadmany-missing": lambda: iodata.load_many(os.path.join(os.path.dirname(os.path.abspath(path)),
                                                                                    "no_such_input.xyz"))}[source]()
            iodata.dump_many(frames, path, fmt=fmt)
            return ("returned",)
        if op == "load_one":
            iodata.load_one(path, fmt=fmt)
        elif op == "load_many":
            for _ in iodata.load_many(path, fmt=fmt):
                pass
        elif op == "dump_one":
            iodata.dump_one(IOData(), path, fmt=fmt)
        else:
            iodata.dump_many([IOData()], path, fmt=fmt)
    except Selected as s:
        return ("module", s.module)
    except BaseException as exc:  # noqa: BLE001
        cause = exc.__cause__
        while cause is not None:
            if isinstance(cause, Selected):
                return ("module", cause.module)
            cause = cause.__cause__
        return ("error", type(exc).__name__, str(exc))
    return ("returned",)


def case_select(case):
    from iodata import load_one  # noqa: F401

    viols, feats = [], []
    counters = {"selections": 0, "fileformaterrors": 0, "audit_events_on_refusal": 0, "audit_events_total": 0}
    fmts = [None, "no_such_format"] + sorted(modules())
    root = tempfile.mkdtemp(prefix="vf_c17_")
    cwd0 = os.getcwd()
    sample = None
    try:
        sub = os.path.join(root, "dir.xyz")  # pattern text in the directory part must not matter
        os.makedirs(sub)
        other = os.path.join(root, "other")
        os.makedirs(other)
        with Recorders():
            first_seen = {}
            for name in case["names"]:
                if first_seen:
                    # the names handled so far once more, operations in the opposite order, after all the other calls: the selection
                    # is a function of the name, the format argument and the operation - not of what was selected before
                    for (name0, op0), res0 in list(first_seen.items())[::-1]:
                        path0 = os.path.join(root, name0)
                        with open(path0, "w") as fh:
                            fh.write("sentinel\n")
                        try:
                            res1 = call_api(op0, path0, None)[:2]
                        finally:
                            if os.path.lexists(path0):
                                os.remove(path0)
                        counters["reselections"] = counters.get("reselections", 0) + 1
                        if res1 != res0:
                            viols.append(_v("select-history-dependent", f"{op0}({name0!r}) selected {res0} at first and {res1} after "
                                            "other operations on the same and other names"))
                    first_seen = {}
                for op in OPS:
                    for fmt in fmts:
                        want = expected_set(name, fmt, op)
                        observed = []
                        variants = []
                        for exists in (False, True):
                            for where in ("abs", "subdir", "relative"):
                                if where == "abs":
                                    path = os.path.join(root, name)
                                elif where == "subdir":
                                    path = os.path.join(sub, name)
                                else:
                                    path = name
                                variants.append((exists, where, path))
                        # the base name GIVEN decides, also when it is a symbolic link to a file with another name
                        variants.append(("link-out", "abs", os.path.join(root, name)))
                        variants.append(("link-in", "abs", os.path.join(root, name)))
                        if op == "dump_many" and not want:
                            # the refusal must not depend on the frames: none at all, produced lazily, or read lazily from a file
                            for source in ("src-empty", "src-lazy", "src-loadmany-missing"):
                                variants.append((source, "abs", os.path.join(root, name)))
                        for exists, where, path in variants:
                            base = other if where == "relative" else None
                            if base:
                                os.chdir(base)
                            full = os.path.join(os.getcwd(), path) if where == "relative" else path
                            try:
                                if os.path.lexists(full):
                                    os.remove(full)
                                if exists in ("link-out", "link-in"):
                                    tgt = os.path.join(other, "linktarget.nopattern" if exists == "link-out" else "linktarget.xyz")
                                    with open(tgt, "w") as fh:
                                        fh.write("sentinel\n")
                                    os.symlink(tgt, full)
                                    counters["symlink_selections"] = counters.get("symlink_selections", 0) + 1
                                elif exists is True:
                                    with open(full, "w") as fh:
                                        fh.write("sentinel\n")
                                pulled = []
                                with audit.Watch(root) as w:
                                    res = call_api(op, path, fmt, exists if str(exists).startswith("src-") else "list", pulled)
                                if str(exists).startswith("src-"):
                                    counters["refusals_with_odd_sources"] = counters.get("refusals_with_odd_sources", 0) + 1
                                    if pulled:
                                        # observation only: frames pulled from an in-memory generator before the refusal touch no file
                                        # system and leave the outcome to the verdicts below (FileFormatError, no file-system event)
                                        counters["observed_frames_pulled_before_refusal"] = counters.get("observed_frames_pulled_before_refusal", 0) + len(pulled)
                                counters["selections"] += 1
                                counters["audit_events_total"] += len(w.events)
                                observed.append(res[:2])
                                if res[0] == "error" and res[1] == "FileFormatError":
                                    counters["fileformaterrors"] += 1
                                    if w.events:
                                        counters["audit_events_on_refusal"] += len(w.events)
                                        viols.append(_v("select-touches-fs", f"{op}({name!r}, fmt={fmt!r}) raised FileFormatError after "
                                                        f"file-system events {w.events[:3]}"))
                                    if exists in (True, "link-out", "link-in") and audit.file_state(full)[1] != audit.file_state_of_bytes(b"sentinel\n"):
                                        viols.append(_v("select-touches-fs", f"{op}({name!r}, fmt={fmt!r}): existing file modified on refusal"))
                                    if (not exists or str(exists).startswith("src-")) and os.path.exists(full):
                                        viols.append(_v("select-touches-fs", f"{op}({name!r}, fmt={fmt!r}): file created on refusal"))
                                    if os.path.basename(name) not in res[2]:
                                        # observation only: the statement of C17 does not prescribe the wording
                                        counters["observed_message_without_file"] = counters.get("observed_message_without_file", 0) + 1
                            finally:
                                if base:
                                    os.chdir(cwd0)
                                if os.path.lexists(full):
                                    os.remove(full)
                        # oracle
                        mods_seen = {r[1] for r in observed if r[0] == "module"}
                        errs = {r[1] for r in observed if r[0] == "error"}
                        tag = f"{op}({name!r}, fmt={fmt!r})"
                        if not want:
                            if mods_seen or errs != {"FileFormatError"}:
                                viols.append(_v("select-should-refuse", f"{tag}: no module qualifies but observed {sorted(set(observed))}"))
                        else:
                            # missing file + load -> the OS error when the module opens the file is admitted
                            admitted_err = {"FileNotFoundError"} if op.startswith("load") else set()
                            if not mods_seen:
                                viols.append(_v("select-wrong", f"{tag}: expected one of {sorted(want)} but observed {sorted(set(observed))}"))
                            elif len(mods_seen) > 1:
                                viols.append(_v("select-nondeterministic", f"{tag}: different modules for the same base name: {sorted(mods_seen)}"))
                            elif not mods_seen <= want:
                                viols.append(_v("select-wrong", f"{tag}: chose {sorted(mods_seen)}, acceptable {sorted(want)}"))
                            if errs - admitted_err:
                                viols.append(_v("select-wrong", f"{tag}: unexpected errors {sorted(errs - admitted_err)} for a selectable format"))
                        if fmt is None and any(r[0] == "module" for r in observed):
                            first_seen[(name, op)] = next(r for r in observed if r[0] == "module")
                        feats.append(f"sel:{name}:{fmt}:{op}")
                        if sample is None and want:
                            sample = {"name": name, "fmt": fmt, "op": op, "acceptable": sorted(want), "observed": sorted(set(observed))}
    finally:
        os.chdir(cwd0)
        shutil.rmtree(root, ignore_errors=True)
    return viols[:20], feats, counters, sample


def case_declared(case):
    import attrs
    from iodata import IOData
    from iodata.api import INPUT_MODULES

    names = {a.name.lstrip("_") for a in attrs.fields(IOData)} | {k for k, v in vars(IOData).items() if isinstance(v, property)}
    names -= {"atcorenums_default"}
    viols, feats = [], []
    n = 0
    for mname, m in modules().items():
        for op in OPS:
            f = getattr(m, op, None)
            if f is None:
                continue
            for lst in ("guaranteed", "ifpresent", "required", "optional"):
                vals = getattr(f, lst, None)
                if vals is None:
                    continue
                for x in vals:
                    n += 1
                    feats.append(f"decl:{mname}:{op}:{lst}:{x}")
                    if x not in names:
                        viols.append(_v("declared-name", f"{mname}.{op}.{lst} names {x!r}, which is not an IOData attribute"))
                if len(set(vals)) != len(vals):
                    viols.append(_v("declared-name", f"{mname}.{op}.{lst} lists a name twice: {vals}"))
            if op.startswith("load") and set(getattr(f, "guaranteed", [])) & set(getattr(f, "ifpresent", [])):
                viols.append(_v("declared-name", f"{mname}.{op}: names both guaranteed and ifpresent"))
    for mname, m in INPUT_MODULES.items():
        f = m.write_input
        for lst in ("required", "optional"):
            for x in getattr(f, lst, []):
                n += 1
                feats.append(f"decl:input:{mname}:{lst}:{x}")
                if x not in names:
                    viols.append(_v("declared-name", f"inputs.{mname}.write_input.{lst} names {x!r}, which is not an IOData attribute"))
    return viols, feats, {"declared_names_checked": n}, {"attribute_set_size": len(names), "declared_names": n}


def case_guaranteed(case):
    import iodata

    path = os.path.join(corpus.bootstrap.DATA_DIR, case["file"])
    fmt = case["fmt"]
    m = modules()[fmt]
    viols, feats = [], []
    counters = {"files_loaded": 0, "guaranteed_checked": 0, "frames_loaded": 0, "empty_dict_guaranteed": 0}
    with warnings.catch_warnings():
        warnings.simplefilter("ignore")
        objs = []
        try:
            objs.append(("load_one", iodata.load_one(path, fmt=fmt if case["explicit"] else None)))
        except iodata.utils.LoadError:
            pass
        if hasattr(m, "load_many"):
            try:
                for k, d in enumerate(iodata.load_many(path, fmt=fmt if case["explicit"] else None)):
                    objs.append(("load_many", d))
                    if k >= 5:
                        break
            except iodata.utils.LoadError:
                pass
    for op, d in objs:
        counters["files_loaded" if op == "load_one" else "frames_loaded"] += 1
        for name in getattr(m, op).guaranteed:
            counters["guaranteed_checked"] += 1
            try:
                val = getattr(d, name)
            except AttributeError:
                continue  # reported by the declared-name check
            if val is None:
                viols.append(_v(f"guaranteed-none:{fmt}:{name}", f"{fmt}.{op} declares {name!r} guaranteed but {case['file']} loads with {name} = None"))
            elif isinstance(val, dict) and not val:
                counters["empty_dict_guaranteed"] += 1
    if objs:
        feats.append(f"guar:{case['file']}:{fmt}")
    return viols, feats, counters, {"file": case["file"], "fmt": fmt, "objects": len(objs), "guaranteed": list(m.load_one.guaranteed)}


def case_guaranteed_gen(case):
    """Guaranteed lists against generated well-formed files (all model classes of the spec writers, incl. minimal files
    with every optional section absent)."""
    import iodata

    from ..gen.basis import rng_for
    from ..ref import spec_writers

    mod = spec_writers.all_writers()[case["writer"]]
    rng = rng_for(17, case["seed"], case["rep"], sum(map(ord, case["writer"] + case["klass"])))
    model = mod.generate(rng, case["klass"])
    text = mod.write(model)
    fmt = mod.FORMAT
    m = modules()[fmt]
    explicit = fmt if getattr(mod, "EXPLICIT_FMT", False) else None
    kwargs = getattr(mod, "load_kwargs", lambda m: {})(model)
    viols, feats = [], []
    counters = {"generated_files": 1, "generated_loaded": 0, "generated_refused": 0, "guaranteed_checked": 0, "frames_loaded": 0}
    root = tempfile.mkdtemp(prefix="vf_c17g_")
    try:
        path = os.path.join(root, getattr(mod, "filename", lambda m: mod.FILENAME)(model))
        with open(path, "w") as fh:
            fh.write(text)
        objs = []
        with warnings.catch_warnings():
            warnings.simplefilter("ignore")
            try:
                objs.append(("load_one", iodata.load_one(path, fmt=explicit, **kwargs)))
                counters["generated_loaded"] += 1
            except iodata.utils.LoadError:
                counters["generated_refused"] += 1  # C03's business (well-formed file refused)
            if hasattr(m, "load_many"):
                try:
                    for k, d in enumerate(iodata.load_many(path, fmt=explicit, **kwargs)):
                        objs.append(("load_many", d))
                        counters["frames_loaded"] += 1
                        if k >= 5:
                            break
                except iodata.utils.LoadError:
                    pass
    finally:
        shutil.rmtree(root, ignore_errors=True)
    for op, d in objs:
        for name in getattr(m, op).guaranteed:
            counters["guaranteed_checked"] += 1
            try:
                val = getattr(d, name)
            except AttributeError:
                continue
            if val is None:
                viols.append(_v(f"guaranteed-none:{fmt}:{name}", f"{fmt}.{op} declares {name!r} guaranteed but a generated {case['writer']} file "
                                f"(class {case['klass']}) loads with {name} = None"))
    if objs:
        feats.append(f"guar-gen:{case['writer']}:{case['klass']}")
    return viols, feats, counters, {"writer": case["writer"], "klass": case["klass"], "objects": len(objs)}


def _donor_objects():
    """One loadable corpus object per dump format (smallest first)."""
    import iodata

    want = {n: m for n, m in modules().items() if hasattr(m, "dump_one")}
    donors = {}
    ents = sorted(corpus.entries(max_cost=1.0), key=lambda e: e["size"])
    with warnings.catch_warnings():
        warnings.simplefilter("ignore")
        for fmt, m in want.items():
            req = list(m.dump_one.required)
            for e in ents:
                try:
                    d = corpus.load(e)
                except Exception:
                    continue
                if all(getattr(d, r, None) is not None for r in req):
                    donors[fmt] = (e["file"], d)
                    break
    return donors


def case_required(case):
    import attrs
    import iodata
    from iodata.utils import PrepareDumpError

    viols, feats = [], []
    counters = {"required_pairs": 0, "could_not_clear": 0, "dumps": 0}
    root = tempfile.mkdtemp(prefix="vf_c17r_")
    try:
        donors = _donor_objects()
        for fmt, m in modules().items():
            for op in ("dump_one", "dump_many"):
                if not hasattr(m, op):
                    continue
                if fmt not in donors:
                    viols.append(_v("required-no-donor", f"no corpus object carries all required attributes of {fmt}"))
                    continue
                fname, donor = donors[fmt]
                for attr in getattr(m, op).required:
                    d = attrs.evolve(donor)
                    try:
                        setattr(d, attr, None)
                    except Exception:
                        counters["could_not_clear"] += 1
                        continue
                    if getattr(d, attr) is not None:
                        counters["could_not_clear"] += 1  # re-derives itself (atcorenums from atnums, charge from orbitals)
                        continue
                    counters["required_pairs"] += 1
                    target = os.path.join(root, f"out_{fmt}_{op}_{attr}")
                    with open(target, "w") as fh:
                        fh.write("sentinel")
                    with warnings.catch_warnings():
                        warnings.simplefilter("ignore")
                        with audit.Watch(root) as w:
                            try:
                                if op == "dump_one":
                                    iodata.dump_one(d, target, fmt=fmt)
                                else:
                                    iodata.dump_many([d], target, fmt=fmt)
                                res = "returned"
                            except PrepareDumpError:
                                res = "PrepareDumpError"
                            except Exception as exc:
                                res = type(exc).__name__
                    counters["dumps"] += 1
                    feats.append(f"req:{fmt}:{op}:{attr}")
                    if res != "PrepareDumpError":
                        viols.append(_v("required-not-enforced", f"{fmt}.{op} declares {attr!r} required; with {attr}=None (object from {fname}) "
                                        f"the call {res} instead of raising PrepareDumpError"))
                    if w.on(target):
                        viols.append(_v("required-after-open", f"{fmt}.{op} with {attr}=None: target touched before the rejection: {w.on(target)}"))
                    with open(target) as fh:
                        if fh.read() != "sentinel":
                            viols.append(_v("required-after-open", f"{fmt}.{op} with {attr}=None: existing file modified"))
    finally:
        shutil.rmtree(root, ignore_errors=True)
    return viols, feats, counters, {"donors": {k: v[0] for k, v in donors.items()}}


def run_case(case):
    if case.get("kind") == "suite":
        from .. import suite

        return suite.case(['guaranteed-set'], case["tier"])
    fn = {"select": case_select, "declared": case_declared, "guaranteed": case_guaranteed, "guaranteed_gen": case_guaranteed_gen, "required": case_required}[case["kind"]]
    viols, feats, counters, sample = fn(case)
    return {"status": "violation" if viols else "ok", "violations": viols, "features": feats, "counters": counters, "sample": sample}
