"""C19 - generated QC input files describe the molecule they were generated from.

The real iodata.write_input is run for both programs on generated molecules, charge/spin settings, run types,
default and random templates, keyword overrides and custom atom-line callbacks; an independent parser of the
written text checks every field against the object.
"""

import os
import shutil
import tempfile
import warnings

import numpy as np

from ..gen.basis import rng_for
from ..mon import audit
from ..ref import elements, units

PROPERTY = "C19"
LEVEL = "exploration"
RULE = (
    "molecules of 1..200 atoms over all 118 elements, coordinates up to +-999 A; charge/spin absent, integer, fractional "
    "(non-half), orbitals-derived; every run type + None; default template and random templates (any subset of fields, random "
    "order, unique delimiters); keyword overrides; custom and raising atom_line callbacks; unknown program names; both programs. "
    "distinct = distinct (program, template class, charge class, spin class, run type, override set); non-trivial = file parsed and "
    "all fields compared, or a documented error observed."
)
ASSUMPTIONS = ["CODATA angstrom literal (R.units)", "IUPAC element symbols (R.elements)",
               "default keywords per program as documented in the input modules (sp/force/opt/scan/freq; Energy/Freq/Opt)"]
RUN_TYPES = [None, "energy", "energy_force", "opt", "scan", "freq", "ENERGY", "Opt"]
KEYWORDS = {
    "gaussian": {"energy": "sp", "energy_force": "force", "opt": "opt", "scan": "scan", "freq": "freq"},
    "orca": {"energy": "Energy", "freq": "Freq", "opt": "Opt"},
}
DEFAULTS = {"gaussian": {"lot": "hf", "obasis_name": "sto-3g"}, "orca": {"lot": "HF", "obasis_name": "STO-3G"}}
FIELDS = ["lot", "obasis_name", "run_type", "title", "charge", "spinmult", "geometry"]


def plan(tier, seed):
    n = 400 if tier == "quick" else 150000
    cases = [{"kind": "render", "seed": seed, "i": i} for i in range(n)]
    cases += [{"kind": "errors", "seed": seed, "i": i} for i in range(10 if tier == "quick" else 1000)]
    return cases


def _v(key, msg, **kw):
    d = {"key": key, "msg": msg}
    d.update(kw)
    return d


def make_molecule(rng):
    from iodata import IOData
    from iodata.orbitals import MolecularOrbitals

    natom = int(rng.choice([1, 2, 3, 5, 12, 60, 200], p=[0.15, 0.2, 0.2, 0.2, 0.15, 0.07, 0.03]))
    atnums = rng.integers(1, 119, size=natom)
    mag = float(rng.choice([1.0, 10.0, 100.0, 500.0]))
    atcoords = rng.uniform(-mag, mag, size=(natom, 3)) * units.angstrom
    lay = int(rng.integers(0, 6))
    if lay == 0:
        atcoords = np.asfortranarray(atcoords)
    elif lay == 1:
        atcoords.setflags(write=False)  # read-only coordinates (rendering must not need to write into them)
    kw = {"atnums": atnums, "atcoords": atcoords}
    charge_class = str(rng.choice(["absent", "int", "frac", "mo"]))
    spin_class = str(rng.choice(["absent", "int", "frac"]))
    expect_charge, expect_mult = 0, 1
    if charge_class == "int":
        c = int(rng.integers(-3, 4))
        kw["charge"] = c
        expect_charge = c
    elif charge_class == "frac":
        c = float(rng.integers(-3, 4)) + float(rng.choice([-0.45, -0.3, -0.1, 0.1, 0.3, 0.45]))
        kw["charge"] = c
        expect_charge = int(np.floor(c + 0.5))
    if charge_class == "mo":
        norb = int(rng.integers(1, 5))
        na = int(rng.integers(0, norb + 1))
        nb = int(rng.integers(0, na + 1))
        occs = np.concatenate([np.where(np.arange(norb) < na, 1.0, 0.0), np.where(np.arange(norb) < nb, 1.0, 0.0)])
        kw["mo"] = MolecularOrbitals("unrestricted", norb, norb, occs=occs)
        expect_charge = int(round(float(atnums.sum()) - occs.sum()))
        expect_mult = abs(na - nb) + 1
        spin_class = "mo"
    elif spin_class == "int":
        s = int(rng.integers(0, 5))
        kw["spinpol"] = s
        expect_mult = s + 1
    elif spin_class == "frac":
        s = float(rng.integers(0, 4)) + float(rng.choice([0.1, 0.3, 0.45, 0.55, 0.7, 0.9]))
        kw["spinpol"] = s
        expect_mult = int(np.floor(s + 0.5)) + 1
    if rng.random() < 0.5:
        kw["title"] = "mol " + "".join(rng.choice(list("abcXYZ 123_-"), size=int(rng.integers(1, 20)))).strip()
    if rng.random() < 0.5:
        kw["lot"] = str(rng.choice(["B3LYP", "mp2", "CCSD(T)", "pbe0"]))
    if rng.random() < 0.5:
        kw["obasis_name"] = str(rng.choice(["6-31g*", "cc-pVTZ", "def2-SVP"]))
    run_type = RUN_TYPES[int(rng.integers(len(RUN_TYPES)))]
    if run_type is not None:
        kw["run_type"] = run_type
    return IOData(**kw), {"charge_class": charge_class, "spin_class": spin_class, "charge": expect_charge, "mult": expect_mult, "natom": natom}


def check_geometry(lines, data, tag):
    natom = data.natom
    if len(lines) != natom:
        return [_v("geometry-count", f"{tag}: {len(lines)} geometry lines for {natom} atoms")]
    for i, line in enumerate(lines):
        words = line.split()
        if len(words) != 4:
            return [_v("geometry-line", f"{tag}: atom {i}: cannot split {line!r} into symbol and 3 coordinates")]
        if words[0] != elements.NUM2SYM[int(data.atnums[i])]:
            return [_v("geometry-symbol", f"{tag}: atom {i}: symbol {words[0]!r}, expected {elements.NUM2SYM[int(data.atnums[i])]!r}")]
        try:
            xyz = np.array([float(w) for w in words[1:]])
        except ValueError:
            return [_v("geometry-line", f"{tag}: atom {i}: non-numeric coordinates in {line!r}")]
        want = data.atcoords[i] / units.angstrom
        if np.abs(xyz - want).max() > 0.5e-6 + 1e-8 * np.abs(want).max() + 1e-9:
            key = "geometry-unit" if np.allclose(xyz, data.atcoords[i], atol=1e-5) else "geometry-coords"
            return [_v(key, f"{tag}: atom {i}: coordinates {xyz.tolist()} expected {want.tolist()} angstrom")]
    return []


def case_render(case):
    import iodata
    from iodata.utils import WriteInputError

    rng = rng_for(19, case["seed"], case["i"])
    prog = "gaussian" if case["i"] % 2 == 0 else "orca"
    data, exp = make_molecule(rng)
    tclass = str(rng.choice(["default", "random", "random_subset"], p=[0.4, 0.3, 0.3]))
    overrides = {}
    # user values of every kind, including falsy ones (0, ""): precedence does not depend on the value
    for name, vals in (("lot", ["MYLOT"]), ("obasis_name", ["MYBASIS"]), ("title", ["user title", ""]), ("charge", [7, 0, -2]),
                       ("spinmult", [9, 1]), ("run_type", ["MYRUN"])):
        if rng.random() < 0.15:
            overrides[name] = vals[int(rng.integers(len(vals)))]
    extra_kw = {}
    template = None
    order = None
    if tclass != "default":
        use = [f for f in FIELDS if tclass == "random" or rng.random() < 0.6]
        if rng.random() < 0.3:
            extra_kw["extra_cmd"] = ["nosymm", "", 0][int(rng.integers(3))]
            use.append("extra_cmd")
        order = [use[i] for i in rng.permutation(len(use))]
        template = "".join(f"<<{f}>>\n{{{f}}}\n" for f in order) + "<<end>>\n"
    cb_class = str(rng.choice(["default", "custom"], p=[0.8, 0.2]))
    atom_line = None
    if cb_class == "custom":
        def atom_line(d, i):  # noqa: ARG001
            return f"ATOM {i}"
    run_type = data.run_type
    rt_key = (run_type or "energy").lower()
    no_keyword = rt_key not in KEYWORDS[prog]
    # without a keyword for the run type the rendering must fail, unless the user supplies run_type (then either outcome is
    # consistent with the statement: an error, or a file carrying the user's keyword)
    expect_fail = no_keyword and "run_type" not in overrides
    may_fail = no_keyword
    # a template that does not use run_type still evaluates the keyword table -> a failure is admitted there too
    root = tempfile.mkdtemp(prefix="vf_c19_")
    path = os.path.join(root, "input.in")
    viols = []
    counters = {"write_input_calls": 1, "files_parsed": 0, "fields_compared": 0, "write_input_errors": 0}
    feats = []
    try:
        with warnings.catch_warnings():
            warnings.simplefilter("ignore")
            try:
                iodata.write_input(data, path, prog, template=template, atom_line=atom_line, **overrides, **extra_kw)
                err = None
            except WriteInputError as exc:
                err = exc
            except Exception as exc:
                viols.append(_v("wrong-exception", f"write_input raised {type(exc).__name__}: {exc}"))
                return viols, feats, counters, None
        tag = f"{prog}/{tclass}/run_type={run_type}"
        if err is not None:
            counters["write_input_errors"] += 1
            if not may_fail:
                viols.append(_v("unexpected-error", f"{tag}: WriteInputError for a renderable object: {err} / cause {err.__cause__!r}"))
            elif "input.in" not in str(err):
                # observation only: the statement of C19 does not prescribe the wording
                counters["observed_message_without_file"] = counters.get("observed_message_without_file", 0) + 1
            if audit.open_fds_on(path):
                viols.append(_v("file-left-open", f"{tag}: file still open after WriteInputError"))
            feats.append(f"err:{prog}:{rt_key}")
            return viols, feats, counters, {"prog": prog, "run_type": run_type, "outcome": "WriteInputError"}
        if expect_fail:
            viols.append(_v("run-type-keyword", f"{tag}: run type has no keyword for {prog} but a file was written"))
        with open(path) as fh:
            text = fh.read()
        counters["files_parsed"] += 1
        want = {
            "lot": overrides.get("lot", data.lot or DEFAULTS[prog]["lot"]),
            "obasis_name": overrides.get("obasis_name", data.obasis_name or DEFAULTS[prog]["obasis_name"]),
            "run_type": overrides.get("run_type", KEYWORDS[prog].get(rt_key)),
            "title": overrides.get("title", data.title if data.title is not None else "Input Generated by IOData"),
            "charge": str(overrides.get("charge", exp["charge"])),
            "spinmult": str(overrides.get("spinmult", exp["mult"])),
        }
        if "extra_cmd" in extra_kw:
            want["extra_cmd"] = str(extra_kw["extra_cmd"])
        got = {}
        if template is None:
            lines = text.split("\n")
            if prog == "gaussian":
                # "#n lot/basis runkw" / "" / title / "" / "charge mult" / geometry / ""
                head = lines[0].split()
                if len(head) == 3 and head[0] == "#n" and "/" in head[1]:
                    got["lot"], got["obasis_name"] = head[1].split("/", 1)
                    got["run_type"] = head[2]
                else:
                    viols.append(_v("header", f"{tag}: route line {lines[0]!r}"))
                got["title"] = lines[2]
                cm = lines[4].split()
                geom = lines[5:5 + data.natom]
                rest = lines[5 + data.natom:]
                if lines[1] != "" or lines[3] != "" or any(r.strip() for r in rest):
                    viols.append(_v("geometry-count", f"{tag}: layout broken or extra geometry lines: {rest[:3]}"))
            else:
                head = lines[0].split()
                if len(head) == 4 and head[0] == "!":
                    got["lot"], got["obasis_name"], got["run_type"] = head[1:]
                else:
                    viols.append(_v("header", f"{tag}: keyword line {lines[0]!r}"))
                got["title"] = lines[1][2:] if lines[1].startswith("# ") else None
                cm = lines[2].split()[1:] if lines[2].startswith("*xyz ") else []
                geom = lines[3:3 + data.natom]
                rest = lines[3 + data.natom:]
                if rest[:1] != ["*"] or any(r.strip() for r in rest[1:]):
                    viols.append(_v("geometry-count", f"{tag}: geometry block not closed after {data.natom} atoms: {rest[:3]}"))
            if len(cm) == 2:
                got["charge"], got["spinmult"] = cm
            else:
                viols.append(_v("charge-line", f"{tag}: charge/multiplicity line {cm}"))
        else:
            blocks = {}
            cur = None
            for line in text.split("\n"):
                if line.startswith("<<") and line.endswith(">>"):
                    cur = line[2:-2]
                    blocks[cur] = []
                elif cur is not None:
                    blocks[cur].append(line)
            if list(blocks) != order + ["end"]:
                viols.append(_v("template", f"{tag}: fields rendered {list(blocks)} expected {order}"))
            for f in order:
                if f == "geometry":
                    geom = blocks.get(f, [])
                else:
                    got[f] = "\n".join(blocks.get(f, []))
            if "geometry" not in order:
                geom = None
        for f, w in want.items():
            if f in got or template is None:
                counters["fields_compared"] += 1
                if got.get(f) != w:
                    key = {"charge": "charge-rounding" if f == "charge" and exp["charge_class"] == "frac" else "charge-value",
                           "spinmult": "multiplicity"}.get(f, f"field-{f}")
                    viols.append(_v(key, f"{tag}: field {f} rendered as {got.get(f)!r}, expected {w!r} "
                                    f"(object charge={data.charge!r} spinpol={data.spinpol!r})"))
        if geom is not None:
            if atom_line is None:
                viols += check_geometry(geom, data, tag)
            elif geom != [f"ATOM {i}" for i in range(data.natom)]:
                viols.append(_v("geometry-callback", f"{tag}: custom atom lines not used one per atom in order"))
            counters["fields_compared"] += data.natom
        if audit.open_fds_on(path):
            viols.append(_v("file-left-open", f"{tag}: file still open after write_input"))
        feats.append(f"{prog}:{tclass}:{exp['charge_class']}:{exp['spin_class']}:{rt_key}:{','.join(sorted(overrides))}:{cb_class}")
        sample = {"prog": prog, "template": tclass, "natom": exp["natom"], "charge": repr(data.charge), "spinpol": repr(data.spinpol),
                  "run_type": run_type, "overrides": overrides, "text_head": text[:160]}
        return viols, feats, counters, sample
    finally:
        shutil.rmtree(root, ignore_errors=True)


def case_errors(case):
    import iodata
    from iodata import IOData
    from iodata.utils import FileFormatError, WriteInputError

    rng = rng_for(19, 7, case["seed"], case["i"])
    root = tempfile.mkdtemp(prefix="vf_c19e_")
    viols = []
    counters = {"write_input_calls": 0, "write_input_errors": 0, "fileformaterrors": 0}
    try:
        data, _ = make_molecule(rng)
        data.run_type = None
        # unknown program names
        for name in ["psi4", "", "molpro", "common", "__init__", "gaussian16", "orca.inp", "xyz"]:
            path = os.path.join(root, f"x_{len(name)}_{abs(hash(name)) % 1000}.in")
            counters["write_input_calls"] += 1
            with audit.Watch(root) as w:
                try:
                    iodata.write_input(data, path, name)
                    res = "returned"
                except FileFormatError:
                    res = "FileFormatError"
                    counters["fileformaterrors"] += 1
                except Exception as exc:
                    res = type(exc).__name__
            if res != "FileFormatError":
                viols.append(_v("unknown-program", f"write_input(fmt={name!r}) -> {res}, expected FileFormatError"))
            if w.events or os.path.exists(path):
                viols.append(_v("unknown-program-touches-fs", f"write_input(fmt={name!r}) touched the file system: {w.events[:2]}"))
        # failures while rendering
        def bad_line(d, i):
            raise RuntimeError("callback failure")

        failing = [
            ("raising atom_line", dict(atom_line=bad_line)),
            ("atom_line returning None", dict(atom_line=lambda d, i: None)),
            ("template with unknown field", dict(template="{no_such_field}\n{geometry}")),
            ("template with bad format spec", dict(template="{charge:zz}\n")),
            ("unbalanced template", dict(template="{lot\n")),
            ("positional template field", dict(template="{0} {geometry}\n")),
        ]
        objs = [("object", data), ("object without coordinates", IOData(atnums=[1, 1])), ("object without atoms", IOData())]
        for prog in ("gaussian", "orca"):
            for label, kw in failing:
                path = os.path.join(root, f"f_{prog}.in")
                counters["write_input_calls"] += 1
                try:
                    iodata.write_input(data, path, prog, **kw)
                    res = "returned"
                except WriteInputError as exc:
                    res = "WriteInputError"
                    counters["write_input_errors"] += 1
                    if "f_" + prog not in str(exc):
                        # observation only: the statement of C19 does not prescribe the wording
                        counters["observed_message_without_file"] = counters.get("observed_message_without_file", 0) + 1
                except Exception as exc:
                    res = type(exc).__name__
                if res != "WriteInputError":
                    viols.append(_v("render-failure-exception", f"{prog}: {label}: {res}, expected WriteInputError"))
                if audit.open_fds_on(path):
                    viols.append(_v("file-left-open", f"{prog}: {label}: file left open"))
            for label, obj in objs[1:]:
                path = os.path.join(root, f"g_{prog}.in")
                counters["write_input_calls"] += 1
                try:
                    iodata.write_input(obj, path, prog)
                    res = "returned"
                except WriteInputError:
                    res = "WriteInputError"
                    counters["write_input_errors"] += 1
                except Exception as exc:
                    res = type(exc).__name__
                if res != "WriteInputError":
                    viols.append(_v("render-failure-exception", f"{prog}: {label}: {res}, expected WriteInputError"))
    finally:
        shutil.rmtree(root, ignore_errors=True)
    return viols, ["errors:unknown-program", "errors:render-failure"], counters, {"unknown_programs": 8, "failing_renderings": 16}


def run_case(case):
    fn = case_render if case["kind"] == "render" else case_errors
    viols, feats, counters, sample = fn(case)
    return {"status": "violation" if viols else "ok", "violations": viols[:6], "features": feats, "counters": counters, "sample": sample}
