"""C15 - after one save/reload cycle, further cycles change nothing.

x0 -> f1 = dump(x0) -> x1 = load(f1) -> f2 = dump(x1) -> x2 = load(f2) -> f3 = dump(x2).
Oracle: x2 is bit-identical to x1 (deep snapshot M1, exact, NaN-aware) and bytes(f3) == bytes(f2); the second and third save
must not fail.  The provenance trail of QCSchema JSON grows by design and is removed before comparing.
"""

import json
import os
import shutil
import tempfile
import warnings

import numpy as np

from ..gen import basis as gb
from ..gen import corpus
from ..gen import objects as go
from ..mon import snapshot as snap

PROPERTY = "C15"
LEVEL = "exploration"
RULE = (
    "generated objects of all 13 read/write formats (classes of gen.objects) and every corpus file converted to every format that "
    "accepts it (first save with allow_changes=True); generations 1, 2, 3. distinct = distinct (source, format, class); non-trivial = "
    "generation 2 was reached and compared with generation 1."
)
ASSUMPTIONS = ["M1 snapshot compares attrs fields, properties, dict/list contents and arrays bit for bit (NaN == NaN)"]
TIMEOUT = {"quick": 1500, "thorough": 7200}
CASE_TIMEOUT = 600


def plan(tier, seed):
    cases = []
    n = 8 if tier == "quick" else 800
    for fmt in go.DUMP_FORMATS:
        for i in range(n):
            cases.append({"kind": "gen", "fmt": fmt, "i": i, "seed": seed})
    for e in corpus.entries(max_cost=1.0 if tier == "quick" else 4.0):
        cases.append({"kind": "corpus", "file": e["file"], "fmt": e["fmt"], "explicit": e["explicit"]})
    # files shaped like the producing programs write them (every model class of the specification-following writers), converted
    # to every format that accepts them - the corpus holds one or two files per format only
    from ..ref import spec_writers

    for name, mod in sorted(spec_writers.all_writers().items()):
        for klass in mod.CLASSES:
            for rep in range(1 if tier == "quick" else 12):
                cases.append({"kind": "specfile", "writer": name, "klass": klass, "rep": rep, "seed": seed})
    return cases


def _v(key, msg, **kw):
    d = {"key": key, "msg": msg}
    d.update(kw)
    return d


def strip_json(raw):
    def strip(obj):
        if isinstance(obj, dict):
            return {k: strip(v) for k, v in obj.items() if k != "provenance"}
        if isinstance(obj, list):
            return [strip(v) for v in obj]
        return obj

    try:
        return json.dumps(strip(json.loads(raw)), sort_keys=True).encode()
    except Exception:
        return raw


def canon(d, fmt):
    c = snap.canon(d)
    return c


def cycles(x0, fmt, root, tag, first_allow, viols, counters):
    """Run three generations; returns True when generation 2 was compared."""
    import iodata

    ef = go.explicit_fmt(fmt)
    paths = [os.path.join(root, go.filename(fmt, f"g{k}")) for k in (1, 2, 3)]
    with warnings.catch_warnings():
        warnings.simplefilter("ignore")
        try:
            iodata.dump_one(x0, paths[0], fmt=ef, allow_changes=first_allow)
        except (iodata.utils.PrepareDumpError, iodata.utils.DumpError):
            counters["first_save_refused"] += 1
            return False
        try:
            x1 = iodata.load_one(paths[0], fmt=ef)
        except iodata.utils.LoadError as exc:
            # C01/C02's business (own output unreadable); counted, not a C15 verdict
            counters["first_reload_failed"] += 1
            return False
        counters["generation1"] += 1
        try:
            iodata.dump_one(x1, paths[1], fmt=ef)
        except Exception as exc:
            viols.append(_v(f"{fmt}:second-save-fails", f"{tag}: the reloaded object cannot be saved again in {fmt}: {type(exc).__name__}: {exc} "
                            f"(cause {exc.__cause__!r})"))
            return False
        try:
            x2 = iodata.load_one(paths[1], fmt=ef)
        except Exception as exc:
            viols.append(_v(f"{fmt}:second-reload-fails", f"{tag}: generation-2 file cannot be read: {type(exc).__name__}: {exc}"))
            return False
        counters["generation2"] += 1
        ignore = ("provenance']",) if fmt == "json_qcschema" else ()
        snap.SIGNED_ZERO = True
        try:
            dd = [d for d in snap.diff(canon(x1, fmt), canon(x2, fmt), limit=8) if not any(ig in d[0] for ig in ("provenance",) if fmt == "json_qcschema")]
        finally:
            snap.SIGNED_ZERO = False
        if dd:
            path0 = dd[0][0]
            attr = path0.split("[")[0].split(":")[0]
            viols.append(_v(f"{fmt}:drift:{attr}", f"{tag}: generation 2 differs from generation 1 at {path0}: {dd[0][1]} -> {dd[0][2]} "
                            f"({len(dd)} differences)"))
        try:
            # the third save happens later than the second: on another day, in another year (the clock the library can see is moved)
            with shifted_clock(400 * 86400.0 + 3723.0):
                iodata.dump_one(x2, paths[2], fmt=ef)
        except Exception as exc:
            viols.append(_v(f"{fmt}:third-save-fails", f"{tag}: generation-2 object cannot be saved: {type(exc).__name__}: {exc}"))
            return True
        counters["generation3"] += 1
    b2 = open(paths[1], "rb").read()
    b3 = open(paths[2], "rb").read()
    if fmt == "json_qcschema":
        b2, b3 = strip_json(b2), strip_json(b3)
    if b2 != b3:
        l2, l3 = b2.splitlines(), b3.splitlines()
        k = next((i for i, (a, b) in enumerate(zip(l2, l3)) if a != b), min(len(l2), len(l3)))
        viols.append(_v(f"{fmt}:bytes-drift", f"{tag}: third-generation file differs from the second at line {k + 1}: "
                        f"{l2[k][:80] if k < len(l2) else b'<end>'} -> {l3[k][:80] if k < len(l3) else b'<end>'}"))
    return True


class shifted_clock:
    """Moves the wall clock seen through the `time` module (time, localtime, gmtime, strftime, ctime, asctime) and through
    datetime.datetime.now / utcnow / today / date.today by `offset` seconds while active."""

    def __init__(self, offset):
        self.offset = offset

    def __enter__(self):
        import datetime
        import time

        off = self.offset
        self.saved = {n: getattr(time, n) for n in ("time", "localtime", "gmtime", "strftime", "ctime", "asctime", "time_ns")}
        real = dict(self.saved)
        time.time = lambda: real["time"]() + off
        time.time_ns = lambda: real["time_ns"]() + int(off * 1e9)
        time.localtime = lambda secs=None: real["localtime"](real["time"]() + off if secs is None else secs)
        time.gmtime = lambda secs=None: real["gmtime"](real["time"]() + off if secs is None else secs)
        time.strftime = lambda fmt, t=None: real["strftime"](fmt, real["localtime"](real["time"]() + off) if t is None else t)
        time.ctime = lambda secs=None: real["ctime"](real["time"]() + off if secs is None else secs)
        time.asctime = lambda t=None: real["asctime"](real["localtime"](real["time"]() + off) if t is None else t)
        self.dt = (datetime.datetime, datetime.date)
        delta = datetime.timedelta(seconds=off)

        class ShiftedDateTime(datetime.datetime):
            @classmethod
            def now(cls, tz=None):
                return real_dt.now(tz) + delta

            @classmethod
            def utcnow(cls):
                return real_dt.utcnow() + delta

            @classmethod
            def today(cls):
                return real_dt.today() + delta

        class ShiftedDate(datetime.date):
            @classmethod
            def today(cls):
                return real_date.today() + delta

        real_dt, real_date = self.dt
        datetime.datetime, datetime.date = ShiftedDateTime, ShiftedDate
        return self

    def __exit__(self, *exc):
        import datetime
        import time

        for n, f in self.saved.items():
            setattr(time, n, f)
        datetime.datetime, datetime.date = self.dt
        return False


def run_case(case):
    import iodata

    viols, feats = [], []
    counters = {"first_save_refused": 0, "first_reload_failed": 0, "generation1": 0, "generation2": 0, "generation3": 0, "wfn_ungrouped_mospin": 0, "spec_files": 0,
                "spec_files_loaded": 0}
    root = tempfile.mkdtemp(prefix="vf_c15_")
    try:
        if case["kind"] == "gen":
            fmt = case["fmt"]
            rng = gb.rng_for(15, case["seed"], case["i"], sum(map(ord, fmt)))
            klass = ["small", "medium", "wide", "small", "large"][case["i"] % 5]
            if klass == "large" and fmt in ("fcidump", "json_qcschema", "fchk", "molden", "molekel", "wfn", "wfx", "cube", "sdf"):
                klass = "small"
            if fmt == "json_qcschema" and case["i"] % 2 == 1:
                x0, f = go.json_built(rng)
                klass = "built-" + f["built"]
            else:
                x0, f = go.make(fmt, rng, klass)
            if case["i"] % 4 == 3:
                go.relayout(x0, gb.rng_for(15, 77, case["seed"], case["i"]))
                klass += "+layout"
            if fmt == "wfn" and case["i"] % 4 == 0 and not (x0.mo is not None and x0.mo.kind == "unrestricted" and x0.mo.norbb):
                from ..gen import wfnobjects as wo

                x0, _ = wo.make(rng, "wfn", nbasis_max=20, spin="unrestricted", contraction="segmented", ghosts="none")
            if fmt == "wfn" and x0.mo is not None and x0.mo.kind == "unrestricted" and x0.mo.norbb and case["i"] % 2 == 0:
                # the per-orbital spin labels of the Multiwfn extension, kept verbatim in extra: labels that are not grouped alpha
                # first (the labels are per orbital; nothing obliges a producer to group them)
                labels = np.array([1] * x0.mo.norba + [2] * x0.mo.norbb)
                x0.extra = dict(x0.extra, mo_spin=labels[rng.permutation(len(labels))])
                klass += "+ungrouped_mospin"
                counters["wfn_ungrouped_mospin"] += 1
            if case["i"] % 5 == 2:
                # text outside ASCII in the strings a format carries (a Greek letter, a micro sign, an accented name)
                x0.title = f"α-pinene, 1.5 µs, Å-scale, señor {case['i']}"
                klass += "+non-ascii"
            if x0.atcoords is not None and x0.mo is None and case["i"] % 3 == 1:
                # numerical noise around zero and signed zeros (planar / symmetric geometries out of an optimiser)
                xyz = x0.atcoords.copy()
                k = rng.integers(0, xyz.size, size=max(1, xyz.size // 3))
                xyz.flat[k] = rng.choice([-1e-12, 1e-12, -4e-11, 3e-9, -0.0, 0.0, -6e-8], size=len(k))
                x0.atcoords = xyz
                klass += "+noise"
            if cycles(x0, fmt, root, f"generated {fmt}/{klass}", False, viols, counters):
                feats.append(f"gen:{fmt}:{klass}")
            sample = {"fmt": fmt, "klass": klass}
        elif case["kind"] == "specfile":
            from ..ref import spec_writers

            mod = spec_writers.all_writers()[case["writer"]]
            rng = gb.rng_for(15, 5, case["seed"], case["rep"], sum(map(ord, case["writer"] + case["klass"])))
            model = mod.generate(rng, case["klass"])
            src = os.path.join(root, getattr(mod, "filename", lambda m: mod.FILENAME)(model))
            with open(src, "w") as fh:
                fh.write(mod.write(model))
            counters["spec_files"] += 1
            with warnings.catch_warnings():
                warnings.simplefilter("ignore")
                try:
                    x0 = iodata.load_one(src, fmt=mod.FORMAT if getattr(mod, "EXPLICIT_FMT", False) else None,
                                         **getattr(mod, "load_kwargs", lambda m: {})(model))
                except iodata.utils.LoadError:
                    return {"status": "skip"}  # C03's business
            counters["spec_files_loaded"] += 1
            big = x0.obasis is not None and x0.obasis.nbasis > 60
            for fmt in go.DUMP_FORMATS:
                if big and fmt in ("molden", "molekel"):
                    continue
                sub = os.path.join(root, "to_" + fmt)
                os.makedirs(sub)
                if cycles(x0, fmt, sub, f"{case['writer']}/{case['klass']} file -> {fmt}", True, viols, counters):
                    feats.append(f"spec:{case['writer']}:{case['klass']}->{fmt}")
            sample = {"writer": case["writer"], "klass": case["klass"], "formats_cycled": [f.split("->")[1] for f in feats]}
        else:
            src = os.path.join(corpus.bootstrap.DATA_DIR, case["file"])
            with warnings.catch_warnings():
                warnings.simplefilter("ignore")
                try:
                    x0 = iodata.load_one(src, fmt=case["fmt"] if case["explicit"] else None)
                except iodata.utils.LoadError:
                    return {"status": "skip"}
            big = x0.obasis is not None and x0.obasis.nbasis > 60
            for fmt in go.DUMP_FORMATS:
                if big and fmt in ("molden", "molekel"):
                    continue
                sub = os.path.join(root, fmt)
                os.makedirs(sub)
                if cycles(x0, fmt, sub, f"{case['file']} -> {fmt}", True, viols, counters):
                    feats.append(f"corpus:{case['fmt']}->{fmt}")
            sample = {"file": case["file"], "formats_cycled": [f.split("->")[1] for f in feats]}
    finally:
        shutil.rmtree(root, ignore_errors=True)
    bykey = {}
    for v in viols:
        bykey.setdefault(v["key"], v)
    return {"status": "violation" if viols else "ok", "violations": list(bykey.values()), "features": feats, "counters": counters, "sample": sample}


def finish(results, tier):
    tot = {}
    for r in results:
        for k, v in (r.get("counters") or {}).items():
            tot[k] = tot.get(k, 0) + v
    if tot.get("generation3", 0) == 0:
        return {"inconclusive": "generation 3 never reached"}
    return {}
