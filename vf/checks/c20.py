"""C20 - numerical helpers return what their documentation says.

Runs the real iodata.utils.derive_naturals, check_dm, volume, set_four_index_element, strtobool on
generated inputs and compares each return value with an independently computed expectation.
"""

import itertools

import numpy as np

from ..gen.basis import rng_for

PROPERTY = "C20"
LEVEL = "exploration"
RULE = (
    "derive_naturals/check_dm: sizes 1..12 x spectrum classes (closed, fractional, degenerate, zeros, edge placements on both "
    "sides of [-eps, occ_max+eps]) x condition numbers; volume: 1-3 vectors x all row permutations x handedness; "
    "set_four_index_element: ALL index quadruples for n<=4 (quick) / n<=6 (thorough) against the orbit of the 8-element "
    "symmetry group generated independently; strtobool: the documented words in every letter case + random strings. "
    "distinct = distinct (helper, size/class) labels; every case is non-trivial (has an independent expectation)."
)
EXHAUSTIVE = ["set_four_index_element: all quadruples up to n", "volume: all row permutations x handedness of each cell",
              "strtobool: all letter-case variants of the 12 documented words"]
ASSUMPTIONS = ["numpy.linalg (det, eigh, qr) as independent arithmetic", "documented strtobool vocabulary = distutils' list"]

WORDS_TRUE = ["y", "yes", "t", "true", "on", "1"]
WORDS_FALSE = ["n", "no", "f", "false", "off", "0"]


def plan(tier, seed):
    cases = []
    nrep = 6 if tier == "quick" else 600
    for n in range(1, 13):
        for spec in ("closed", "fractional", "degenerate", "zeros", "edge_in_lo", "edge_out_lo", "edge_in_hi", "edge_out_hi", "unrestricted",
                     "blocks", "diagonal"):
            for rep in range(nrep):
                cases.append({"kind": "naturals", "n": n, "spec": spec, "rep": rep, "seed": seed})
    for nvec in (1, 2, 3):
        for rep in range(10 if tier == "quick" else 5000):
            cases.append({"kind": "volume", "nvec": nvec, "rep": rep, "seed": seed})
    for n in range(1, 5 if tier == "quick" else 7):
        cases.append({"kind": "fourindex", "n": n})
    cases.append({"kind": "strtobool", "seed": seed, "nrandom": 2000 if tier == "quick" else 500000})
    return cases


def _v(key, msg, **kw):
    d = {"key": key, "msg": msg}
    d.update(kw)
    return d


def _random_orth(rng, n):
    q, r = np.linalg.qr(rng.normal(size=(n, n)))
    return q * np.sign(np.diag(r))


def case_naturals(case):
    from iodata.utils import check_dm, derive_naturals

    n, spec = case["n"], case["spec"]
    rng = rng_for(20, case["seed"], n, case["rep"], sum(map(ord, spec)))
    cond = float(10 ** rng.uniform(0, 4 if case["rep"] % 3 == 0 else 2.5))
    lam = np.exp(rng.uniform(-np.log(cond), 0, size=n))
    if n > 1:
        lam[0], lam[-1] = 1.0, 1.0 / cond
    q = _random_orth(rng, n)
    S = (q * lam) @ q.T
    S = (S + S.T) / 2
    # C = S^-1/2 U  (so that C^T S C = 1)
    C = (q * lam**-0.5) @ q.T @ _random_orth(rng, n)
    if spec in ("blocks", "diagonal") and n > 1:
        # structured input: non-interacting fragments / symmetry blocks (block-diagonal S and D), or a diagonal density matrix in
        # an orthonormal basis: natural orbitals then have exact zeros on whole groups of basis functions
        n1 = n // 2 if spec == "blocks" else 0
        S = np.zeros((n, n))
        C = np.zeros((n, n))
        if spec == "diagonal":
            S = np.eye(n)
            C = np.eye(n)[:, rng.permutation(n)]
            cond = 1.0
            if case["rep"] % 4 == 3:
                # an orthogonal, not normalised basis: small integers on the diagonal of S
                sdiag = rng.integers(1, 4, size=n).astype(float)
                S = np.diag(sdiag)
                C = np.diag(sdiag**-0.5)[:, rng.permutation(n)]
                cond = float(sdiag.max() / sdiag.min())
        else:
            for lo, hi in ((0, n1), (n1, n)):
                m = hi - lo
                q1 = _random_orth(rng, m)
                lam1 = np.exp(rng.uniform(-np.log(cond), 0, size=m))
                S[lo:hi, lo:hi] = (q1 * lam1) @ q1.T
                C[lo:hi, lo:hi] = (q1 * lam1**-0.5) @ q1.T @ _random_orth(rng, m)
            S = (S + S.T) / 2
    eps = float(10 ** rng.uniform(-6, -2))
    occ_max = 2.0 if spec != "unrestricted" else 1.0
    numerr = 1e2 * np.finfo(float).eps * cond**2 * occ_max + 1e-11  # bound on the eigenvalue error (S enters twice)
    margin = max(10 * numerr, 0.05 * eps)
    if spec == "closed":
        occ = np.where(np.arange(n) < (n + 1) // 2, 2.0, 0.0)
    elif spec in ("fractional", "blocks", "diagonal"):
        occ = rng.uniform(0.0, 2.0, size=n)
    elif spec == "degenerate":
        occ = rng.choice([0.0, 0.5, 1.0, 2.0], size=n)
    elif spec == "zeros":
        occ = np.zeros(n)
    elif spec == "unrestricted":
        occ = rng.choice([0.0, 1.0], size=n)
    elif spec == "edge_in_lo":
        occ = rng.uniform(0.0, 2.0, size=n)
        occ[rng.integers(n)] = -eps + margin
    elif spec == "edge_out_lo":
        occ = rng.uniform(0.0, 2.0, size=n)
        occ[rng.integers(n)] = -eps - margin
    elif spec == "edge_in_hi":
        occ = rng.uniform(0.0, 2.0, size=n)
        occ[rng.integers(n)] = occ_max + eps - margin
    elif spec == "edge_out_hi":
        occ = rng.uniform(0.0, 2.0, size=n)
        occ[rng.integers(n)] = occ_max + eps + margin
    D = (C * occ) @ C.T
    D = (D + D.T) / 2
    viols = []

    def layout(x):
        """The same matrix in the memory layout of this repetition: C order, Fortran order, transposed view."""
        mode = case["rep"] % 3
        if mode == 0:
            return x.copy()
        if mode == 1:
            return np.asfortranarray(x)
        return x.T.copy().T

    Dx, Sx = layout(D), layout(S)
    int_overlap = spec == "diagonal" and n > 1 and case["rep"] % 2 == 1
    if int_overlap:
        # the same overlap matrix held as integers (np.eye(n, dtype=int), np.diag([1, 2, 3])): exactly the same numbers
        Sx = S.astype(int)
    coeffs, occs = derive_naturals(Dx, Sx)
    # the matrices the caller holds are still the matrices that were analysed
    if not (np.array_equal(Dx, D) and np.array_equal(Sx, S)):
        viols.append(_v("naturals-input-modified", f"derive_naturals changed its {'density' if not np.array_equal(Dx, D) else 'overlap'} matrix argument "
                        f"(n={n}, layout mode {case['rep'] % 3}): the returned orbitals no longer describe the matrix the caller holds"))
    coeffs = np.asarray(coeffs)
    occs = np.asarray(occs)
    tol = 1e2 * np.finfo(float).eps * cond**2 * max(1.0, np.abs(occ).max()) + 1e-11
    if coeffs.shape != (n, n) or occs.shape != (n,):
        viols.append(_v("naturals-shape", f"shapes {coeffs.shape} {occs.shape} for n={n}"))
    else:
        err_orth = np.abs(coeffs.T @ S @ coeffs - np.eye(n)).max()
        if err_orth > tol:
            viols.append(_v("naturals-orthonormal", f"C^T S C - 1 = {err_orth:.2e} > {tol:.1e} (n={n}, cond={cond:.1e})"))
        err_occ = np.abs(np.sort(occs) - np.sort(occ)).max()
        if err_occ > tol:
            viols.append(_v("naturals-occupations", f"occupations differ from the generalized eigenvalues by {err_occ:.2e} > {tol:.1e}"))
        # generalized eigen-equation  (S D S) c = n S c
        resid = np.abs(S @ D @ S @ coeffs - (S @ coeffs) * occs).max()
        if resid > tol * 10:
            viols.append(_v("naturals-eigen", f"eigen-equation residual {resid:.2e}"))
        rec = (coeffs * occs) @ coeffs.T
        scale = np.abs(D).max() + 1e-300
        if np.abs(rec - D).max() > tol * max(1.0, scale) * cond**0.5 * 10:
            viols.append(_v("naturals-reconstruct", f"C n C^T differs from the density matrix by {np.abs(rec - D).max():.2e}"))
    expect_accept = (occ.min() >= -eps) and (occ.max() <= occ_max + eps)
    Dx, Sx = layout(D), layout(S)
    if int_overlap:
        Sx = S.astype(int)
    try:
        check_dm(Dx, Sx, eps=eps, occ_max=occ_max)
        accepted = True
        exc = None
    except Exception as e:  # "accepts exactly": any exception is a refusal, the statement does not prescribe its class
        accepted = False
        exc = repr(e)
    if not (np.array_equal(Dx, D) and np.array_equal(Sx, S)):
        viols.append(_v("naturals-input-modified", f"check_dm changed the matrices it was asked to check (n={n}, layout mode {case['rep'] % 3})"))
    if accepted is not None and accepted != expect_accept:
        viols.append(_v("check_dm-range", f"check_dm accepted={accepted} but occupations [{occ.min():.6g}, {occ.max():.6g}] "
                        f"vs [-eps, occ_max+eps] = [{-eps:.3g}, {occ_max + eps:.9g}] ({exc})"))
    # default arguments: eps=1e-4, occ_max=1.0
    occ_d = np.clip(occ, 0, 1)
    Dd = (C * occ_d) @ C.T
    try:
        check_dm((Dd + Dd.T) / 2, S)
    except Exception as e:
        viols.append(_v("check_dm-default", f"check_dm with default arguments rejected occupations in [0,1]: {e!r}"))
    return viols, [f"naturals:n={n}:{spec}{'+intS' if int_overlap else ''}:cond1e{int(np.log10(cond))}"], {"n": n, "spec": spec, "cond": cond, "eps": eps, "occ": occ.tolist()}


def case_volume(case):
    from iodata.utils import volume

    nvec = case["nvec"]
    rng = rng_for(20, 7, case["seed"], nvec, case["rep"])
    scale = float(10 ** rng.uniform(-1, 2))
    base = rng.normal(size=(nvec, 3)) * scale
    if case["rep"] % 4 == 0:
        base = np.diag(rng.uniform(0.5, 3, size=3))[:nvec] * scale  # orthorhombic
    viols = []
    neval = 0
    variants = []
    for perm in itertools.permutations(range(nvec)):
        for flip in itertools.product([1, -1], repeat=nvec):
            variants.append(base[list(perm)] * np.array(flip)[:, None])
    # reference: sqrt(det(Gram)) with the Gram matrix and its determinant in exact rational arithmetic (the entries are floats, hence
    # rationals): a floating-point det(B B^T) squares the conditioning of a flat cell and would be LESS accurate than the code under
    # test.  Tolerance: backward-error bound of a determinant / cross product of the rows, c * eps * prod(|row|), plus 1e-9 relative.
    from fractions import Fraction
    import math

    fb = [[Fraction(float(x)) for x in row] for row in base]
    g = [[sum(a * b for a, b in zip(r1, r2)) for r2 in fb] for r1 in fb]
    if nvec == 1:
        det = g[0][0]
    elif nvec == 2:
        det = g[0][0] * g[1][1] - g[0][1] * g[1][0]
    else:
        det = (g[0][0] * (g[1][1] * g[2][2] - g[1][2] * g[2][1]) - g[0][1] * (g[1][0] * g[2][2] - g[1][2] * g[2][0])
               + g[0][2] * (g[1][0] * g[2][1] - g[1][1] * g[2][0]))
    expect = math.sqrt(float(max(det, 0)))
    abs_tol = 64 * np.finfo(float).eps * float(np.prod(np.linalg.norm(base, axis=1)))
    for cell in variants:
        got = volume(cell)
        neval += 1
        hand = "n/a" if nvec < 3 else ("right" if np.linalg.det(cell) > 0 else "left")
        if not np.isfinite(got) or abs(got - expect) > 1e-9 * max(expect, 1e-300) + abs_tol:
            key = "volume-negative" if (abs(got + expect) <= 1e-9 * expect) else "volume-value"
            viols.append(_v(key, f"volume of {nvec} vectors ({hand}-handed) = {got!r}, expected sqrt(det(Gram)) = {expect!r}",
                            cell=cell.tolist()))
    if nvec == 1:
        got = volume(base[0])  # documented: a single vector may be given as shape (3,)
        neval += 1
        if abs(got - expect) > 1e-9 * expect:
            viols.append(_v("volume-value", f"volume of a single 1-D vector = {got!r}, expected {expect!r}"))
    # (four or more cell vectors are outside the statement - "one, two or three" - and are not judged)
    return viols, [f"volume:{nvec}:{'ortho' if case['rep'] % 4 == 0 else 'triclinic'}"], {"cell": base.tolist(), "variants": neval}, neval


def _orbit(idx):
    gens = [lambda t: (t[1], t[0], t[3], t[2]), lambda t: (t[2], t[1], t[0], t[3]), lambda t: (t[0], t[3], t[2], t[1])]
    seen = {tuple(idx)}
    todo = [tuple(idx)]
    while todo:
        t = todo.pop()
        for g in gens:
            u = g(t)
            if u not in seen:
                seen.add(u)
                todo.append(u)
    return seen


def case_fourindex(case):
    from iodata.utils import set_four_index_element

    n = case["n"]
    viols = []
    count = 0
    # the target in every memory layout a caller may hold: C order, Fortran order, a transposed view, the leading
    # sub-block of a larger tensor (e.g. the alpha block of a spin-orbital array), a reversed view
    def targets():
        big = np.zeros((n + 1,) * 4)
        return {"C": np.zeros((n, n, n, n)), "F": np.zeros((n, n, n, n), order="F"), "transposed": np.zeros((n, n, n, n)).transpose(3, 1, 2, 0),
                "sub-block": big[:n, :n, :n, :n], "reversed": np.zeros((n, n, n, n))[::-1, :, ::-1, :]}

    for idx in itertools.product(range(n), repeat=4):
        for lname, arr in targets().items():
            set_four_index_element(arr, *idx, 1.25)
            count += 1
            got = {tuple(int(x) for x in t) for t in np.argwhere(arr != 0)}
            want = _orbit(idx)
            if got != want or not np.all(arr[arr != 0] == 1.25):
                viols.append(_v("four-index", f"n={n} quadruple {idx} ({lname} layout): filled {sorted(got)} expected orbit {sorted(want)}"))
        # the value assigned is whatever the caller says - also zero, onto a target that holds other numbers (NaN as a marker of
        # missing entries, an element stored earlier and reset)
        for fill, val in ((np.nan, 0.0), (7.5, -0.0), (7.5, 0.0)):
            arr = np.full((n, n, n, n), fill)
            set_four_index_element(arr, *idx, val)
            count += 1
            hit = {tuple(int(x) for x in t) for t in np.argwhere(arr == 0.0)}
            rest_ok = bool(np.isnan(arr[arr != 0.0]).all()) if np.isnan(fill) else bool((arr[arr != 0.0] == fill).all())
            if hit != _orbit(idx) or not rest_ok:
                viols.append(_v("four-index", f"n={n} quadruple {idx}: value {val!r} assigned onto a target filled with {fill}: positions set "
                                              f"{sorted(hit)} expected orbit {sorted(_orbit(idx))}"))
        if len(viols) > 5:
            break
    return viols, [f"fourindex:n={n}"], {"n": n, "quadruples": count}, count


def case_strtobool(case):
    from iodata.utils import strtobool

    viols = []
    count = 0
    vocab = {}
    for w in WORDS_TRUE:
        vocab[w] = True
    for w in WORDS_FALSE:
        vocab[w] = False
    for w, val in vocab.items():
        for mask in itertools.product([False, True], repeat=len(w)):
            s = "".join(c.upper() if m else c for c, m in zip(w, mask))
            count += 1
            try:
                got = strtobool(s)
            except Exception as e:
                viols.append(_v("strtobool-reject", f"documented word {s!r} rejected: {e!r}"))
                continue
            if got is not val:
                viols.append(_v("strtobool-value", f"{s!r} -> {got!r}, expected {val!r}"))
    rng = rng_for(20, 99, case["seed"])
    alphabet = list("yesnotrufalf01 .-_YNTF2ü")
    others = ["", " ", "yes ", " no", "2", "-1", "tru", "fals", "o", "of", "onn", "none", "null", "yess", "01", "10", "t.", ".true.", ".false.", "T F"]
    for _ in range(case["nrandom"]):
        k = int(rng.integers(1, 7))
        others.append("".join(rng.choice(alphabet, size=k)))
    nrej = 0
    for s in others:
        if s.lower() in vocab:
            continue
        count += 1
        try:
            got = strtobool(s)
        except Exception:  # "accepts exactly the documented words": any exception is a refusal
            nrej += 1
            continue
            continue
        viols.append(_v("strtobool-accept", f"undocumented string {s!r} accepted as {got!r}"))
    return viols, ["strtobool:vocabulary", "strtobool:others"], {"strings": count, "rejected": nrej}, count


def run_case(case):
    kind = case["kind"]
    counters = {}
    if kind == "naturals":
        viols, feats, sample = case_naturals(case)
        counters["derive_naturals_calls"] = 1
        counters["check_dm_calls"] = 2
    elif kind == "volume":
        viols, feats, sample, n = case_volume(case)
        counters["volume_calls"] = n
    elif kind == "fourindex":
        viols, feats, sample, n = case_fourindex(case)
        counters["four_index_assignments"] = n
    else:
        viols, feats, sample, n = case_strtobool(case)
        counters["strtobool_calls"] = n
    return {"status": "violation" if viols else "ok", "violations": viols, "features": feats, "counters": counters, "sample": sample}
