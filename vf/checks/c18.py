"""C18 - the command-line converter does exactly what the API does.

(input file, target format, option set) triples are run (a) as `python -m iodata ...` in a subprocess with a sentinel
pre-written at the output path, (b) through the corresponding API calls, (c) through iodata.__main__.convert().
Observed: exit status, stderr, bytes / existence of the output.
"""

import os
import shutil
import subprocess
import sys
import tempfile
import warnings

from .. import bootstrap
from ..gen import basis as gb
from ..gen import corpus
from ..gen import objects as go

PROPERTY = "C18"
LEVEL = "exploration"
RULE = (
    "(corpus or generated input file, target format) pairs over all 13 dump formats x {-i/-o given, inferred from the names} x "
    "{-c} x {-m} incl. impossible conversions (missing attributes, read-only targets, unknown formats, unloadable inputs); each as "
    "subprocess, API calls and convert(). distinct = distinct (source format, target format, option set, outcome); non-trivial = "
    "both the CLI and the API outcome were obtained and compared."
)
ASSUMPTIONS = ["the CLI's numpy floating-point trapping may turn an API success into a CLI error (admitted by the statement)"]
TIMEOUT = {"quick": 1500, "thorough": 7200}
CASE_TIMEOUT = 900
SENTINEL = b"sentinel: existing output file\n"


def sources(tier):
    ents = sorted(corpus.entries(max_cost=0.4, max_size=120_000), key=lambda e: e["size"])
    byfmt = {}
    for e in ents:
        byfmt.setdefault(e["fmt"], []).append(e)
    out = []
    for fmt, lst in sorted(byfmt.items()):
        out += lst[:(1 if tier == "quick" else 3)]
    return out


def plan(tier, seed):
    cases = []
    srcs = sources(tier)
    rng = gb.rng_for(18, seed)
    targets = go.DUMP_FORMATS + ["gromacs", "nonexistent_format"]
    for e in srcs:
        picks = targets if tier == "thorough" else [targets[int(i)] for i in rng.choice(len(targets), size=4, replace=False)]
        for t in picks:
            cases.append({"src": e["file"], "srcfmt": e["fmt"], "explicit_in": e["explicit"], "target": t,
                          "opts": {"c": bool(rng.integers(2)), "m": bool(rng.integers(4) == 0), "i": bool(rng.integers(2)), "o": bool(rng.integers(2))}})
    # directed: conversions that need -c (generalized contractions in CP2K logs), and inputs that need -i (extended XYZ)
    for fn in ("atom_om2.cp2k.out", "atom_si.cp2k.out", "carbon_gs_ae_contracted.cp2k.out"):
        for t in ("molden", "wfn", "wfx", "fchk"):
            for c in (False, True):
                for o in (False, True):
                    cases.append({"src": fn, "srcfmt": "cp2klog", "explicit_in": False, "target": t, "opts": {"c": c, "m": False, "i": False, "o": o}})
    for fn in ("al_fcc.xyz", "mgo.xyz"):
        for t in ("poscar", "xyz", "pdb"):
            for i in (False, True):
                cases.append({"src": fn, "srcfmt": "extxyz", "explicit_in": i, "target": t, "opts": {"c": False, "m": False, "i": i, "o": True}})
    # trajectories
    for fn in ("water_trajectory.xyz", "water_trajectory.pdb", "example.sdf", "caffeine.mol2", "peroxide_opt.fchk"):
        for t in go.MANY_FORMATS:
            cases.append({"src": fn, "srcfmt": None, "explicit_in": False, "target": t, "opts": {"c": False, "m": True, "i": False, "o": True}})
    # names that are symbolic links: the name typed decides the format (as in the API), not the name of the link's target
    for fn, link in (("water.xyz", "latest.pdb"), ("water_single_model.pdb", "latest.xyz"), ("water.xyz", "current_frame"),
                     ("example.sdf", "mols.mol2")):
        for t in ("xyz", "pdb", "sdf"):
            for m in (False, True):
                cases.append({"src": fn, "srcfmt": None, "explicit_in": False, "target": t, "link_src": link,
                              "opts": {"c": False, "m": m, "i": False, "o": False}})
    for fn in ("water.xyz", "water_trajectory.xyz"):
        for t, store in (("xyz", "result.pdb"), ("pdb", "result.xyz"), ("sdf", "object_3f9a1c07")):
            for m in (False, True):
                cases.append({"src": fn, "srcfmt": None, "explicit_in": False, "target": t, "link_out": store,
                              "opts": {"c": False, "m": m, "i": False, "o": False}})
    # a file converted onto itself (the same path as input and output): the API calls rewrite it in IOData's own layout
    for fn in ("water.xyz", "water_trajectory.xyz", "example.sdf", "caffeine.mol2", "water_single_model.pdb", "nh3_orca.molden", "h2o_sto3g.wfn"):
        if os.path.exists(os.path.join(bootstrap.DATA_DIR, fn)):
            for m in (False, True):
                for io in (False, True):
                    cases.append({"src": fn, "srcfmt": None, "explicit_in": False, "inplace": True, "target": "inplace",
                                  "opts": {"c": False, "m": m, "i": io, "o": io}})
    # directories whose NAMES satisfy a pattern of some format (POSCAR_runs/, h2_FCIDUMP_files/, frames.xyz/ ...): the names are given
    # relative to the working directory; only the base name decides the format, as in the API
    for pat in DIR_NAMES:
        for fn, t in (("water.xyz", "pdb"), ("POSCAR.water", "xyz"), ("FCIDUMP.molpro.h2", "xyz"), ("water_trajectory.xyz", "sdf")):
            cases.append({"src": fn, "srcfmt": None, "explicit_in": False, "target": t, "dirpat": pat,
                          "opts": {"c": False, "m": fn == "water_trajectory.xyz", "i": False, "o": False}})
    # an output name in a directory that does not exist (a mistyped path): the API calls fail when they open the output
    for fn, t, m in (("water.xyz", "pdb", False), ("water_trajectory.xyz", "sdf", True), ("water.xyz", "xyz", False), ("FCIDUMP.molpro.h2", "xyz", False)):
        for o in (False, True):
            cases.append({"src": fn, "srcfmt": None, "explicit_in": False, "target": t, "missing_outdir": True,
                          "opts": {"c": False, "m": m, "i": False, "o": o}})
    # the output name is the standard-output device (conversion inside a pipeline): the stream carries the file and nothing else
    for fn, t, m in (("water.xyz", "pdb", False), ("water.xyz", "xyz", False), ("water_trajectory.xyz", "sdf", True), ("caffeine.mol2", "mol2", False)):
        for dev in ("/dev/stdout", "/dev/fd/1"):
            cases.append({"stdout": dev, "src": fn, "target": t, "many": m})
    # input names containing characters that shells and glob() treat as patterns, next to a file the pattern would match: the file
    # NAMED is converted, as by the API
    for name, sibling in (("scan[3].xyz", "scan3.xyz"), ("[Zn(H2O)6].xyz", "Z.xyz"), ("frame?.xyz", "frame1.xyz"), ("all*.xyz", "all_frames.xyz")):
        for t, m in (("pdb", False), ("sdf", True), ("xyz", False)):
            cases.append({"src": "water.xyz", "srcfmt": None, "explicit_in": False, "target": t, "globname": [name, sibling],
                          "opts": {"c": False, "m": m, "i": False, "o": False}})
    # the same input NAME converted again after its content was replaced (a script looping over a scratch file): convert() called
    # twice in one process must use the content that is there at the time of the call, as the API calls do
    for t in ("mol2", "pdb", "sdf", "xyz"):
        for m in (False, True):
            cases.append({"reuse": ["water.xyz", "s66_4114_02WaterMeOH.xyz", "water_number.xyz"], "target": t, "many": m})
    # numerically pathological but syntactically valid inputs: the CLI's floating-point trapping may turn them into errors
    # (admitted), but never into a reported success with other content
    for name in sorted(pathological_sources()):
        for t in ("xyz", "sdf", "pdb", "mol2"):
            for m in (False, True):
                cases.append({"text": name, "target": t, "opts": {"c": False, "m": m, "i": False, "o": False}})
    # generated wavefunction objects written to fchk first (conversions that need -c)
    for k in range(4 if tier == "quick" else 30):
        cases.append({"gen": k, "seed": seed, "target": ["molden", "wfn", "wfx", "molekel"][k % 4], "opts": {"c": bool(k % 2), "m": False, "i": False, "o": False}})
    return cases


# directory names built from the name patterns of the formats ('*' replaced by text)
DIR_NAMES = ["POSCAR_runs", "CHGCAR_old", "LOCPOT.d", "h2_FCIDUMP_files", "frames.xyz", "checkpoints.fchk", "run1.out", "all.molden",
             "inputs.com", "x.wfn", "x.cube", "x.dat", "x.log"]

MOL2_FRAME = """\
@<TRIPOS>MOLECULE
water {i}
    3     0     0     0
SMALL
USER_CHARGES

@<TRIPOS>ATOM
      1 O1    0.0000    0.0000    {z} O.3     1 HOH  -0.8340
      2 H1    0.7570    0.5860    0.0000 H       1 HOH   0.4170
      3 H2   -0.7570    0.5860    0.0000 H       1 HOH   0.4170
"""
XYZ_FRAME = "3\nwater {i}\nO 0.0 0.0 {z}\nH 0.757 0.586 0.0\nH -0.757 0.586 0.0\n"
SDF_FRAME = """\
water {i}
  generated

  3  0  0  0  0  0  0  0  0  0999 V2000
    0.0000    0.0000{z:>10s} O   0  0  0  0  0  0  0  0  0  0  0  0
    0.7570    0.5860    0.0000 H   0  0  0  0  0  0  0  0  0  0  0  0
   -0.7570    0.5860    0.0000 H   0  0  0  0  0  0  0  0  0  0  0  0
M  END
$$$$
"""


def pathological_sources():
    """{file name: text}: trajectories in which one coordinate of one frame is huge (overflows on unit conversion) or NaN."""
    out = {}
    for tag, bad in (("huge", "1.0e308"), ("nan", "nan"), ("inf", "inf")):
        for nframe, ibad in ((1, 0), (4, 2)):
            z = lambda i: bad if i == ibad else f"0.{i}000"  # noqa: E731
            out[f"{tag}{nframe}.mol2"] = "".join(MOL2_FRAME.format(i=i, z=z(i)) for i in range(nframe))
            out[f"{tag}{nframe}.xyz"] = "".join(XYZ_FRAME.format(i=i, z=z(i)) for i in range(nframe))
            out[f"{tag}{nframe}.sdf"] = "".join(SDF_FRAME.format(i=i, z=z(i)) for i in range(nframe))
    return out


def _v(key, msg, **kw):
    d = {"key": key, "msg": msg}
    d.update(kw)
    return d


def names_problem(stderr, api_outcome, api_exc, out_api, out_cli):
    """"an error naming the problem": the exception class, or a recognisable part of its message (any 24 consecutive
    characters of a message line, output directories normalised), appears on stderr."""
    if api_outcome in stderr:
        return True
    err = stderr.replace(os.path.dirname(out_cli), "<DIR>")
    for line in str(api_exc).replace(os.path.dirname(out_api), "<DIR>").splitlines():
        line = line.strip()
        for k in range(0, max(1, len(line) - 24), 8):
            if len(line) >= 24 and line[k:k + 24] in err:
                return True
    return False


def api_run(src, infmt, out, outfmt, many, allow):
    import iodata

    with warnings.catch_warnings():
        warnings.simplefilter("ignore")
        try:
            if many:
                iodata.dump_many(iodata.load_many(src, fmt=infmt), out, allow_changes=allow, fmt=outfmt)
            else:
                iodata.dump_one(iodata.load_one(src, fmt=infmt), out, allow_changes=allow, fmt=outfmt)
            return "ok", None
        except Exception as exc:
            return type(exc).__name__, exc


def case_reuse(case):
    import iodata
    from iodata.__main__ import convert

    root = tempfile.mkdtemp(prefix="vf_c18r_")
    viols = []
    counters = {"convert_runs": 0, "api_runs": 0, "byte_comparisons": 0, "reuse_cases": 1}
    try:
        src = os.path.join(root, "scratch.xyz")
        for step, fn in enumerate(case["reuse"]):
            shutil.copy(os.path.join(bootstrap.DATA_DIR, fn), src)
            out_cv = os.path.join(root, f"cv{step}", go.filename(case["target"], "out"))
            out_api = os.path.join(root, f"api{step}", go.filename(case["target"], "out"))
            os.makedirs(os.path.dirname(out_cv))
            os.makedirs(os.path.dirname(out_api))
            with warnings.catch_warnings():
                warnings.simplefilter("ignore")
                try:
                    convert(src, out_cv, case["many"], None, None, False)
                    cv = "ok"
                except Exception as exc:
                    cv = type(exc).__name__
                counters["convert_runs"] += 1
                api, _exc = api_run(src, None, out_api, None, case["many"], False)
                counters["api_runs"] += 1
            b_cv = open(out_cv, "rb").read() if os.path.exists(out_cv) else None
            b_api = open(out_api, "rb").read() if os.path.exists(out_api) else None
            counters["byte_comparisons"] += 1
            if (cv == "ok") != (api == "ok") or (cv == "ok" and b_cv != b_api):
                viols.append(_v("convert-function-differs", f"step {step} ({fn} copied to scratch.xyz -> {case['target']}{' -m' if case['many'] else ''}): "
                                f"convert() -> {cv}, API -> {api}, or different bytes ({len(b_cv or b'')} vs {len(b_api or b'')}): a second "
                                "conversion of the same input name does not use the file's current content"))
    finally:
        shutil.rmtree(root, ignore_errors=True)
    feat = f"reuse:{case['target']}:{'m' if case['many'] else ''}"
    return {"status": "violation" if viols else "ok", "violations": viols, "features": [feat], "counters": counters,
            "sample": {"cmd": f"convert(scratch.xyz, out.{case['target']}) x {len(case['reuse'])} with the content replaced in between"}}


def case_stdout(case):
    """python -m iodata <input> /dev/stdout -o <fmt> with stdout captured, against the file the API calls write."""
    root = tempfile.mkdtemp(prefix="vf_c18o_")
    viols = []
    counters = {"cli_runs": 1, "api_runs": 1, "stdout_cases": 1, "byte_comparisons": 0}
    try:
        src = os.path.join(bootstrap.DATA_DIR, case["src"])
        args = ["-o", case["target"]] + (["-m"] if case["many"] else [])
        env = dict(os.environ, PYTHONPATH=bootstrap.REPO, PYTHONHASHSEED="0")
        r = subprocess.run([sys.executable, "-m", "iodata", src, case["stdout"], *args], capture_output=True, timeout=600, env=env, cwd=root)
        out_api = os.path.join(root, "api_out")
        api_outcome, api_exc = api_run(src, None, out_api, case["target"], case["many"], False)
        tag = f"{case['src']} -> {case['stdout']} {' '.join(args)}"
        if r.returncode == 0 and api_outcome == "ok":
            counters["byte_comparisons"] += 1
            want = open(out_api, "rb").read()
            if r.stdout != want:
                viols.append(_v("cli-output-differs", f"{tag}: CLI exit 0 but the stream holds {len(r.stdout)} bytes, the API writes {len(want)} "
                                f"(first difference near byte {next((i for i, (a, b) in enumerate(zip(r.stdout, want)) if a != b), min(len(r.stdout), len(want)))})"))
        elif r.returncode == 0:
            viols.append(_v("cli-success-api-failure", f"{tag}: CLI exit 0 but the API calls raise {api_outcome}: {api_exc}"))
        elif api_outcome == "ok":
            # a device the platform does not let the process reopen is an environment limitation, not a verdict
            counters["stdout_device_unusable"] = 1
        feat = f"stdout:{case['target']}:{'m' if case['many'] else ''}:cli={r.returncode}:api={api_outcome}"
    finally:
        shutil.rmtree(root, ignore_errors=True)
    return {"status": "violation" if viols else "ok", "violations": viols, "features": [feat], "counters": counters,
            "sample": {"cmd": f"python -m iodata {case['src']} {case['stdout']} {' '.join(args)}", "exit": r.returncode}}


def run_case(case):
    if "reuse" in case:
        return case_reuse(case)
    if "stdout" in case:
        return case_stdout(case)
    import iodata
    from iodata.__main__ import convert

    root = tempfile.mkdtemp(prefix="vf_c18_")
    viols = []
    counters = {"cli_runs": 0, "api_runs": 0, "convert_runs": 0, "byte_comparisons": 0, "cli_exit0": 0, "cli_errors": 0, "cli_fp_traps": 0}
    try:
        opts = case["opts"]
        if "gen" in case:
            from ..gen import wfnobjects as wo

            rng = gb.rng_for(18, 3, case["seed"], case["gen"])
            data, feats = wo.make(rng, "fchk", nbasis_max=20, spin="restricted", ghosts="none", lmax=2,
                                  contraction="generalized" if case["gen"] % 3 == 0 else "segmented")
            src = os.path.join(root, "gen_source.fchk")
            with warnings.catch_warnings():
                warnings.simplefilter("ignore")
                try:
                    iodata.dump_one(data, src, allow_changes=True)
                except Exception:
                    return {"status": "skip"}
            srcfmt, explicit_in = "fchk", False
            label = f"generated fchk ({feats['contraction']})"
        elif "text" in case:
            src = os.path.join(root, case["text"])
            with open(src, "w") as fh:
                fh.write(pathological_sources()[case["text"]])
            srcfmt, explicit_in = None, False
            label = f"pathological {case['text']}"
        else:
            src = os.path.join(bootstrap.DATA_DIR, case["src"])
            srcfmt, explicit_in = case["srcfmt"], case["explicit_in"]
            label = case["src"]
            if case.get("link_src"):
                link = os.path.join(root, case["link_src"])
                os.symlink(src, link)
                src, label = link, f"{case['link_src']} -> {case['src']}"
                counters["symlink_cases"] = 1
        target = case["target"]
        src_for = {"cli": src, "api": src, "cv": src}
        if case.get("inplace"):
            target = iodata.api._select_format_module(case["src"], "load_one", None).__name__.split(".")[-1]
            srcfmt = target
        known_target = target in iodata.api.FORMAT_MODULES
        give_o = opts["o"] or target == "json_qcschema" or not known_target or not go.EXT.get(target)
        outname = go.filename(target, "out") if target in go.EXT else ("out.gro" if target == "gromacs" else "out.dat")
        if give_o and opts["o"]:
            outname = "out_no_hint.dat"
        if case.get("inplace"):
            outname = case["src"]
            counters["inplace_cases"] = 1
            for which in ("cli", "api", "cv"):
                os.makedirs(os.path.join(root, which), exist_ok=True)
                shutil.copy(src, os.path.join(root, which, outname))
                src_for[which] = os.path.join(root, which, outname)
        sub = case.get("dirpat", "") or ("g" if case.get("globname") else "")
        if sub:
            counters["globname_cases" if case.get("globname") else "dirname_cases"] = 1
            for which in ("cli", "api", "cv"):
                os.makedirs(os.path.join(root, which, sub), exist_ok=True)
                src_for[which] = os.path.join(root, which, sub, case["globname"][0] if case.get("globname") else os.path.basename(src))
                shutil.copy(src, src_for[which])
                if case.get("globname"):
                    shutil.copy(os.path.join(bootstrap.DATA_DIR, "s66_4114_02WaterMeOH.xyz"), os.path.join(root, which, sub, case["globname"][1]))
            label = f"{sub}/{case['globname'][0]} (next to {case['globname'][1]})" if case.get("globname") else f"{sub}/{label}"
        odir = "no_such_dir" if case.get("missing_outdir") else ""
        if odir:
            counters["missing_outdir_cases"] = 1
        infmt = srcfmt if (explicit_in or (opts["i"] and srcfmt)) else None
        outfmt = target if give_o else None
        args = []
        if infmt:
            args += ["-i", infmt]
        if outfmt:
            args += ["-o", outfmt]
        if opts["c"]:
            args.append("-c")
        if opts["m"]:
            args.append("-m")
        tag = f"{label} -> {target} {' '.join(args)}"
        # (a) CLI
        out_cli = os.path.join(root, "cli", sub, odir, outname)
        os.makedirs(os.path.dirname(out_cli) if not odir else os.path.join(root, "cli", sub), exist_ok=True)
        if case.get("link_out"):
            # every output name is a symbolic link into a store directory whose file has another name
            counters["symlink_cases"] = 1
            for which in ("cli", "api", "cv"):
                os.makedirs(os.path.join(root, which, "store"), exist_ok=True)
                os.makedirs(os.path.join(root, which), exist_ok=True)
                os.symlink(os.path.join(root, which, "store", case["link_out"]), os.path.join(root, which, outname))
            label += f" (output link -> store/{case['link_out']})"
        if not case.get("inplace") and not odir:
            with open(out_cli, "wb") as fh:
                fh.write(SENTINEL)
        env = dict(os.environ, PYTHONPATH=bootstrap.REPO, PYTHONHASHSEED="0")
        cli_cwd = os.path.join(root, "cli") if sub else root
        cli_names = [os.path.relpath(src_for["cli"], cli_cwd), os.path.relpath(out_cli, cli_cwd)] if sub else [src_for["cli"], out_cli]
        r = subprocess.run([sys.executable, "-m", "iodata", *cli_names, *args], capture_output=True, text=True, timeout=600, env=env, cwd=cli_cwd)
        counters["cli_runs"] += 1
        cli_bytes = open(out_cli, "rb").read() if os.path.exists(out_cli) else None
        # (b) API
        out_api = os.path.join(root, "api", sub, odir, outname)
        os.makedirs(os.path.dirname(out_api) if not odir else os.path.join(root, "api", sub), exist_ok=True)
        if not case.get("inplace") and not odir:
            with open(out_api, "wb") as fh:
                fh.write(SENTINEL)
        api_outcome, api_exc = api_run(src_for["api"], infmt, out_api, outfmt, opts["m"], opts["c"])
        counters["api_runs"] += 1
        api_bytes = open(out_api, "rb").read() if os.path.exists(out_api) else None
        # (c) convert()
        out_cv = os.path.join(root, "cv", sub, odir, outname)
        os.makedirs(os.path.dirname(out_cv) if not odir else os.path.join(root, "cv", sub), exist_ok=True)
        cwd0 = os.getcwd()
        cv_names = [src_for["cv"], out_cv]
        if sub:
            os.chdir(os.path.join(root, "cv"))
            cv_names = [os.path.relpath(n, os.path.join(root, "cv")) for n in cv_names]
        with warnings.catch_warnings():
            warnings.simplefilter("ignore")
            try:
                convert(cv_names[0], cv_names[1], opts["m"], infmt, outfmt, opts["c"])
                cv_outcome = "ok"
            except Exception as exc:
                cv_outcome = type(exc).__name__
            finally:
                os.chdir(cwd0)
        counters["convert_runs"] += 1
        cv_bytes = open(out_cv, "rb").read() if os.path.exists(out_cv) else None

        def norm(b, path):
            # QCSchema provenance etc. do not contain paths; titles may: normalise the directory name
            return None if b is None else b.replace(os.path.dirname(path).encode(), b"<DIR>")

        if r.returncode == 0:
            counters["cli_exit0"] += 1
            if api_outcome != "ok":
                viols.append(_v("cli-success-api-failure", f"{tag}: CLI exit 0 but the API calls raise {api_outcome}: {api_exc}"))
            else:
                counters["byte_comparisons"] += 1
                if cli_bytes is None or cli_bytes == SENTINEL:
                    viols.append(_v("cli-success-no-output", f"{tag}: CLI exit 0 but the output was not written"))
                elif norm(cli_bytes, out_cli) != norm(api_bytes, out_api):
                    viols.append(_v("cli-output-differs", f"{tag}: CLI exit 0 but bytes differ from the API result "
                                    f"({len(cli_bytes)} vs {len(api_bytes or b'')} bytes)"))
        else:
            counters["cli_errors"] += 1
            if not r.stderr.strip():
                viols.append(_v("cli-error-silent", f"{tag}: exit {r.returncode} with empty stderr"))
            if api_outcome == "ok":
                # admitted: the CLI traps floating-point errors (np.seterr) which the API does not
                if "FloatingPointError" in r.stderr:
                    counters["cli_fp_traps"] += 1
                else:
                    viols.append(_v("cli-failure-api-success", f"{tag}: CLI exit {r.returncode} but the API calls succeed; stderr: {r.stderr[-300:]}"))
            else:
                if not names_problem(r.stderr, api_outcome, api_exc, out_api, out_cli):
                    viols.append(_v("cli-error-not-named", f"{tag}: stderr does not name the problem ({api_outcome}): {r.stderr[-200:]}"))
                if api_outcome in ("PrepareDumpError", "FileFormatError") or (api_outcome in ("LoadError", "FileNotFoundError") and not opts["m"]):
                    # pre-flight rejection (nothing could be written): the existing output must be untouched
                    pre_bytes = open(src, "rb").read() if case.get("inplace") else (None if odir else SENTINEL)
                    if cli_bytes != pre_bytes:
                        viols.append(_v("cli-preflight-clobbers-output", f"{tag}: rejected with {api_outcome} before writing, but the existing "
                                        "output file was modified by the CLI"))
                    if api_bytes != pre_bytes:
                        viols.append(_v("api-preflight-clobbers-output", f"{tag}: API rejected with {api_outcome} but modified the existing file"))
        if (cv_outcome == "ok") != (api_outcome == "ok") or (cv_outcome == "ok" and norm(cv_bytes, out_cv) != norm(api_bytes, out_api)):
            viols.append(_v("convert-function-differs", f"{tag}: convert() -> {cv_outcome}, API -> {api_outcome}, or different bytes"))
        feat = f"{srcfmt}->{target}:{'c' if opts['c'] else ''}{'m' if opts['m'] else ''}{'i' if infmt else ''}{'o' if outfmt else ''}:cli={r.returncode}:api={api_outcome}"
    finally:
        shutil.rmtree(root, ignore_errors=True)
    sample = {"cmd": f"python -m iodata {label} {outname} {' '.join(args)}", "exit": r.returncode, "api": api_outcome}
    return {"status": "violation" if viols else "ok", "violations": viols, "features": [feat], "counters": counters, "sample": sample}


def finish(results, tier):
    tot = {}
    for r in results:
        for k, v in (r.get("counters") or {}).items():
            tot[k] = tot.get(k, 0) + v
    if tot.get("cli_exit0", 0) == 0 or tot.get("cli_errors", 0) == 0 or tot.get("byte_comparisons", 0) == 0:
        return {"inconclusive": f"both CLI outcomes must be observed: {tot}"}
    return {}
