"""C10 - basis-function convention conversion is an exact signed permutation.

Monitors the return value of the real `iodata.convert.convert_conventions` against an
independent label law and against the reference evaluator R.gto (the function
sum_i c_i chi_i(r) must be invariant under conversion of (c, conventions)).
"""

import itertools
import zlib

import numpy as np

from ..gen import basis as gb
from ..ref import gto

PROPERTY = "C10"
LEVEL = "exploration"
RULE = (
    "finite part enumerated at run time: every entry of every convention table, every ordered pair of "
    "tables on every shared shell type, every single-label corruption (omit / duplicate / label of "
    "another l) of every entry; random part: shell sequences incl. generalized contractions x random "
    "permutation+sign conventions, l <= 9. A case is non-trivial when the conversion is not the identity "
    "map; distinct = distinct (kind of check, table(s), shell type) or distinct (shell-type set) for random bases."
)
EXHAUSTIVE = ["table entries", "ordered table pairs x shared shell types", "single-label corruptions"]
ASSUMPTIONS = ["R.gto label parser and solid harmonics (self-tested each run)", "numpy"]
TIMEOUT = {"quick": 600, "thorough": 3600}


def selftest():
    return gto.selftest(5)


def plan(tier, seed):
    bootstrap_tables = sorted(gb.tables())
    cases = []
    for t in bootstrap_tables:
        cases.append({"kind": "table", "table": t})
        cases.append({"kind": "corrupt", "table": t})
    for a, b in itertools.product(bootstrap_tables, repeat=2):
        cases.append({"kind": "pair", "a": a, "b": b})
    nchunks = 40 if tier == "quick" else 4000
    for i in range(nchunks):
        cases.append({"kind": "random", "seed": seed, "chunk": i, "n": 50 if tier == "quick" else 100})
    return cases


# ---------------------------------------------------------------------------------------
# independent oracle


def _split(label):
    nminus = len(label) - len(label.lstrip("-"))
    return (-1) ** nminus, label.lstrip("-"), nminus


def expected_perm(shell_keys, conv1, conv2, reverse=False):
    """Label law, written without looking at iodata's implementation.

    forward:  v2 = v1[perm] * signs ; the function labelled X in the source goes to the position
    labelled X in the target, multiplied by the product of the two label signs.
    reverse:  v1 = v2[perm] * signs.
    """
    perm, signs = [], []
    for key in shell_keys:
        c1 = [_split(x) for x in conv1[key]]
        c2 = [_split(x) for x in conv2[key]]
        off = len(perm)
        src, dst = (c1, c2) if not reverse else (c2, c1)
        for s_d, name_d, _ in dst:
            js = [j for j, (_, name_s, _) in enumerate(src) if name_s == name_d]
            assert len(js) == 1
            perm.append(off + js[0])
            signs.append(src[js[0]][0] * s_d)
    return np.array(perm), np.array(signs)


def _viol(key, msg, **kw):
    d = {"key": key, "msg": msg}
    d.update(kw)
    return d


def check_table(name, table):
    viols, feats = [], []
    for key, labels in table.items():
        l, kind = key
        try:
            want = gto.canonical_labels(int(l), str(kind))
        except Exception as exc:
            viols.append(_viol("table-entry", f"{name}{key}: bad key {exc!r}"))
            continue
        stripped = [_split(x)[1] for x in labels]
        if sorted(stripped) != sorted(want):
            viols.append(_viol("table-entry", f"{name}{key}: labels {labels} are not each function of the shell exactly once"))
        if any(_split(x)[2] > 1 for x in labels):
            viols.append(_viol("table-entry", f"{name}{key}: label with more than one sign"))
        if kind == "p" and l < 2:
            viols.append(_viol("table-entry", f"{name}{key}: pure functions with l < 2"))
        feats.append(f"table:{name}:{l}{kind}")
    return viols, feats


def _convert(shells, conv1, conv2, reverse=False):
    from iodata.convert import convert_conventions

    b = gb.make_basis(shells, conv1)
    perm, signs = convert_conventions(b, conv2, reverse)
    return np.asarray(perm), np.asarray(signs)


def check_conversion(shells, conv1, conv2, rng, tag, semantic=True):
    """All relations for one basis and a pair of conventions. Returns (violations, nontrivial)."""
    viols = []
    keys = [(int(l), str(k)) for sh in shells for l, k in zip(sh.angmoms, sh.kinds)]
    perm, signs = _convert(shells, conv1, conv2)
    eperm, esigns = expected_perm(keys, conv1, conv2)
    n = len(eperm)
    if perm.shape != (n,) or signs.shape != (n,):
        return [_viol("conv-law", f"{tag}: wrong result shapes {perm.shape} {signs.shape}, nbasis={n}")], False
    if sorted(perm.tolist()) != list(range(n)) or not np.isin(signs, (-1, 1)).all():
        viols.append(_viol("conv-law", f"{tag}: result is not a signed permutation: {perm.tolist()} {signs.tolist()}"))
        return viols, False
    if (perm != eperm).any() or (signs != esigns).any():
        bad = int(np.nonzero((perm != eperm) | (signs != esigns))[0][0])
        viols.append(
            _viol("conv-law", f"{tag}: position {bad}: got source {int(perm[bad])} sign {int(signs[bad])}, "
                  f"label law gives {int(eperm[bad])} sign {int(esigns[bad])}")
        )
    # reverse flag = inverse map
    rperm, rsigns = _convert(shells, conv1, conv2, reverse=True)
    v1 = rng.normal(size=n)
    v2 = v1[perm] * signs
    back = v2[rperm] * rsigns
    if not np.array_equal(back, v1):
        viols.append(_viol("conv-reverse", f"{tag}: reverse=True is not the inverse of the forward conversion"))
    erperm, ersigns = expected_perm(keys, conv1, conv2, reverse=True)
    if (np.asarray(rperm) != erperm).any() or (np.asarray(rsigns) != ersigns).any():
        viols.append(_viol("conv-reverse", f"{tag}: reverse result differs from the label law"))
    # there and back
    bperm, bsigns = _convert(shells, conv2, conv1)
    if not np.array_equal(v2[bperm] * bsigns, v1):
        viols.append(_viol("conv-roundtrip", f"{tag}: A->B->A is not the identity"))
    if semantic:
        natom = max(sh.icenter for sh in shells) + 1
        xyz = gb.random_geometry(rng, natom)
        pts = rng.normal(scale=1.5, size=(6, 3))
        f1 = gto.eval_basis(gb.make_basis(shells, conv1), xyz, pts)
        f2 = gto.eval_basis(gb.make_basis(shells, conv2), xyz, pts)
        a = v1 @ f1
        b = v2 @ f2
        scale = np.abs(v1) @ np.abs(f1) + 1e-300
        if (np.abs(a - b) > 1e-12 * scale).any():
            viols.append(_viol("conv-semantic", f"{tag}: sum_i c_i chi_i(r) changed under conversion: {a[:3]} vs {b[:3]}"))
    nontrivial = not (np.array_equal(eperm, np.arange(n)) and (esigns == 1).all())
    return viols, nontrivial


def run_case(case):
    tabs = gb.tables()
    kind = case["kind"]
    counters = {"convert_calls": 0, "comparisons": 0}
    viols, feats = [], []
    rng = gb.rng_for(10, zlib.crc32(repr(sorted(case.items())).encode()))
    if kind == "table":
        viols, feats = check_table(case["table"], tabs[case["table"]])
        counters["comparisons"] = len(tabs[case["table"]])
        sample = {"table": case["table"], "entries": len(tabs[case["table"]])}
    elif kind == "pair":
        ta, tb = tabs[case["a"]], tabs[case["b"]]
        shared = sorted(set(ta) & set(tb))
        for key in shared:
            l, k = key
            sh = gb.make_shell(0, [l], [k], [0.8], [[1.0]])
            v, nt = check_conversion([sh], ta, tb, rng, f"{case['a']}->{case['b']} {key}", semantic=(l <= 7))
            counters["convert_calls"] += 4
            counters["comparisons"] += 1
            viols += v
            if nt:
                feats.append(f"pair:{case['a']}->{case['b']}:{l}{k}")
        # multi-shell basis with offsets: all shared types in random order, twice, plus a generalized shell
        if shared:
            small = [key for key in shared if key[0] <= 5]
            order = [small[i] for i in rng.permutation(len(small))] * 2
            shells = [gb.make_shell(i % 3, [l], [k], [0.5 + 0.1 * i], [[1.0]]) for i, (l, k) in enumerate(order)]
            if len(small) >= 2:
                gk = [small[i] for i in rng.integers(0, len(small), size=3)]
                shells.insert(1, gb.make_shell(1, [g[0] for g in gk], [g[1] for g in gk], [1.0, 0.3], np.ones((2, 3))))
            v, nt = check_conversion(shells, ta, tb, rng, f"{case['a']}->{case['b']} multi", semantic=True)
            counters["convert_calls"] += 4
            counters["comparisons"] += 1
            viols += v
            # A -> B -> C == A -> C for every third table sharing these keys
            for cname, tc in tabs.items():
                if all(key in tc for key in set(order)):
                    p_ab, s_ab = _convert(shells, ta, tb)
                    p_bc, s_bc = _convert(shells, tb, tc)
                    p_ac, s_ac = _convert(shells, ta, tc)
                    v1 = rng.normal(size=len(p_ab))
                    if not np.array_equal((v1[p_ab] * s_ab)[p_bc] * s_bc, v1[p_ac] * s_ac):
                        viols.append(_viol("conv-compose", f"{case['a']}->{case['b']}->{cname} differs from {case['a']}->{cname}"))
                    counters["convert_calls"] += 3
                    counters["comparisons"] += 1
        sample = {"pair": [case["a"], case["b"]], "shared_shell_types": [f"{l}{k}" for l, k in shared]}
    elif kind == "corrupt":
        name = case["table"]
        table = tabs[name]
        ncorr = 0
        sample = None
        for key, labels in table.items():
            l, k = key
            if l > 9:
                continue
            sh = gb.make_shell(0, [l], [k], [0.8], [[1.0]])
            other_l = l + 1 if l < 9 else l - 1
            foreign = sorted(gto.canonical_labels(other_l, k if (k == "c" or other_l >= 2) else "c"))[0]
            variants = []
            for i in range(len(labels)):
                variants.append(("omit", labels[:i] + labels[i + 1:]))
                j = (i + 1) % len(labels)
                if j != i:
                    variants.append(("duplicate", labels[:i] + [labels[j]] + labels[i + 1:]))
                    # the same function named twice, once with and once without the minus sign
                    flipped = labels[j][1:] if labels[j].startswith("-") else "-" + labels[j]
                    variants.append(("duplicate", labels[:i] + [flipped] + labels[i + 1:]))
                variants.append(("foreign", labels[:i] + [foreign] + labels[i + 1:]))
            for what, bad in variants:
                if sorted(_split(x)[1] for x in bad) == sorted(_split(x)[1] for x in labels):
                    continue  # not a corruption (e.g. l = 0 duplicate)
                # a duplicated label on both sides (the same damaged table used for source and target, as is or reordered)
                # is still a convention that duplicates a label
                directions = ("source", "target") + (("both-same", "both-reordered") if what == "duplicate" else ())
                for direction in directions:
                    good = {key: list(labels)}
                    badc = {key: list(bad)}
                    if direction == "both-same":
                        c1, c2 = badc, {key: list(bad)}
                    elif direction == "both-reordered":
                        c1, c2 = badc, {key: list(bad)[::-1]}
                    else:
                        c1, c2 = (badc, good) if direction == "source" else (good, badc)
                    for reverse in (False, True):
                        ncorr += 1
                        counters["convert_calls"] += 1
                        try:
                            res = _convert([sh], c1, c2, reverse)
                        except Exception as exc:  # rejected: any exception type is a rejection
                            counters["rejections"] = counters.get("rejections", 0) + 1
                            if sample is None:
                                sample = {"table": name, "key": f"{l}{k}", "corruption": what, "labels": bad,
                                          "rejected_with": type(exc).__name__}
                            continue
                        viols.append(_viol("corruption-accepted",
                                           f"{name}{key}: {what} corruption {bad} as {direction} (reverse={reverse}) "
                                           f"was accepted and mapped to {res[0].tolist()}"))
            # the whole entry of this shell type missing from the source or the target conventions (a table copied with one key
            # dropped, a basis carrying shells its conventions do not cover): nothing says how to order these functions
            other_key = next((kk for kk in table if kk != key), None)
            for direction in ("source", "target"):
                for reverse in (False, True):
                    full = {key: list(labels)}
                    lacking = {} if other_key is None else {other_key: list(table[other_key])}
                    c1, c2 = (lacking, full) if direction == "source" else (full, lacking)
                    ncorr += 1
                    counters["convert_calls"] += 1
                    try:
                        res = _convert([sh], c1, c2, reverse)
                    except Exception:
                        counters["rejections"] = counters.get("rejections", 0) + 1
                        continue
                    viols.append(_viol("corruption-accepted", f"{name}{key}: conventions without an entry for this shell type given as "
                                                              f"{direction} (reverse={reverse}) were accepted and mapped to {res[0].tolist()}"))
            feats.append(f"corrupt:{name}:{l}{k}")
        counters["comparisons"] = ncorr
    elif kind == "random":
        rng = gb.rng_for(10, case["seed"], case["chunk"])
        sample = None
        for _ in range(case["n"]):
            lmax = int(rng.choice([2, 3, 4, 6, 9], p=[0.3, 0.3, 0.2, 0.15, 0.05]))
            nshell = int(rng.integers(1, 6))
            shells = []
            for i in range(nshell):
                contraction = rng.choice(["segmented", "sp", "generalized"], p=[0.5, 0.15, 0.35])
                shells.append(gb.random_shell(rng, int(rng.integers(0, 3)), lmax=lmax, contraction=contraction))
            keys = gb.keys_of(shells)
            ca = gb.random_conventions(rng, keys)
            cb = gb.random_conventions(rng, keys)
            cc = gb.random_conventions(rng, keys)
            renamed = rng.random() < 0.3
            if renamed:
                # labels are arbitrary strings, optionally prefixed with '-': names that contain a minus sign themselves ("x2-y2")
                def ren(lab):
                    sign, name = ("-", lab[1:]) if lab.startswith("-") else ("", lab)
                    return f"{sign}{name}-{name}2"

                ca, cb, cc = ({k: [ren(x) for x in val] for k, val in c.items()} for c in (ca, cb, cc))
                counters["renamed_label_cases"] = counters.get("renamed_label_cases", 0) + 1
            v, nt = check_conversion(shells, ca, cb, rng, f"random {keys}{' (labels containing a minus sign)' if renamed else ''}",
                                     semantic=(lmax <= 6 and not renamed))
            counters["convert_calls"] += 4
            counters["comparisons"] += 1
            p_ab, s_ab = _convert(shells, ca, cb)
            p_bc, s_bc = _convert(shells, cb, cc)
            p_ac, s_ac = _convert(shells, ca, cc)
            v1 = rng.normal(size=len(p_ab))
            if not np.array_equal((v1[p_ab] * s_ab)[p_bc] * s_bc, v1[p_ac] * s_ac):
                v.append(_viol("conv-compose", f"random {keys}: A->B->C differs from A->C"))
            counters["convert_calls"] += 3
            # the SAME dictionary objects again after editing them in place: the result is a function of their contents at
            # the time of the call (a table damaged or repaired between two conversions must be seen as it is)
            key0 = keys[int(rng.integers(len(keys)))]
            if len(ca[key0]) > 1:
                ca[key0].reverse()
                first = ca[key0][0]
                ca[key0][0] = first[1:] if first.startswith("-") else "-" + first
                cb[key0] = cb[key0][1:] + cb[key0][:1]
                v2_, _nt = check_conversion(shells, ca, cb, rng, f"random {keys} after in-place edit of {key0}", semantic=False)
                v += v2_
                counters["convert_calls"] += 4
                counters["inplace_edits"] = counters.get("inplace_edits", 0) + 1
                saved = cb[key0][0]
                cb[key0][0] = cb[key0][1]  # now a duplicate: must be rejected although the same objects converted fine before
                try:
                    res = _convert(shells, ca, cb)
                    v.append(_viol("corruption-accepted", f"random {keys}: label list of {key0} damaged in place (duplicate) after a successful "
                                   f"conversion was accepted and mapped to {res[0].tolist()[:12]}"))
                except Exception:
                    counters["rejections"] = counters.get("rejections", 0) + 1
                cb[key0][0] = saved
            if v:
                for x in v:
                    x["conventions"] = {"a": {str(k): val for k, val in ca.items()}, "b": {str(k): val for k, val in cb.items()}}
                    x["shells"] = [[sh.icenter, sh.angmoms.tolist(), sh.kinds.tolist()] for sh in shells]
            viols += v
            if nt:
                feats.append("random:" + ",".join(f"{l}{k}" for l, k in keys) + f":gen={max(sh.ncon for sh in shells)}")
            if sample is None:
                sample = {"shells": [[sh.icenter, sh.angmoms.tolist(), sh.kinds.tolist()] for sh in shells],
                          "conv_a": {f"{l}{k}": val for (l, k), val in ca.items()},
                          "conv_b": {f"{l}{k}": val for (l, k), val in cb.items()}}
    else:
        raise ValueError(kind)
    return {
        "status": "violation" if viols else "ok",
        "violations": viols,
        "features": feats,
        "counters": counters,
        "sample": sample,
    }
