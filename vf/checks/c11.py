"""C11 - charge / electron count / core charges stay consistent under any assignments.

Bounded-exhaustive histories of construction + attribute assignments are executed on real IOData objects;
after every step a monitor reads the public observables and evaluates the invariants I1..I6 of DESIGN.md.
The history (operations and outcomes) is the witness.
"""

import itertools

import numpy as np

from ..gen.basis import rng_for

PROPERTY = "C11"
LEVEL = "exploration"
RULE = (
    "histories = constructor symbol + sequence of assignment symbols over a small value alphabet (None, arrays of length 2 and 3 "
    "as ndarray and list, integer/fractional/np.float64 charges, two orbital sets); exhaustive to depth 2 over the full alphabet "
    "and depth 3 over the core alphabet (quick), depth 3 full / depth 4 core (thorough), plus random histories of depth 5-10. "
    "After every step the public observables are read (twice, in two orders) and I1-I6 evaluated; each history is also replayed "
    "without intermediate reads. distinct = distinct histories; non-trivial = at least one assignment succeeded and at least one "
    "invariant had its premise satisfied."
)
EXHAUSTIVE = ["all histories up to the stated depth over the stated alphabets"]
ASSUMPTIONS = ["invariants are evaluated on public observables only; attrs validators run on assignment (attrs.define default)"]
TIMEOUT = {"quick": 900, "thorough": 7200}

PER_ATOM = ["atnums", "atcoords", "atmasses", "atgradient", "atfrozen"]


def _mo(which):
    from iodata.orbitals import MolecularOrbitals

    if which == "mo_r":
        return MolecularOrbitals("restricted", 2, 2, occs=np.array([2.0, 0.0]), coeffs=np.eye(2))
    if which == "mo_noocc":  # orbitals without occupation numbers (occs is optional): electron count and spin are undefined
        return MolecularOrbitals("restricted", 2, 2, coeffs=np.eye(2))
    return MolecularOrbitals("unrestricted", 2, 1, occs=np.array([1.0, 1.0, 1.0]), coeffs=np.ones((2, 3)))


def value(sym):
    """Materialise a value symbol (fresh object each time)."""
    if sym is None or isinstance(sym, (int, float)):
        return sym
    kind = sym[0]
    if kind == "nd":
        return np.array(sym[1], dtype=sym[2] if len(sym) > 2 else float)
    if kind == "list":
        return list(sym[1])
    if kind == "npf":
        return np.float64(sym[1])
    if kind == "mo":
        return _mo(sym[1])
    if kind == "coords":
        return np.arange(3 * sym[1], dtype=float).reshape(sym[1], 3) * 0.5
    raise ValueError(sym)


# assignment symbols (attribute, value symbol)
CORE_OPS = [
    ("atnums", None), ("atnums", ("nd", [1, 1], "int")), ("atnums", ("nd", [6, 6], "int")), ("atnums", ("nd", [8, 1, 1], "int")),
    ("atcorenums", None), ("atcorenums", ("nd", [1.0, 1.0])), ("atcorenums", ("nd", [0.5, 1.5])), ("atcorenums", ("nd", [6.0, 0.0, 1.0])),
    ("charge", None), ("charge", 0), ("charge", 1), ("charge", -0.5),
    ("nelec", None), ("nelec", 2), ("nelec", 3.0),
    ("spinpol", None), ("spinpol", 1),
    ("mo", None), ("mo", ("mo", "mo_r")),
    ("atcoords", None), ("atcoords", ("coords", 2)), ("atcoords", ("coords", 3)),
]
EXTRA_OPS = [
    ("atnums", ("list", [1, 1])), ("atnums", ("list", [1, 1, 1])),
    ("atcorenums", ("list", [1.0, 1.0])), ("atcorenums", ("list", [1.0, 1.0, 1.0])), ("atcorenums", ("nd", [6.0, 0.0])),
    ("charge", ("npf", 1.0)), ("charge", -1), ("charge", 0.5),
    ("spinpol", 0),
    ("mo", ("mo", "mo_u")), ("mo", ("mo", "mo_noocc")),
    ("atmasses", None), ("atmasses", ("nd", [1.0, 2.0])), ("atmasses", ("nd", [1.0, 2.0, 3.0])),
    ("atgradient", None), ("atgradient", ("coords", 2)), ("atgradient", ("coords", 3)),
    ("atfrozen", None), ("atfrozen", ("nd", [True, False], "bool")), ("atfrozen", ("nd", [True, False, True], "bool")),
    # zero atoms and a single atom: lengths at the edge of the range (an expected length of 0 is still a length)
    ("atnums", ("nd", [], "int")), ("atcorenums", ("nd", [])), ("atcoords", ("coords", 0)), ("atmasses", ("nd", [])),
    ("atnums", ("nd", [3], "int")),
    ("read", "charge"), ("read", "nelec"), ("read", "atcorenums"), ("read", "natom"), ("read", "spinpol"),
]
ALL_OPS = CORE_OPS + EXTRA_OPS


def constructors():
    base = {"atnums": ("nd", [1, 1], "int"), "atcorenums": ("nd", [0.5, 1.5]), "charge": 1, "nelec": 3.0}
    out = []
    names = list(base)
    for r in range(len(names) + 1):
        for sub in itertools.combinations(names, r):
            out.append({k: base[k] for k in sub})
    out += [
        {"spinpol": 1}, {"atnums": ("nd", [1, 1], "int"), "spinpol": 1, "charge": 0},
        {"mo": ("mo", "mo_r")}, {"mo": ("mo", "mo_r"), "atnums": ("nd", [1, 1], "int")},
        {"mo": ("mo", "mo_u"), "atcorenums": ("nd", [2.0, 2.0])},
        {"mo": ("mo", "mo_noocc"), "atnums": ("nd", [1, 1], "int")}, {"nelec": 3.0, "atnums": ("nd", [1, 1], "int")},
        {"atcoords": ("coords", 2)}, {"atcoords": ("coords", 3), "atnums": ("nd", [8, 1, 1], "int"), "charge": -0.5},
        {"atnums": ("list", [1, 1]), "atcorenums": ("list", [1.0, 1.0]), "charge": 0},
        {"atnums": ("nd", [], "int")}, {"atcoords": ("coords", 0), "charge": 0.5}, {"atnums": ("nd", [], "int"), "atcorenums": ("nd", [])},
    ]
    return out


CTORS = constructors()


def plan(tier, seed):
    cases = []
    if tier == "quick":
        # depth 2 over the full alphabet, depth 3 over the core alphabet
        for ic in range(len(CTORS)):
            cases.append({"kind": "exh", "ctor": ic, "alphabet": "all", "depth": 2, "first": None})
            for i0 in range(len(CORE_OPS)):
                cases.append({"kind": "exh", "ctor": ic, "alphabet": "core", "depth": 3, "first": i0})
        nrand = 64
    else:
        for ic in range(len(CTORS)):
            cases.append({"kind": "exh", "ctor": ic, "alphabet": "all", "depth": 2, "first": None})
            for i0 in range(len(ALL_OPS)):
                cases.append({"kind": "exh", "ctor": ic, "alphabet": "all", "depth": 3, "first": i0})
            for i0 in range(len(CORE_OPS)):
                for i1 in range(len(CORE_OPS)):
                    cases.append({"kind": "exh", "ctor": ic, "alphabet": "core", "depth": 4, "first": [i0, i1]})
        nrand = 640
    for i in range(nrand):
        cases.append({"kind": "random", "seed": seed, "i": i, "n": 400})
    # the repository's own test-suite as a workload under monitor M9 (vf/mon/pytest_plugin.py)
    cases.append({"kind": "suite", "tier": tier, "timeout": 3300})
    return cases


# ---------------------------------------------------------------------------------------
# observation


def _norm(x):
    if x is None:
        return None
    if isinstance(x, np.ndarray):
        return ("nd", x.shape, tuple(np.round(x.astype(float), 10).ravel().tolist()))
    if isinstance(x, (int, float, np.integer, np.floating)):
        return round(float(x), 10)
    return ("obj", id(x))


def _read(d, name):
    try:
        return _norm(getattr(d, name))
    except Exception as exc:
        return ("raises", type(exc).__name__)


ORDER_A = ["charge", "nelec", "spinpol", "atcorenums", "natom"] + PER_ATOM + ["mo"]
ORDER_B = ["natom", "nelec", "spinpol", "mo"] + PER_ATOM[::-1] + ["atcorenums", "charge"]


def observe(d, order):
    return {name: _read(d, name) for name in order}


def lengths(d):
    out = {}
    for name in PER_ATOM + ["atcorenums"]:
        v = getattr(d, name)
        if v is not None:
            out[name] = len(v)
    return out


class Violation(Exception):
    def __init__(self, key, msg):
        super().__init__(msg)
        self.key = key


def check_invariants(d, obs, explicit, stats):
    """I1, I3, I4, I5 on the current state (public observables only)."""
    core, nelec, charge = d.atcorenums, d.nelec, d.charge
    if core is not None and nelec is not None:
        stats["I1"] += 1
        if charge is None or abs(charge - (core.sum() - nelec)) > 1e-10:
            raise Violation("I1-charge-difference", f"charge={charge!r} but core charges sum to {core.sum()!r} and nelec={nelec!r}")
    if not explicit:
        stats["I3"] += 1
        atnums = d.atnums
        if atnums is None:
            if core is not None:
                raise Violation("I3-default-corenums", f"core charges {core.tolist()} although never set and atnums is None")
        elif core is None or core.shape != atnums.shape or (core != atnums.astype(float)).any():
            raise Violation("I3-default-corenums", f"core charges {None if core is None else core.tolist()} were never set explicitly "
                            f"but differ from the atomic numbers {atnums.tolist()}")
    if d.mo is not None:
        stats["I4"] += 1
        if _norm(d.nelec) != _norm(d.mo.nelec) or _norm(d.spinpol) != _norm(d.mo.spinpol):
            raise Violation("I4-mo-derived", f"nelec/spinpol {d.nelec!r}/{d.spinpol!r} differ from the orbitals' {d.mo.nelec!r}/{d.mo.spinpol!r}")
    lens = lengths(d)
    if lens:
        stats["I5"] += 1
    if len(set(lens.values())) > 1:
        raise Violation("I5-natom-disagree", f"per-atom arrays disagree on the number of atoms: {lens}")
    if lens and d.natom != next(iter(lens.values())):
        raise Violation("I5-natom-disagree", f"natom={d.natom} but arrays have lengths {lens}")


def run_history(ctor, ops, monitored, stats):
    """Execute one history. Returns (outcomes, final observation, object) or raises Violation."""
    from iodata import IOData

    kwargs = {k: value(v) for k, v in ctor.items()}
    outcomes = []
    try:
        d = IOData(**kwargs)
    except Exception as exc:
        return [("ctor", type(exc).__name__)], None
    explicit = ctor.get("atcorenums") is not None
    outcomes.append(("ctor", "ok"))
    if monitored:
        first = observe(d, ORDER_A)
        again = observe(d, ORDER_B)
        stats["I6"] += 1
        if any(first[k] != again[k] for k in first):
            bad = [k for k in first if first[k] != again[k]]
            raise Violation("I6-read-changes-state", f"after construction, reading the properties once changed {bad}: "
                            f"{ {k: first[k] for k in bad} } -> { {k: again[k] for k in bad} }")
        check_invariants(d, first, explicit, stats)
    for attr, sym in ops:
        if attr == "read":
            if monitored:
                r1 = _read(d, sym)
                r2 = _read(d, sym)
                if r1 != r2:
                    raise Violation("I6-read-not-idempotent", f"reading {sym} twice gives {r1} then {r2}")
            else:
                _read(d, sym)
            outcomes.append(("read", "ok"))
            continue
        val = value(sym)
        before = observe(d, ORDER_A) if monitored else None
        core_before = None if not monitored else _read(d, "atcorenums")
        other = [len(getattr(d, n)) for n in PER_ATOM + ["atcorenums"] if n != attr and getattr(d, n) is not None] if monitored else []
        try:
            setattr(d, attr, val)
            outcome = "ok"
        except Exception as exc:
            outcome = type(exc).__name__
        outcomes.append((attr, outcome))
        if outcome == "ok" and attr == "atcorenums":
            explicit = val is not None
        if not monitored:
            continue
        stats["steps"] += 1
        after = observe(d, ORDER_A)
        again = observe(d, ORDER_B)
        stats["I6"] += 1
        if any(after[k] != again[k] for k in after):
            bad = [k for k in after if after[k] != again[k]]
            raise Violation("I6-read-changes-state", f"after {attr}={sym!r}, reading the properties once changed {bad}: "
                            f"{ {k: after[k] for k in bad} } -> { {k: again[k] for k in bad} }")
        would_break = (attr in PER_ATOM + ["atcorenums"]) and val is not None and other and len(val) != other[0]
        if would_break:
            stats["I5_break_attempts"] += 1
            if outcome == "ok":
                raise Violation("I5-break-accepted", f"{attr} of length {len(val)} accepted while other per-atom arrays have length {other[0]}")
            if outcome != "TypeError":
                raise Violation("I5-break-wrong-exception", f"{attr} of length {len(val)} (others {other[0]}) raised {outcome}, not TypeError")
        if outcome == "TypeError":
            stats["failed_assignments"] += 1
            if any(before[k] != after[k] for k in before):
                bad = [k for k in before if before[k] != after[k]]
                raise Violation("failed-assignment-side-effect", f"{attr}={sym!r} raised TypeError but changed {bad}: "
                                f"{ {k: before[k] for k in bad} } -> { {k: after[k] for k in bad} }")
        if outcome == "ok":
            stats["ok_assignments"] += 1
            if attr in ("charge", "nelec", "spinpol"):
                stats["I2"] += 1
                got = _read(d, attr)
                if got != _norm(val):
                    raise Violation("I2-readback", f"{attr}={sym!r} succeeded but reads back {got!r}")
                if _read(d, "atcorenums") != core_before:
                    raise Violation("I2-corenums-changed", f"{attr}={sym!r} changed the core charges {core_before} -> {_read(d, 'atcorenums')}")
            if d.mo is not None and attr in ("nelec", "spinpol"):
                raise Violation("I4-assign-with-mo", f"{attr} assignment accepted although orbitals are present")
        elif d.mo is not None and attr in ("nelec", "spinpol") and outcome != "TypeError":
            raise Violation("I4-assign-with-mo", f"{attr} assignment with orbitals present raised {outcome}, not TypeError")
        check_invariants(d, after, explicit, stats)
    return outcomes, observe(d, ORDER_B)


def check_history(ctor, ops, stats):
    """Monitored run + replay without intermediate reads; returns a violation dict or None."""
    try:
        out_m, fin_m = run_history(ctor, ops, True, stats)
        out_p, fin_p = run_history(ctor, ops, False, stats)
        stats["I6_replays"] += 1
        if out_m != out_p:
            k = next(i for i, (a, b) in enumerate(zip(out_m, out_p)) if a != b)
            raise Violation("I6-outcome-depends-on-reads", f"step {k} {out_m[k][0]}: outcome {out_m[k][1]} when the properties were read after "
                            f"every step, {out_p[k][1]} when they were not")
        if fin_m is not None and any(fin_m[k] != fin_p[k] for k in fin_m if k != "mo"):
            bad = [k for k in fin_m if k != "mo" and fin_m[k] != fin_p[k]]
            raise Violation("I6-state-depends-on-reads", f"final {bad} = { {k: fin_m[k] for k in bad} } when the properties were read after "
                            f"every step, { {k: fin_p[k] for k in bad} } when they were read only at the end")
    except Violation as v:
        return {"key": v.key, "msg": str(v), "history": {"ctor": {k: repr(x) for k, x in ctor.items()}, "ops": [[a, repr(s)] for a, s in ops]}}
    return None


def new_stats():
    return {k: 0 for k in ["I1", "I2", "I3", "I4", "I5", "I6", "I6_replays", "steps", "ok_assignments", "failed_assignments",
                           "I5_break_attempts", "histories"]}


def run_case(case):
    if case.get("kind") == "suite":
        from .. import suite

        return suite.case(['charge-consistent'], case["tier"])
    stats = new_stats()
    viols = {}
    nontrivial = 0
    sample = None

    def do(ctor, ops):
        nonlocal nontrivial, sample
        before_ok = stats["ok_assignments"]
        stats["histories"] += 1
        v = check_history(ctor, ops, stats)
        if stats["ok_assignments"] > before_ok:
            nontrivial += 1
        if sample is None:
            sample = {"ctor": {k: repr(x) for k, x in ctor.items()}, "ops": [[a, repr(s)] for a, s in ops]}
        if v is not None and v["key"] not in viols:
            viols[v["key"]] = v
        elif v is not None:
            viols[v["key"]].setdefault("count", 1)
            viols[v["key"]]["count"] += 1

    if case["kind"] == "exh":
        ctor = CTORS[case["ctor"]]
        ops = CORE_OPS if case["alphabet"] == "core" else ALL_OPS
        first = case["first"]
        prefix = [] if first is None else ([first] if isinstance(first, int) else list(first))
        rest = case["depth"] - len(prefix)
        for depth in range(0 if not prefix else rest, rest + 1):
            for tail in itertools.product(range(len(ops)), repeat=depth):
                do(ctor, [ops[i] for i in prefix + list(tail)])
        feat = [f"exh:ctor{case['ctor']}:{case['alphabet']}:d{case['depth']}:first={first}"]
    else:
        rng = rng_for(11, case["seed"], case["i"])
        seen = set()
        for _ in range(case["n"]):
            ic = int(rng.integers(len(CTORS)))
            depth = int(rng.integers(5, 11))
            idx = tuple(int(j) for j in rng.integers(0, len(ALL_OPS), size=depth))
            if (ic, idx) in seen:
                continue
            seen.add((ic, idx))
            do(CTORS[ic], [ALL_OPS[j] for j in idx])
        feat = [f"random:{case['i']}"]
    counters = {f"checked_{k}" if k.startswith("I") else k: v for k, v in stats.items()}
    counters["nontrivial_histories"] = nontrivial
    return {"status": "violation" if viols else "ok", "violations": list(viols.values()), "features": feat if nontrivial else [],
            "counters": counters, "sample": sample}


def finish(results, tier):
    n = sum(r.get("counters", {}).get("nontrivial_histories", 0) for r in results)
    tot = sum(r.get("counters", {}).get("histories", 0) for r in results)
    out = {"histories_executed": tot, "nontrivial_histories": n, "distinct_nontrivial": n, "alphabet_sizes": {"core": len(CORE_OPS), "all": len(ALL_OPS), "constructors": len(CTORS)}}
    for k in ("checked_I1", "checked_I2", "checked_I3", "checked_I4", "checked_I5", "checked_I6"):
        if sum(r.get("counters", {}).get(k, 0) for r in results) == 0:
            out["inconclusive"] = f"invariant {k} never had its premise satisfied"
    return out
