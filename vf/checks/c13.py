"""C13 - trajectories keep every frame, in order, each identical to a single load.

dump side:  dump_many of generated frame sequences (list, generator, generator raising mid-way) for xyz / pdb / mol2 / sdf
            under the write proxy (M4) and the iterator proxy (M5); the merged event log is checked offline (every item pulled
            exactly once, in order, lazily: frame j-1 is written before frame j is pulled); the file is read back with load_many
            and compared (M1) with a per-frame dump_one + load_one.
load side:  multi-frame files written by the independent spec writers (xyz, extxyz, pdb, mol2, sdf, gro, fchk Opt/IRC/Scan);
            every yielded frame vs the model; first frame vs load_one; truncation at every line (yielded frames must be a prefix of
            the true frames, a partial frame only with a warning or an error); corruption of a numeric field / count in frame k
            for every k (exactly k correct frames, then LoadError).
"""

import os
import shutil
import tempfile
import warnings

import numpy as np

from ..gen import basis as gb
from ..gen import objects as go
from ..mon import fileproxy
from ..mon import snapshot as snap
from ..ref import spec_writers
from ..ref.spec_writers import base

PROPERTY = "C13"
LEVEL = "exploration"
RULE = (
    "dump side: frame sequences of 1..50 frames (differing atom counts, compositions, titles incl. blank ones, bonds, charges) x "
    "{xyz, pdb, mol2, sdf} x {list, generator, generator raising at frame k}; load side: multi-frame files of the spec writers "
    "(7 load_many formats) x {intact, truncated at EVERY line, numeric garbage in frame k for every k, broken count in frame k}. "
    "distinct = distinct (side, format, sequence length class, fault kind, fault position); non-trivial = at least one frame was "
    "compared or one event log checked."
)
EXHAUSTIVE = ["truncation at every line of each generated multi-frame file", "corrupted frame index k for every k"]
ASSUMPTIONS = ["spec writers (vf/ref/spec_writers) for the load side", "M4/M5 proxies are honoured by dump_many"]
TIMEOUT = {"quick": 1200, "thorough": 7200}
LOAD_CLASSES = {"xyz": ["trajectory", "blank_titles"], "sdf": ["trajectory", "blank_titles"], "gromacs": ["trajectory"], "extxyz": ["trajectory", "trajectory_mixed_columns"],
                "mol2": ["multi_molecule"], "pdb": ["concatenated", "models"], "fchk_traj": ["opt", "irc", "scan", "tsopt_freq"]}


def plan(tier, seed):
    cases = []
    n = 8 if tier == "quick" else 800
    for fmt in go.MANY_FORMATS:
        for i in range(n):
            cases.append({"kind": "dump", "fmt": fmt, "i": i, "seed": seed})
    m = 3 if tier == "quick" else 300
    for w, klasses in LOAD_CLASSES.items():
        for klass in klasses:
            for i in range(m):
                cases.append({"kind": "load", "writer": w, "klass": klass, "i": i, "seed": seed})
    return cases


def _v(key, msg, **kw):
    d = {"key": key, "msg": msg}
    d.update(kw)
    return d


def canon_frame(d):
    return snap.canon(d, with_props=False)


def frames_equal(a, b, rtol=0.0, atol=0.0):
    return snap.diff(canon_frame(a), canon_frame(b), rtol=rtol, atol=atol, limit=3)


def make_frames(fmt, rng, n):
    frames = []
    for k in range(n):
        d, _ = go.make(fmt, rng, "small")
        if rng.random() < 0.25:
            go.relayout(d, rng)  # equal arrays in other memory layouts / read-only
        # unique frame id in the title and in the first coordinate; blank / separator-like titles now and then
        r = rng.random()
        if r < 0.15:
            d.title = None
        elif r < 0.25 and fmt in ("xyz", "sdf"):
            d.title = f"{k + 3}"  # a title that looks like an atom count
        else:
            d.title = f"frame {k} of {n} id={k}"
        if fmt == "mol2" and "mol2charges" not in d.atcharges:
            d.atcharges = {"mol2charges": np.round(rng.normal(size=d.natom), 4)}
        frames.append(d)
    return frames


def check_event_log(log, nframe, raise_at, tag, viols):
    """Offline checker of the merged pull/write/close log."""
    pulls = [e[1] for e in log if e[0] == "pull"]
    expect_pulls = list(range(nframe if raise_at is None else raise_at))
    if pulls != expect_pulls:
        viols.append(_v("pull-order", f"{tag}: items pulled {pulls[:12]}..., expected each of {len(expect_pulls)} exactly once in order"))
    # laziness: at least one write between pull(j-1) and pull(j) for j >= 1 (frame j-1 emitted before frame j is asked for);
    # pull(0) before open is the documented pre-check
    idx = {e[1]: k for k, e in enumerate(log) if e[0] == "pull"}
    for j in range(1, len(pulls)):
        if j in idx and (j - 1) in idx:
            between = [e for e in log[idx[j - 1]:idx[j]] if e[0] == "write"]
            if not between:
                viols.append(_v("not-lazy", f"{tag}: frame {j} was pulled before anything of frame {j - 1} was written (look-ahead > 1)"))
                break
    if raise_at is not None:
        k_raise = next((k for k, e in enumerate(log) if e[0] == "pull-raise"), None)
        if k_raise is not None and any(e[0] == "pull" for e in log[k_raise + 1:]):
            viols.append(_v("pull-after-error", f"{tag}: items pulled after the iterable raised"))
    opens = [k for k, e in enumerate(log) if e[0] == "open"]
    closes = [k for k, e in enumerate(log) if e[0] == "close"]
    if opens:
        if not closes:
            viols.append(_v("file-left-open", f"{tag}: output never closed"))
        elif any(e[0] == "write" for e in log[closes[-1] + 1:]):
            viols.append(_v("write-after-close", f"{tag}: writes after close"))


class Boom(Exception):
    pass


def case_dump(case):
    import iodata

    fmt = case["fmt"]
    rng = gb.rng_for(13, case["seed"], case["i"], sum(map(ord, fmt)))
    n = int(rng.choice([1, 2, 3, 5, 12, 50], p=[0.15, 0.2, 0.25, 0.2, 0.15, 0.05]))
    frames = make_frames(fmt, rng, n)
    viols, feats = [], []
    counters = {"dump_many_calls": 0, "pull_events": 0, "write_events": 0, "frames_compared": 0, "logs_checked": 0}
    kw = {}
    if fmt == "xyz" and case["i"] % 3 == 2:
        # the optional keyword of the XYZ functions: user-defined atom columns (here a charge column), the same for every call
        from iodata.formats.xyz import DEFAULT_ATOM_COLUMNS

        kw["atom_columns"] = [*DEFAULT_ATOM_COLUMNS, ("atcharges", "user", (), float, float, "{:10.5f}".format)]
        for f in frames:
            f.atcharges = {"user": np.round(rng.normal(size=f.natom), 5)}
        counters["custom_column_cases"] = 1
    root = tempfile.mkdtemp(prefix="vf_c13_")
    try:
        # reference: per-frame save and reload
        ref = []
        with warnings.catch_warnings():
            warnings.simplefilter("ignore")
            for k, f in enumerate(frames):
                p = os.path.join(root, go.filename(fmt, f"single{k}"))
                iodata.dump_one(f, p, **kw)
                ref.append(iodata.load_one(p, **kw))
        for mode in ("list", "generator", "raising"):
            raise_at = None
            if mode == "raising":
                if n < 2:
                    continue
                raise_at = int(rng.integers(1, n))
            path = os.path.join(root, go.filename(fmt, f"many_{mode}"))
            log = []
            src = fileproxy.PullLog(frames, log, raise_at=raise_at, exc=Boom("iterable failed"))
            arg = frames if mode == "list" else iter(src)
            if mode == "list":
                # a list is iterated by dump_many itself: wrap it so that pulls are still logged
                arg = src
            with fileproxy.OpenProxy(log) as px, warnings.catch_warnings():
                warnings.simplefilter("ignore")
                try:
                    iodata.dump_many(arg, path, **kw)
                    outcome = "returned"
                except Boom:
                    outcome = "Boom"
                except iodata.utils.DumpError as exc:
                    outcome = "DumpError" if isinstance(exc.__cause__, Boom) else f"DumpError:{exc}"
                except Exception as exc:
                    outcome = f"{type(exc).__name__}:{exc}"
            counters["dump_many_calls"] += 1
            counters["pull_events"] += sum(1 for e in log if e[0] == "pull")
            counters["write_events"] += sum(1 for e in log if e[0] == "write")
            tag = f"dump_many({fmt}, {n} frames, {mode}" + (f", raising at {raise_at})" if raise_at is not None else ")")
            if mode == "raising":
                if outcome == "returned":
                    viols.append(_v("iterable-error-swallowed", f"{tag}: the error of the iterable was swallowed"))
                elif outcome not in ("Boom", "DumpError"):
                    viols.append(_v("wrong-exception", f"{tag}: {outcome}"))
            elif outcome != "returned":
                viols.append(_v("dump-failed", f"{tag}: {outcome}"))
                continue
            if mode != "list" and src.iter_calls != 1:
                viols.append(_v("pull-order", f"{tag}: iterable iterated {src.iter_calls} times"))
            check_event_log(log, n, raise_at, tag, viols)
            counters["logs_checked"] += 1
            # read back
            nexp = n if raise_at is None else raise_at
            if not os.path.exists(path):
                viols.append(_v("not-lazy", f"{tag}: no file was written although {nexp} frames precede the error of the iterable "
                                "(the iterable was consumed before writing started)"))
                continue
            with warnings.catch_warnings():
                warnings.simplefilter("ignore")
                try:
                    got = list(iodata.load_many(path, **kw))
                except iodata.utils.LoadError as exc:
                    viols.append(_v("reload-failed", f"{tag}: written file cannot be read back: {exc}"))
                    continue
            if len(got) != nexp:
                viols.append(_v("frame-count", f"{tag}: {len(got)} frames read back, {nexp} written"))
            for k, (g, r) in enumerate(zip(got, ref)):
                counters["frames_compared"] += 1
                dd = frames_equal(g, r)
                if dd:
                    viols.append(_v("frame-differs", f"{tag}: frame {k} differs from its single-frame save and reload: {dd[0]}"))
                    break
            feats.append(f"dump:{fmt}:n={'1' if n == 1 else '2-5' if n <= 5 else '6+'}:{mode}")
    finally:
        shutil.rmtree(root, ignore_errors=True)
    return viols, feats, counters, {"fmt": fmt, "nframe": n, "titles": [f.title for f in frames[:4]]}


def load_frames(path, fmt):
    """Run load_many; return (frames, error, warnings)."""
    import iodata

    got = []
    err = None
    with warnings.catch_warnings(record=True) as wl:
        warnings.simplefilter("always")
        try:
            for d in iodata.load_many(path, fmt=fmt):
                got.append(d)
                if len(got) > 500:
                    break
        except iodata.utils.LoadError as exc:
            err = exc
        except Exception as exc:  # C07's business, reported here as well because it hides frames
            err = exc
    return got, err, [w for w in wl if not issubclass(w.category, ResourceWarning)]


def load_frames_exact(path, fmt, n):
    """A consumer that takes exactly n frames with next() and then closes the iterator (islice / zip / a known frame count)."""
    import iodata

    got = []
    err = None
    with warnings.catch_warnings(record=True) as wl:
        warnings.simplefilter("always")
        it = iodata.load_many(path, fmt=fmt)
        try:
            for _ in range(n):
                got.append(next(it))
        except StopIteration:
            pass
        except Exception as exc:
            err = exc
        finally:
            it.close()
    return got, err, [w for w in wl if not issubclass(w.category, ResourceWarning)]


def frame_matches(d, exp):
    return base.compare(d, exp)


def case_load(case):
    import iodata

    mod = spec_writers.all_writers()[case["writer"]]
    rng = gb.rng_for(13, 5, case["seed"], case["i"], sum(map(ord, case["writer"] + case["klass"])))
    model = mod.generate(rng, case["klass"])
    text = mod.write(model)
    fexp = mod.frames(model)
    nfr = len(fexp)
    fmt = mod.FORMAT if getattr(mod, "EXPLICIT_FMT", False) else None
    viols, feats = [], []
    counters = {"files": 1, "frames_compared": 0, "truncations": 0, "corruptions": 0, "load_many_runs": 0}
    root = tempfile.mkdtemp(prefix="vf_c13l_")
    tagb = f"{case['writer']}/{case['klass']} ({nfr} frames)"
    try:
        path = os.path.join(root, mod.FILENAME)
        with open(path, "w") as fh:
            fh.write(text)
        got, err, _w = load_frames(path, fmt)
        counters["load_many_runs"] += 1
        if err is not None:
            viols.append(_v("intact-refused", f"{tagb}: intact file: {type(err).__name__}: {err}"))
        if len(got) != nfr:
            viols.append(_v("frame-count", f"{tagb}: load_many yielded {len(got)} frames"))
        for k, (d, e) in enumerate(zip(got, fexp)):
            counters["frames_compared"] += 1
            mm = frame_matches(d, e)
            if mm:
                viols.append(_v("frame-differs", f"{tagb}: frame {k}: {mm[0][0]} = {mm[0][1]!r}, file says {mm[0][2]!r}"))
                break
        if got and case["writer"] != "fchk_traj":
            with warnings.catch_warnings():
                warnings.simplefilter("ignore")
                try:
                    first = iodata.load_one(path, fmt=fmt)
                    dd = frames_equal(first, got[0])
                    if dd:
                        viols.append(_v("first-frame-vs-load_one", f"{tagb}: first frame of load_many differs from load_one: {dd[0]}"))
                except iodata.utils.LoadError as exc:
                    viols.append(_v("first-frame-vs-load_one", f"{tagb}: load_one refuses the file: {exc}"))
        feats.append(f"load:{case['writer']}:{case['klass']}:intact")
        # frame boundaries from the writer itself (concatenation formats)
        if case["writer"] == "fchk_traj" and not viols:
            # FCHK trajectories are stored as per-point arrays: one array of one point made shorter by a geometry (header count and
            # values together, so that the file stays well-formed): steps are missing - a warning or an error, never a silent end
            import re

            lines = text.splitlines(keepends=True)
            m = re.search(r"^Number of atoms\s+I\s+(\d+)", text, flags=re.M)
            natom = int(m.group(1)) if m else 0
            heads = [i for i, ln in enumerate(lines) if re.search(r"(Geometries|Gradient at each geome|Results for each geome)\s+R\s+N=\s*\d+\s*$", ln)]
            for i in heads:
                per = 2 if "Results" in lines[i] else 3 * natom
                n = int(lines[i].split()[-1])
                j = i + 1
                while j < len(lines) and not re.search(r"[A-Za-z]{3}", lines[j]):
                    j += 1
                toks = " ".join(lines[i + 1:j]).split()
                if per <= 0 or n != len(toks) or n < 2 * per:
                    continue
                keep = toks[:n - per]
                bad = lines[:i] + [re.sub(r"N=\s*\d+\s*$", "N=%12d\n" % len(keep), lines[i])] + \
                    [" " + " ".join(keep[k:k + 5]) + "\n" for k in range(0, len(keep), 5)] + lines[j:]
                with open(path, "w") as fh:
                    fh.write("".join(bad))
                got2, err2, wl2 = load_frames(path, fmt)
                counters["corruptions"] += 1
                counters["load_many_runs"] += 1
                if err2 is None and not wl2:
                    viols.append(_v("corrupt-frame-silent-end", f"{tagb}: '{lines[i][:42].strip()}' made one geometry shorter: {len(got2)} of {nfr} "
                                    "frames yielded with neither warning nor error"))
                    break
            feats.append(f"load:{case['writer']}:{case['klass']}:shortened-arrays")
        if viols or case["writer"] == "fchk_traj" or "frames" not in model:
            return viols, feats, counters, {"writer": case["writer"], "klass": case["klass"], "nframe": nfr}
        bounds = [0]
        ok = True
        for k in range(1, nfr + 1):
            sub = dict(model)
            sub["frames"] = model["frames"][:k]
            tk = mod.write(sub)
            if not text.startswith(tk) and k < nfr:
                ok = False
                break
            bounds.append(tk.count("\n") if k < nfr else text.count("\n"))
        lines = text.splitlines(keepends=True)
        if ok:
            # (e) truncation at every line
            for c in range(len(lines)):
                with open(path, "w") as fh:
                    fh.write("".join(lines[:c]))
                got, err, wl = load_frames(path, fmt)
                counters["truncations"] += 1
                counters["load_many_runs"] += 1
                ncomplete = max(k for k in range(nfr + 1) if bounds[k] <= c)
                for k, d in enumerate(got):
                    if k >= nfr:
                        viols.append(_v("extra-frame", f"{tagb}: cut at line {c}: more frames than the file has"))
                        break
                    mm = frame_matches(d, fexp[k])
                    if mm and not (err is not None or wl):
                        what = "partial" if k >= ncomplete else "complete"
                        viols.append(_v("partial-frame-silent", f"{tagb}: cut at line {c}: {what} frame {k} yielded with wrong data "
                                        f"({mm[0][0]}) and neither warning nor error"))
                        break
                    if mm and err is None and wl and k == len(got) - 1:
                        # a partial last frame announced by a warning: the warning must also reach a consumer that takes exactly
                        # this many frames and stops (it never asks for the end of the sequence)
                        got2, err2, wl2 = load_frames_exact(path, fmt, len(got))
                        counters["exact_consumers"] = counters.get("exact_consumers", 0) + 1
                        counters["load_many_runs"] += 1
                        if len(got2) == len(got) and err2 is None and not wl2:
                            viols.append(_v("partial-frame-silent", f"{tagb}: cut at line {c}: a consumer taking exactly {len(got)} frames "
                                            f"gets the partial frame {k} ({mm[0][0]}) with neither warning nor error"))
                            break
                if len(got) > ncomplete and not (err is not None or wl):
                    # a frame beyond the complete ones was yielded silently: it must at least be identical to the true frame
                    pass
                if len(got) < ncomplete and err is None:
                    viols.append(_v("complete-frame-dropped", f"{tagb}: cut at line {c}: {ncomplete} complete frames in the file but only "
                                    f"{len(got)} yielded and no error"))
                if viols:
                    break
            feats.append(f"load:{case['writer']}:{case['klass']}:truncation")
            # (d) corruption of a numeric field / the count line of frame k
            for k in range(nfr):
                lo, hi = bounds[k], bounds[k + 1]
                cand = []
                for li in range(lo, hi):
                    words = lines[li].split()
                    nums = [w for w in words if _is_float(w) and "." in w]
                    if len(nums) >= 3:
                        cand.append(li)
                if not cand:
                    continue
                li = cand[len(cand) // 2]
                bad = list(lines)
                w = [x for x in bad[li].split() if _is_float(x) and "." in x][1]
                bad[li] = bad[li].replace(w, "#" * len(w), 1)
                with open(path, "w") as fh:
                    fh.write("".join(bad))
                got, err, wl = load_frames(path, fmt)
                counters["corruptions"] += 1
                counters["load_many_runs"] += 1
                tag = f"{tagb}: numeric field of frame {k} replaced by '{'#' * len(w)}' (line {li + 1})"
                if err is None:
                    key = "corrupt-frame-silent-end" if len(got) <= k else "corrupt-frame-skipped-or-loaded"
                    viols.append(_v(key, f"{tag}: no LoadError; {len(got)} frames yielded"))
                elif len(got) != k:
                    viols.append(_v("corrupt-frame-count", f"{tag}: {len(got)} frames before the error, expected {k}"))
                else:
                    for j, d in enumerate(got):
                        if frame_matches(d, fexp[j]):
                            viols.append(_v("frame-differs", f"{tag}: frame {j} before the error differs from the model"))
                            break
                if viols:
                    break
            feats.append(f"load:{case['writer']}:{case['klass']}:corruption")
            # broken count line of frame k (formats whose frames start with / contain an atom count)
            offset = {"xyz": 0, "extxyz": 0, "gromacs": 1}.get(case["writer"])
            if offset is not None and not viols:
                for k in range(nfr):
                    for what in ("garbage", "plus-one", "plus-many"):
                        if what != "garbage" and k == nfr - 1:
                            continue  # an inflated LAST count is a cut-file situation (weaker clause): dropping it silently is admitted
                        li = bounds[k] + offset
                        bad = list(lines)
                        try:
                            cnt = int(bad[li].split()[0])
                        except (ValueError, IndexError):
                            continue
                        # "plus-many": a well-formed count that exceeds the number of lines left in the file, in a frame that is
                        # followed by complete frames (not a cut-file situation: the lines of the following frames are there)
                        bad[li] = {"garbage": "n@tom\n", "plus-one": f"{cnt + 1}\n", "plus-many": f"{cnt + len(lines)}\n"}[what]
                        with open(path, "w") as fh:
                            fh.write("".join(bad))
                        got, err, wl = load_frames(path, fmt)
                        counters["corruptions"] += 1
                        counters["load_many_runs"] += 1
                        tag = f"{tagb}: count line of frame {k} { {'garbage': 'replaced by garbage', 'plus-one': 'inflated by one', 'plus-many': 'inflated beyond the end of the file'}[what]}"
                        if err is None:
                            viols.append(_v("corrupt-frame-silent-end" if len(got) <= k else "corrupt-frame-skipped-or-loaded",
                                            f"{tag}: no LoadError; {len(got)} frames yielded"))
                        elif len(got) != k:
                            viols.append(_v("corrupt-frame-count", f"{tag}: {len(got)} frames before the error, expected {k}"))
                feats.append(f"load:{case['writer']}:{case['klass']}:count")
    finally:
        shutil.rmtree(root, ignore_errors=True)
    return viols, feats, counters, {"writer": case["writer"], "klass": case["klass"], "nframe": nfr, "lines": text.count("\n")}


def _is_float(w):
    try:
        float(w)
        return True
    except ValueError:
        return False


def run_case(case):
    fn = case_dump if case["kind"] == "dump" else case_load
    viols, feats, counters, sample = fn(case)
    bykey = {}
    for v in viols:
        bykey.setdefault(v["key"], v)
    return {"status": "violation" if viols else "ok", "violations": list(bykey.values()), "features": feats, "counters": counters, "sample": sample}


def finish(results, tier):
    tot = {}
    for r in results:
        for k, v in (r.get("counters") or {}).items():
            tot[k] = tot.get(k, 0) + v
    if tot.get("pull_events", 0) == 0 or tot.get("truncations", 0) == 0:
        return {"inconclusive": "iterator proxy or truncation workload produced no events"}
    return {}
