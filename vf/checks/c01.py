"""C01 - wavefunction conversion never silently changes the wavefunction.

dump_one (and the command-line converter) is run on generated wavefunction objects and on the wavefunction files of the
corpus for every dumpable wavefunction format; whenever it returns normally the file is read back and the orbitals are
compared AS FUNCTIONS OF SPACE with the reference evaluator R.gto (independent of iodata), together with nuclei,
occupations, energies, spin and stored density matrices.
"""

import os
import shutil
import subprocess
import sys
import tempfile
import warnings

import numpy as np

from .. import bootstrap
from ..gen import basis as gb
from ..gen import corpus
from ..gen import wfnobjects as wo
from ..ref import gto

PROPERTY = "C01"
LEVEL = "exploration"
RULE = (
    "generated objects (1-6 atoms incl. ghost/ECP centres, shell types of the target's table, Cartesian and pure, segmented / SP / "
    "generalized, shell order by-atom / shuffled / skipped centres, conventions native / HORTON2 / CCA / other table / random "
    "permutation+signs, restricted / ROHF / unrestricted / occs_aminusb / fractional, with/without virtuals) x 5 targets x "
    "allow_changes; plus every wavefunction file of the corpus as conversion source; a sample also through `python -m iodata`. "
    "distinct = distinct (target, outcome, shell order, convention class, contraction class, spin kind, l-set); non-trivial = the "
    "dump succeeded and all orbitals were compared at probe points, or a documented error was raised."
)
ASSUMPTIONS = ["R.gto evaluator (self-tested)", "printed precision per format taken from the writers' format strings"]
TIMEOUT = {"quick": 1500, "thorough": 7200}
CASE_TIMEOUT = 600

# (relative error of printed numbers, absolute error of printed MO coefficients, absolute error of coordinates in bohr,
#  occupation atol, energy atol)
PRECISION = {
    "fchk": (1e-8, 0.0, 1e-7, 1e-7, 1e-6),
    "molden": (1e-8, 2e-10, 1e-12, 1e-12, 1e-12),
    "molekel": (1e-8, 2e-11, 2e-6, 1e-6, 1e-10),
    "wfn": (2e-7, 0.0, 2e-8, 1e-6, 1e-5),
    "wfx": (1e-12, 0.0, 1e-12, 1e-12, 1e-12),
}
# First-order error propagation of the printed precision gives the envelope; SAFETY covers the accumulation over the several
# rounded factors of each term (MO coefficient x contraction coefficient x normalisation(exponent) x exp(-alpha r^2(coordinates))).
# A permutation, sign or sqrt(3)..sqrt(105) scale defect exceeds the envelope by 5-8 orders of magnitude.
SAFETY = 50
EXT = {"fchk": "fchk", "molden": "molden", "molekel": "mkl", "wfn": "wfn", "wfx": "wfx"}


def selftest():
    return gto.selftest(5)


def plan(tier, seed):
    cases = []
    n = 70 if tier == "quick" else 4000
    for i in range(n):
        for target in wo.TARGETS:
            cases.append({"kind": "gen", "target": target, "i": i, "seed": seed})
    maxcost = 2.5 if tier == "quick" else None
    for e in corpus.entries(max_cost=maxcost):
        if e["fmt"] in corpus.WAVEFUNCTION_FORMATS:
            cases.append({"kind": "corpus", "file": e["file"], "fmt": e["fmt"], "explicit": e["explicit"],
                          "cli": (len(cases) % (4 if tier == "quick" else 2) == 0)})
    for i in range(5 if tier == "quick" else 200):
        cases.append({"kind": "beyond", "i": i, "seed": seed})
    return cases


def _v(key, msg, **kw):
    d = {"key": key, "msg": msg}
    d.update(kw)
    return d


def spin_orbitals(data):
    """(alpha list, beta list) of (occ, energy, coefficient vector); restricted orbitals expand to both channels."""
    mo = data.mo
    out = []
    for ch in "ab":
        occs = getattr(mo, "occs" + ch)
        en = getattr(mo, "energies" + ch)
        cf = getattr(mo, "coeffs" + ch)
        n = cf.shape[1]
        out.append([(None if occs is None else float(occs[i]), None if en is None else float(en[i]), cf[:, i]) for i in range(n)])
    return out


def compare_objects(orig, new, target, rng, spin_labels=True):
    """Compare two wavefunction objects semantically. Returns (violations, n_orbital_comparisons)."""
    rel, cabs, dcoord, occ_tol, en_tol = PRECISION[target]
    viols = []
    if new.atnums is None or not np.array_equal(new.atnums, orig.atnums):
        viols.append(_v("nuclei-atnums", f"atomic numbers {None if new.atnums is None else new.atnums.tolist()} vs {orig.atnums.tolist()}"))
        return viols, 0
    if np.abs(new.atcoords - orig.atcoords).max() > 4 * (dcoord + rel * np.abs(orig.atcoords).max()):
        viols.append(_v("nuclei-coords", f"coordinates differ by {np.abs(new.atcoords - orig.atcoords).max():.3e}"))
        return viols, 0
    if new.obasis is None or new.mo is None:
        return [_v("reload-incomplete", "reloaded object has no basis or orbitals")], 0
    try:
        f0 = gto.expand(orig.obasis)
        f1 = gto.expand(new.obasis)
    except Exception as exc:
        return [_v("reload-basis", f"basis cannot be interpreted: {exc!r}")], 0
    # NB: the number of basis functions may legitimately differ (WFN/WFX store de-contracted primitives): only the
    # orbitals as functions of space are compared.
    if new.mo.kind == "generalized" or orig.mo.kind == "generalized":
        return [_v("orbital-kind", "generalized orbitals")], 0
    # probe points attached to atoms: r = R_A + d, with each object's own R_A
    pts_rel = rng.normal(scale=0.8, size=(len(orig.atcoords), 5, 3))
    p0 = (orig.atcoords[:, None, :] + pts_rel).reshape(-1, 3)
    p1 = (new.atcoords[:, None, :] + pts_rel).reshape(-1, 3)
    chi0, g0, da0 = gto.eval_funcs(f0, orig.atcoords, p0, deriv=True)
    chi1 = gto.eval_funcs(f1, new.atcoords, p1)
    abs0 = gto.eval_funcs_abs(f0, orig.atcoords, p0)  # absolute sum over primitives: conditioning of each function value
    so0 = spin_orbitals(orig)
    so1 = spin_orbitals(new)
    ncmp = 0
    if spin_labels:
        pairs = [("alpha", so0[0], so1[0]), ("beta", so0[1], so1[1])]
    else:
        # spin-ambiguous target: compare the orbital list in file order (alpha then beta for unrestricted objects)
        def flat(obj, so):
            return so[0] + so[1] if obj.mo.kind == "unrestricted" else so[0]

        pairs = [("all", flat(orig, so0), flat(new, so1))]
    for label, l0, l1 in pairs:
        # the statement is about every orbital of the ORIGINAL object
        if len(l0) != len(l1):
            viols.append(_v("orbital-count", f"{label}: {len(l1)} orbitals after reload, {len(l0)} before"))
            continue
        for j, ((o0, e0, c0), (o1, e1, c1)) in enumerate(zip(l0, l1)):
            psi0 = c0 @ chi0
            psi1 = c1 @ chi1
            env = rel * (np.abs(c0) @ abs0 + np.abs(c0) @ da0) + cabs * abs0.sum(axis=0) + dcoord * (np.abs(c0) @ g0)
            ncmp += 1
            bad = np.abs(psi0 - psi1) > SAFETY * env + 1e-11
            if bad.any():
                k = int(np.argwhere(bad)[0][0])
                scale = np.abs(psi0).max() + 1e-300
                viols.append(_v("orbital-function", f"{label} orbital {j}: value {psi1[k]:.8g} at a probe point, original {psi0[k]:.8g} "
                                f"(envelope {SAFETY * env[k]:.1e}); max relative deviation {np.abs(psi0 - psi1).max() / scale:.2e}"))
                break
            if o0 is not None and (o1 is None or abs(o0 - o1) > occ_tol):
                viols.append(_v("orbital-occupation", f"{label} orbital {j}: occupation {o1} vs {o0}"))
                break
            if e0 is not None and (e1 is None or abs(e0 - e1) > en_tol * max(1.0, abs(e0))):
                viols.append(_v("orbital-energy", f"{label} orbital {j}: energy {e1} vs {e0}"))
                break
    # stored density matrices (same key after reload): rho_D(r) = chi^T D chi
    for key, D0 in (orig.one_rdms or {}).items():
        D1 = (new.one_rdms or {}).get(key)
        if D1 is None:
            continue
        if D1.shape != D0.shape:
            viols.append(_v("density-matrix", f"one_rdms[{key}] shape {D1.shape} vs {D0.shape}"))
            continue
        r0 = np.einsum("ip,ij,jp->p", chi0, D0, chi0)
        r1 = np.einsum("ip,ij,jp->p", chi1, D1, chi1)
        scale = np.einsum("ip,ij,jp->p", np.abs(chi0), np.abs(D0), np.abs(chi0))
        ncmp += 1
        dev = np.abs(r0 - r1) - (SAFETY * (4 * rel + 1e-8) * scale + 1e-10)
        if (dev > 0).any():
            k = int(np.argmax(dev))
            viols.append(_v("density-matrix", f"one_rdms[{key}] denotes another density: rho = {r1[k]:.8g} at a probe point, original {r0[k]:.8g} "
                            f"(relative to the absolute sum {scale[k]:.3g})"))
    return viols, ncmp


def core_charges_expressible(target):
    return target in ("fchk", "molden", "wfx")


def do_dump_reload(data, target, allow, rng, root, tag, via_cli_source=None):
    """dump_one + load_one + comparison. Returns (violations, outcome, ncmp)."""
    import iodata
    from iodata.utils import DumpError, LoadError, PrepareDumpError

    path = os.path.join(root, f"out_{tag}.{EXT[target]}")
    with warnings.catch_warnings(record=True) as wlist:
        warnings.simplefilter("always")
        try:
            written = iodata.dump_one(data, path, allow_changes=allow)
        except PrepareDumpError:
            return [], "prepare-error", 0
        except DumpError:
            return [], "dump-error", 0
        except Exception as exc:  # C08's business; only counted here
            return [], f"other-exception:{type(exc).__name__}", 0
    viols = []
    with warnings.catch_warnings():
        warnings.simplefilter("ignore")
        try:
            new = iodata.load_one(path)
        except LoadError as exc:
            return [_v("own-output-unreadable", f"{target}: file written without error cannot be read back: {exc} (cause {exc.__cause__!r})")], "success", 0
    # spin labels: a WFN file without $MOSPIN is ambiguous when no occupation exceeds 1
    spin_labels = True
    if target == "wfn":
        occs = written.mo.occs
        if occs is None or occs.max() <= 1.0:
            spin_labels = False
    v, ncmp = compare_objects(written if written is not data else data, new, target, rng, spin_labels)
    # the written (possibly converted) object must itself denote the original wavefunction: checked by C09/C14; here
    # the comparison is against the ORIGINAL object as well when a conversion took place
    if written is not data:
        v2, n2 = compare_objects(data, new, target, rng, spin_labels) if data.mo.kind == written.mo.kind else ([], 0)
        v += v2
        ncmp += n2
    if core_charges_expressible(target) and new.atcorenums is not None:
        if np.abs(new.atcorenums - data.atcorenums).max() > 1e-6:
            v.append(_v("nuclei-corecharges", f"core charges {new.atcorenums.tolist()} vs {data.atcorenums.tolist()}"))
    viols += v
    return viols, "success", ncmp


def case_gen(case):
    rng = gb.rng_for(1, case["seed"], case["i"], wo.TARGETS.index(case["target"]))
    target = case["target"]
    nbmax = 26 if target in ("molden", "molekel") else 40
    data, feats = wo.make(rng, target, nbasis_max=nbmax, with_rdms=(target == "fchk" and rng.random() < 0.5))
    if case["i"] % 5 == 4:
        from ..gen import objects as go

        go.relayout(data, gb.rng_for(1, 77, case["seed"], case["i"]))  # equal arrays in Fortran order / strided views
    root = tempfile.mkdtemp(prefix="vf_c01_")
    viols, featlist = [], []
    counters = {"dumps": 0, "dump_success": 0, "prepare_errors": 0, "dump_errors": 0, "other_exceptions": 0, "orbital_comparisons": 0}
    try:
        for allow in (False, True):
            v, outcome, ncmp = do_dump_reload(data, target, allow, rng, root, f"{int(allow)}")
            counters["dumps"] += 1
            counters["orbital_comparisons"] += ncmp
            if outcome == "success":
                counters["dump_success"] += 1
            elif outcome == "prepare-error":
                counters["prepare_errors"] += 1
            elif outcome == "dump-error":
                counters["dump_errors"] += 1
            else:
                counters["other_exceptions"] += 1
            for x in v:
                x["msg"] = f"{target} allow_changes={allow}: " + x["msg"]
                x["features"] = feats
            viols += v
            if ncmp or outcome != "success":
                featlist.append(f"{target}:{outcome}:{feats['shell_order']}:{feats['conventions']}:{feats['contraction']}:{feats['spin']}:"
                                f"{feats['lset']}:{feats['centres']}:virt={feats['virtuals']}:allow={allow}")
    finally:
        shutil.rmtree(root, ignore_errors=True)
    return viols, featlist, counters, feats


def case_corpus(case):
    import iodata

    src = os.path.join(bootstrap.DATA_DIR, case["file"])
    with warnings.catch_warnings():
        warnings.simplefilter("ignore")
        try:
            data = iodata.load_one(src, fmt=case["fmt"] if case["explicit"] else None)
        except iodata.utils.LoadError:
            return None  # not a loadable conversion source (e.g. the deliberately broken h2o_error.wfx)
    rng = gb.rng_for(1, 77, sum(map(ord, case["file"])))
    root = tempfile.mkdtemp(prefix="vf_c01c_")
    viols, featlist = [], []
    counters = {"dumps": 0, "dump_success": 0, "prepare_errors": 0, "dump_errors": 0, "other_exceptions": 0, "orbital_comparisons": 0,
                "cli_runs": 0}
    try:
        if data.mo is None or data.obasis is None:
            return [], [], counters, {"file": case["file"], "note": "no orbitals"}
        big = data.obasis.nbasis > 60
        for target in wo.TARGETS:
            if big and target in ("molden", "molekel"):
                continue  # reload cost (pure-Python overlap) - covered by smaller files
            for allow in (False, True):
                v, outcome, ncmp = do_dump_reload(data, target, allow, rng, root, f"{target}{int(allow)}")
                counters["dumps"] += 1
                counters["orbital_comparisons"] += ncmp
                key = {"success": "dump_success", "prepare-error": "prepare_errors", "dump-error": "dump_errors"}.get(outcome, "other_exceptions")
                counters[key] += 1
                for x in v:
                    x["msg"] = f"{case['file']} -> {target} allow_changes={allow}: " + x["msg"]
                viols += v
                featlist.append(f"corpus:{case['fmt']}->{target}:{outcome}:allow={allow}")
            if case.get("cli") and not (big and target in ("molden", "molekel")):
                out = os.path.join(root, f"cli.{EXT[target]}")
                cmd = [sys.executable, "-m", "iodata", src, out, "-c"]
                if case["explicit"]:
                    cmd += ["-i", case["fmt"]]
                env = dict(os.environ, PYTHONPATH=bootstrap.REPO)
                r = subprocess.run(cmd, capture_output=True, text=True, timeout=600, env=env, cwd=root)
                counters["cli_runs"] += 1
                if r.returncode == 0:
                    with warnings.catch_warnings():
                        warnings.simplefilter("ignore")
                        try:
                            new = iodata.load_one(out)
                        except Exception as exc:
                            viols.append(_v("own-output-unreadable", f"CLI {case['file']} -> {target}: exit 0 but the output cannot be read: {exc}"))
                            continue
                    written = data
                    spin_labels = not (target == "wfn" and (data.mo.occs is None or data.mo.occs.max() <= 1.0))
                    if data.mo.kind == "restricted" and data.mo.occs_aminusb is not None:
                        continue
                    v, ncmp = compare_objects(written, new, target, rng, spin_labels)
                    counters["orbital_comparisons"] += ncmp
                    for x in v:
                        x["msg"] = f"CLI {case['file']} -> {target}: " + x["msg"]
                    viols += v
                    featlist.append(f"cli:{case['fmt']}->{target}")
    finally:
        shutil.rmtree(root, ignore_errors=True)
    return viols, featlist, counters, {"file": case["file"], "fmt": case["fmt"], "nbasis": int(data.obasis.nbasis)}


def case_beyond(case):
    """Shell types beyond what the target's table supports must give an error, not a file."""
    import iodata
    from iodata.utils import DumpError, PrepareDumpError

    rng = gb.rng_for(1, 99, case["seed"], case["i"])
    viols, feats = [], []
    counters = {"dumps": 0, "prepare_errors": 0, "dump_errors": 0, "dump_success": 0}
    root = tempfile.mkdtemp(prefix="vf_c01b_")
    try:
        for target, (l, kind) in (("molden", (5, "c")), ("molden", (6, "p")), ("molekel", (5, "c")), ("wfn", (6, "c")), ("wfx", (6, "c")),
                                  ("wfn", (2, "p")), ("wfx", (3, "p")), ("fchk", (10, "c"))):
            data, _f = wo.make(rng, "fchk", lmax=1, nbasis_max=12, conv_class="horton2", spin="restricted", virtuals=True, ghosts="none")
            sh = gb.make_shell(0, [l], [kind], [0.7], [[1.0]])
            shells = [*data.obasis.shells, sh]
            conv = dict(data.obasis.conventions)
            conv[(l, kind)] = list(gb.tables()["horton2"][(l, kind)])
            obasis = gb.make_basis(shells, conv)
            from iodata.orbitals import MolecularOrbitals

            nb = obasis.nbasis
            mo = MolecularOrbitals("restricted", 1, 1, np.array([2.0]), rng.normal(size=(nb, 1)), np.array([-0.5]))
            data.mo = None
            data.obasis = obasis
            data.mo = mo
            path = os.path.join(root, f"b.{EXT[target]}")
            counters["dumps"] += 1
            with warnings.catch_warnings():
                warnings.simplefilter("ignore")
                try:
                    iodata.dump_one(data, path, allow_changes=True)
                    outcome = "success"
                except PrepareDumpError:
                    outcome = "prepare-error"
                    counters["prepare_errors"] += 1
                except DumpError:
                    outcome = "dump-error"
                    counters["dump_errors"] += 1
                except Exception as exc:
                    outcome = f"other:{type(exc).__name__}"
            feats.append(f"beyond:{target}:{l}{kind}:{outcome}")
            if outcome == "success":
                counters["dump_success"] += 1
                viols.append(_v("unsupported-shell-written", f"{target}: shell type {l}{kind} is not in the format's table but a file was written"))
    finally:
        shutil.rmtree(root, ignore_errors=True)
    return viols, feats, counters, {"beyond": True}


def run_case(case):
    fn = {"gen": case_gen, "corpus": case_corpus, "beyond": case_beyond}[case["kind"]]
    res = fn(case)
    if res is None:
        return {"status": "skip"}
    viols, feats, counters, sample = res
    return {"status": "violation" if viols else "ok", "violations": viols[:6], "features": feats, "counters": counters, "sample": sample}


def finish(results, tier):
    tot = {}
    for r in results:
        for k, v in (r.get("counters") or {}).items():
            tot[k] = tot.get(k, 0) + v
    if tot.get("dump_success", 0) == 0 or tot.get("orbital_comparisons", 0) == 0:
        return {"inconclusive": "no successful dump was compared"}
    return {}
