"""C09 - dumping never alters the caller's data; conversions are explicit and equivalent.

Deep snapshots (M1: public attributes, derived properties, every reachable array / dict / list, member identities) of
the argument are taken before and after the real dump_one / dump_many / write_input; each dump is executed twice and the
bytes compared; the return value is checked for identity (no allow_changes) or, when converted, for an announced
(PrepareDumpWarning) and physically equivalent object (R.gto densities, electron count, spin polarisation, basis functions).
"""

import os
import shutil
import tempfile
import warnings

import numpy as np

from ..gen import basis as gb
from ..gen import corpus
from ..gen import objects as go
from ..gen import wfnobjects as wo
from ..mon import snapshot as snap
from ..ref import gto

PROPERTY = "C09"
LEVEL = "exploration"
RULE = (
    "objects accepted by each of the 13 dump formats (generated over the classes of gen.objects, incl. objects needing conversion: "
    "generalized contractions, occs_aminusb) and QCSchema corpus objects with nested extra dictionaries x allow_changes; every dump "
    "twice; dump_many for the 4 trajectory formats (list and generator); write_input for both programs incl. templates and "
    "callbacks. distinct = distinct (operation, format, class, allow_changes, conversion happened); non-trivial = the call returned "
    "and the snapshots were compared."
)
ASSUMPTIONS = ["M1 walks attrs fields, public properties, dicts, lists, tuples and ndarrays (content, dtype, shape, writeable flag)",
               "default core charges are filled in before the 'before' snapshot (declared 'not a change' by the statement)"]
TIMEOUT = {"quick": 1200, "thorough": 7200}


def selftest():
    return gto.selftest(4)


def plan(tier, seed):
    cases = []
    n = 14 if tier == "quick" else 200
    for fmt in go.DUMP_FORMATS:
        for i in range(n):
            cases.append({"kind": "dump_one", "fmt": fmt, "i": i, "seed": seed})
    for fmt in go.MANY_FORMATS:
        for i in range(4 if tier == "quick" else 40):
            cases.append({"kind": "dump_many", "fmt": fmt, "i": i, "seed": seed})
    for prog in ("gaussian", "orca"):
        for i in range(6 if tier == "quick" else 60):
            cases.append({"kind": "write_input", "fmt": prog, "i": i, "seed": seed})
    for e in corpus.entries():
        if e["fmt"] == "json_qcschema":
            cases.append({"kind": "json_corpus", "file": e["file"]})
            cases.append({"kind": "json_corpus", "file": e["file"], "edited": True})
    # the repository's own test-suite as a workload under monitor M9 (vf/mon/pytest_plugin.py)
    cases.append({"kind": "suite", "tier": tier, "timeout": 3300})
    return cases


def _v(key, msg, **kw):
    d = {"key": key, "msg": msg}
    d.update(kw)
    return d


def classify_diff(path):
    if "provenance" in path:
        return "mutates-provenance"
    if "properties" in path:
        return "mutates-properties"
    return "mutates-argument"


OBSERVED = {}


def observe(data):
    return snap.canon(data), snap.identity_map(data)


def compare_before_after(before, after, tag, viols):
    cb, ib = before
    ca, ia = after
    for path, x, y in snap.diff(cb, ca, limit=6):
        viols.append(_v(classify_diff(path), f"{tag}: argument changed at {path}: {x} -> {y}"))
    moved = [p for p in ib if p in ia and ib[p] != ia[p]]
    gone = [p for p in ib if p not in ia]
    if moved or gone:
        # observation only: the statement speaks of values and contents; a member replaced by an equal object changes neither
        # (a replaced member with different contents is reported by the snapshot comparison above)
        OBSERVED["members_replaced_by_equal_objects"] = OBSERVED.get("members_replaced_by_equal_objects", 0) + 1


def equivalent(data, written, rng):
    """Physical equivalence of a converted object (same densities, nelec, spinpol, basis functions in order)."""
    out = []
    if written.obasis is not None and data.obasis is not None:
        pts = rng.normal(scale=1.3, size=(6, 3))
        f0 = gto.expand(data.obasis)
        f1 = gto.expand(written.obasis)
        if len(f0) != len(f1):
            return [f"number of basis functions {len(f1)} vs {len(f0)}"]
        v0 = gto.eval_funcs(f0, data.atcoords, pts)
        v1 = gto.eval_funcs(f1, written.atcoords, pts)
        if np.abs(v0 - v1).max() > 1e-13 * max(1.0, np.abs(v0).max()):
            out.append("basis functions differ or are in another order")
        if data.mo is not None and written.mo is not None and data.mo.kind != "generalized":
            for sgn, label in ((1, "total"), (-1, "spin")):
                d0 = (data.mo.coeffsa * data.mo.occsa) @ data.mo.coeffsa.T + sgn * (data.mo.coeffsb * data.mo.occsb) @ data.mo.coeffsb.T
                d1 = (written.mo.coeffsa * written.mo.occsa) @ written.mo.coeffsa.T + sgn * (written.mo.coeffsb * written.mo.occsb) @ written.mo.coeffsb.T
                if np.abs(d0 - d1).max() > 1e-12 * max(1.0, np.abs(d0).max()):
                    out.append(f"{label} density matrix differs")
    for name in ("nelec", "spinpol", "charge"):
        a, b = getattr(data, name), getattr(written, name)
        if (a is None) != (b is None) or (a is not None and abs(a - b) > 1e-10):
            out.append(f"{name} {b!r} vs {a!r}")
    return out


def case_dump_one(case):
    import iodata
    from iodata.utils import DumpError, PrepareDumpError, PrepareDumpWarning

    fmt = case["fmt"]
    rng = gb.rng_for(9, case["seed"], case["i"], sum(map(ord, fmt)))
    klass = ["small", "medium", "wide", "small"][case["i"] % 4]
    if fmt in ("fchk", "molden", "molekel", "wfn", "wfx") and case["i"] % 3 == 2:
        # objects needing conversion
        data, feats = wo.make(rng, fmt, nbasis_max=20, contraction="generalized" if case["i"] % 2 else None,
                              spin="aminusb" if case["i"] % 2 == 0 else None, ghosts="none" if fmt == "molekel" else None)
        feats["klass"] = "needs-conversion"
        if case["i"] % 4 == 0 and data.mo.occs_aminusb is not None and data.mo.norb >= 2:
            # correlated natural orbitals: an occupation slightly below zero (and one above two), spin part of that orbital zero
            occs, amb = data.mo.occs.copy(), data.mo.occs_aminusb.copy()
            occs[-1], amb[-1] = -0.003, 0.0
            occs[0], amb[0] = 2.002, 0.0
            data.mo.occs, data.mo.occs_aminusb = occs, amb
            feats["klass"] = "needs-conversion-natural-negative"
    elif fmt in ("xyz", "pdb", "mol2", "sdf") and case["i"] % 4 == 3:
        # an object that comes from ANOTHER format (bond types, charges, labels the target does not know: MOL2's amide / dummy /
        # not-connected bonds written to SDF, SDF's types 5-8 written to MOL2, ...)
        src = {"sdf": "mol2", "mol2": "sdf", "xyz": "mol2", "pdb": "sdf"}[fmt]
        data, feats = go.make(src, rng, klass)
        feats["klass"] = f"{feats.get('klass')}-from-{src}"
        if src == "mol2" and data.natom and data.natom >= 2 and (data.bonds is None or not len(data.bonds)):
            data.bonds = np.array([[k, k + 1, t] for k, t in zip(range(data.natom - 1), [1, 2, 4, 1, 3])])
        if src == "mol2" and data.bonds is not None and len(data.bonds):
            # make sure the bond types only MOL2 knows (amide 9, dummy 10, not connected 11) occur
            b = np.array(data.bonds)
            b[:min(3, len(b)), 2] = [9, 10, 11][:min(3, len(b))]
            data.bonds = b
    else:
        data, feats = go.make(fmt, rng, klass)
    # every key of `extra` that the writer of this format reads (found by reading the writers), with plausible values
    if case["i"] % 2 == 0:
        ex = dict(data.extra or {})
        if fmt == "wfn" and data.mo is not None and data.mo.kind != "generalized":
            ex.setdefault("virial_ratio", 2.0003)
            ex["mo_spin"] = (np.full(data.mo.norb, 3) if data.mo.kind == "restricted"
                             else np.array([1] * data.mo.norba + [2] * data.mo.norbb))
        elif fmt == "wfx":
            ex.update({"keywords": "GTO", "num_perturbations": 0, "model_name": "Restricted HF", "virial_ratio": 2.0003,
                       "nuc_viral": -0.5, "full_virial_ratio": 2.0004, "num_core_electrons": 0})
        elif fmt == "fchk":
            ex["polarizability_tensor"] = np.arange(9.0).reshape(3, 3) + np.arange(9.0).reshape(3, 3).T
        elif fmt == "pdb":
            ex.setdefault("compound", "GENERATED COMPOUND")
        if ex != (data.extra or {}):
            data.extra = ex
            feats["extra_keys"] = "all-recognised"
    # special values: magnitudes needing a three-digit exponent, denormals, negative zero (must come back untouched)
    if case["i"] % 3 == 0:
        import attrs

        tiny = [1.0e-120, -3.0e-310, -0.0, 4.9e-324]
        if data.mo is not None and data.mo.energies is not None and data.mo.norb > 0:
            en = data.mo.energies.copy()
            en[-1] = tiny[case["i"] % 4]
            data.mo = attrs.evolve(data.mo, energies=en)
        if data.atcharges:
            data.atcharges = {k: np.where(np.arange(len(v)) == 0, tiny[(case["i"] + 1) % 4], v) for k, v in data.atcharges.items()}
        elif fmt in ("fchk", "molekel", "mol2", "json_qcschema") and data.natom:
            key = {"fchk": "mulliken", "molekel": "mulliken", "mol2": "mol2charges", "json_qcschema": "mulliken"}[fmt]
            q = np.zeros(data.natom)
            q[0] = tiny[(case["i"] + 2) % 4]
            data.atcharges = {key: q}
        if fmt == "fchk" and data.moments is None:
            data.moments = {(1, "c"): np.array([tiny[0], 0.25, tiny[1]])}
        feats["special_values"] = "tiny"
    if case["i"] % 4 == 1:
        go.relayout(data, gb.rng_for(9, 77, case["seed"], case["i"]))  # equal arrays in Fortran order / strided views
        feats["layout"] = "non-contiguous"
    viols, featlist = [], []
    counters = {"dump_calls": 0, "snapshots_compared": 0, "conversions": 0, "byte_comparisons": 0, "refusals": 0}
    root = tempfile.mkdtemp(prefix="vf_c09_")
    try:
        for allow in (False, True):
            before = observe(data)
            outs = []
            res = None
            for rep in range(2):
                path = os.path.join(root, go.filename(fmt, f"o{int(allow)}{rep}"))
                with warnings.catch_warnings(record=True) as wl:
                    warnings.simplefilter("always")
                    try:
                        res = iodata.dump_one(data, path, fmt=go.explicit_fmt(fmt), allow_changes=allow)
                        outcome = "returned"
                    except (PrepareDumpError, DumpError) as exc:
                        outcome = type(exc).__name__
                counters["dump_calls"] += 1
                after = observe(data)
                tag = f"dump_one({fmt}, allow_changes={allow}) call {rep + 1} [{feats.get('klass')}]"
                compare_before_after(before, after, tag, viols)
                counters["snapshots_compared"] += 1
                if outcome != "returned":
                    counters["refusals"] += 1
                    break
                with open(path, "rb") as fh:
                    outs.append(fh.read())
                announced = any(issubclass(w.category, PrepareDumpWarning) for w in wl)
                if not allow:
                    if res is not data:
                        viols.append(_v("return-not-argument", f"{tag}: returned another object although allow_changes=False"))
                elif res is not data:
                    counters["conversions"] += 1
                    if not announced:
                        viols.append(_v("conversion-not-announced", f"{tag}: converted object returned without a PrepareDumpWarning"))
                    for msg in equivalent(data, res, rng):
                        viols.append(_v("conversion-not-equivalent", f"{tag}: {msg}"))
                elif announced:
                    viols.append(_v("conversion-not-announced", f"{tag}: PrepareDumpWarning although the argument itself was returned"))
            if len(outs) == 2:
                counters["byte_comparisons"] += 1
                a, b = outs
                if fmt == "json_qcschema":
                    a, b = strip_provenance(a), strip_provenance(b)
                if a != b:
                    viols.append(_v("repeated-dump-differs", f"dump_one({fmt}, allow_changes={allow}): the second dump of the same object "
                                    f"produced different bytes ({len(outs[0])} vs {len(outs[1])} bytes)"))
            featlist.append(f"dump_one:{fmt}:{feats.get('klass')}:allow={allow}:{outcome}:converted={res is not data if outcome == 'returned' else '-'}")
        # the same object edited by its owner after a converting dump (other exponents in one shell, the shells of one atom moved
        # to another) and dumped again: the conversion must be one of the object as it is now
        if outcome == "returned" and res is not data and data.obasis is not None and data.obasis.shells:
            from iodata.basis import Shell

            sh = data.obasis.shells[-1]
            edit = case["i"] % 2
            if edit == 0:
                data.obasis.shells[-1] = Shell(sh.icenter, sh.angmoms, sh.kinds, sh.exponents * 2.0, sh.coeffs)
            else:
                sh.exponents = sh.exponents * 0.5
            path = os.path.join(root, go.filename(fmt, "edited"))
            with warnings.catch_warnings(record=True) as wl:
                warnings.simplefilter("always")
                try:
                    res2 = iodata.dump_one(data, path, fmt=go.explicit_fmt(fmt), allow_changes=True)
                except (PrepareDumpError, DumpError):
                    res2 = None
            counters["dump_calls"] += 1
            counters["edited_redumps"] = 1
            if res2 is not None:
                for msg in equivalent(data, res2, rng):
                    viols.append(_v("conversion-not-equivalent", f"dump_one({fmt}, allow_changes=True) of the object after its owner "
                                    f"{'replaced a shell' if edit == 0 else 'assigned other exponents to a shell'}: {msg}"))
            featlist.append(f"dump_one:{fmt}:edited-redump:{'returned' if res2 is not None else 'refused'}")
    finally:
        shutil.rmtree(root, ignore_errors=True)
    return viols, featlist, counters, {k: feats[k] for k in list(feats)[:8]}


def strip_provenance(raw):
    import json

    def strip(obj):
        if isinstance(obj, dict):
            return {k: strip(v) for k, v in obj.items() if k != "provenance"}
        if isinstance(obj, list):
            return [strip(v) for v in obj]
        return obj

    try:
        return json.dumps(strip(json.loads(raw)), sort_keys=True).encode()
    except Exception:
        return raw


def case_dump_many(case):
    import iodata

    fmt = case["fmt"]
    rng = gb.rng_for(9, 1, case["seed"], case["i"], sum(map(ord, fmt)))
    frames = [go.make(fmt, rng, "small")[0] for _ in range(int(rng.integers(1, 6)))]
    if fmt == "mol2":
        for fr in frames:
            if "mol2charges" not in fr.atcharges:
                fr.atcharges = {"mol2charges": np.round(rng.normal(size=fr.natom), 4)}
    viols = []
    counters = {"dump_calls": 0, "snapshots_compared": 0, "byte_comparisons": 0}
    root = tempfile.mkdtemp(prefix="vf_c09m_")
    try:
        before = [observe(f) for f in frames]
        list_before = list(frames)
        outs = []
        for rep, as_gen in enumerate((False, True)):
            path = os.path.join(root, go.filename(fmt, f"m{rep}"))
            with warnings.catch_warnings():
                warnings.simplefilter("ignore")
                iodata.dump_many((f for f in frames) if as_gen else frames, path, fmt=go.explicit_fmt(fmt))
            counters["dump_calls"] += 1
            for k, f in enumerate(frames):
                compare_before_after(before[k], observe(f), f"dump_many({fmt}) frame {k} ({'generator' if as_gen else 'list'})", viols)
                counters["snapshots_compared"] += 1
            if frames != list_before or any(a is not b for a, b in zip(frames, list_before)):
                viols.append(_v("mutates-argument", f"dump_many({fmt}): the caller's list was modified"))
            with open(path, "rb") as fh:
                outs.append(fh.read())
        counters["byte_comparisons"] += 1
        if outs[0] != outs[1]:
            viols.append(_v("repeated-dump-differs", f"dump_many({fmt}): list and generator of the same frames give different bytes"))
    finally:
        shutil.rmtree(root, ignore_errors=True)
    return viols, [f"dump_many:{fmt}:nframe={len(frames)}"], counters, {"fmt": fmt, "nframe": len(frames)}


def case_write_input(case):
    import iodata

    prog = case["fmt"]
    rng = gb.rng_for(9, 2, case["seed"], case["i"], sum(map(ord, prog)))
    src = ["xyz", "fchk", "json_qcschema", "pdb"][case["i"] % 4]
    data, feats = go.make(src, rng, "small")
    if data.atcoords is None or data.atnums is None:
        return [], [], {"dump_calls": 0}, None
    kw = {}
    if case["i"] % 2:
        kw["template"] = "{lot} {obasis_name}\n{title}\n{charge} {spinmult}\n{geometry}\n"
    if case["i"] % 3 == 0:
        kw["atom_line"] = lambda d, i: f"{int(d.atnums[i])} {d.atcoords[i][0]:.3f}"
    if case["i"] % 5 in (1, 3):
        # user keyword fields of every kind a template can refer to: scalars, and dictionaries / arrays whose names coincide with
        # attributes of the object (the user's value takes the place of the attribute in the template only)
        kw["template"] = ("{lot} {obasis_name} mem={memory}\n%pal nprocs {extra[nprocs]} end\n# {atcharges[user][0]} {moments[note]}\n"
                          "{title}\n{charge} {spinmult}\n{geometry}\n")
        kw.update(memory="2GB", extra={"nprocs": 8}, atcharges={"user": np.array([0.25, -0.25])}, moments={"note": "none"},
                  one_rdms={}, atmasses=np.ones(3))
    viols = []
    counters = {"dump_calls": 0, "snapshots_compared": 0, "byte_comparisons": 0}
    root = tempfile.mkdtemp(prefix="vf_c09w_")
    try:
        before = observe(data)
        outs = []
        for rep in range(2):
            path = os.path.join(root, f"in{rep}.txt")
            with warnings.catch_warnings():
                warnings.simplefilter("ignore")
                try:
                    iodata.write_input(data, path, prog, **kw)
                except iodata.utils.WriteInputError:
                    break
            counters["dump_calls"] += 1
            compare_before_after(before, observe(data), f"write_input({prog}) call {rep + 1} on a {src} object", viols)
            counters["snapshots_compared"] += 1
            with open(path, "rb") as fh:
                outs.append(fh.read())
        if len(outs) == 2:
            counters["byte_comparisons"] += 1
            if outs[0] != outs[1]:
                viols.append(_v("repeated-dump-differs", f"write_input({prog}): second call wrote different bytes"))
    finally:
        shutil.rmtree(root, ignore_errors=True)
    return viols, [f"write_input:{prog}:{src}:{sorted(kw)}:{'extra' if data.extra else 'noextra'}"], counters, {"prog": prog, "source": src, "kwargs": sorted(kw)}


def case_json_corpus(case):
    """QCSchema corpus objects (nested extra dictionaries, provenance as dict / list) dumped twice."""
    import iodata

    path = os.path.join(corpus.bootstrap.DATA_DIR, case["file"])
    with warnings.catch_warnings():
        warnings.simplefilter("ignore")
        try:
            data = iodata.load_one(path, fmt="json_qcschema")
        except iodata.utils.LoadError:
            return None
    viols = []
    counters = {"dump_calls": 0, "snapshots_compared": 0, "byte_comparisons": 0}
    # a user who edits the loaded object before writing it: the attributes then disagree with what the nested `extra`
    # dictionaries recorded at load time (run type, method, basis, title, charge)
    if case.get("edited"):
        edits = {"run_type": ["freq", "opt", "energy"], "lot": ["pbe0", "mp2"], "obasis_name": ["def2-svp", "cc-pvdz"], "title": ["edited title"]}
        for k, (name, vals) in enumerate(sorted(edits.items())):
            try:
                cur = getattr(data, name)
                setattr(data, name, next(v for v in vals if v != cur))
            except Exception:
                pass
    root = tempfile.mkdtemp(prefix="vf_c09j_")
    try:
        before = observe(data)
        outs = []
        for rep in range(3):
            out = os.path.join(root, f"j{rep}.json")
            with warnings.catch_warnings():
                warnings.simplefilter("ignore")
                try:
                    res = iodata.dump_one(data, out, fmt="json_qcschema")
                except (iodata.utils.PrepareDumpError, iodata.utils.DumpError):
                    break
            counters["dump_calls"] += 1
            compare_before_after(before, observe(data), f"dump_one(json_qcschema) call {rep + 1} on {case['file']}", viols)
            counters["snapshots_compared"] += 1
            if res is not data:
                viols.append(_v("return-not-argument", f"{case['file']}: another object returned"))
            with open(out, "rb") as fh:
                outs.append(fh.read())
        for a, b in zip(outs, outs[1:]):
            counters["byte_comparisons"] += 1
            if a != b:
                viols.append(_v("repeated-dump-differs", f"{case['file']}: repeated dumps of the same object differ ({len(a)} vs {len(b)} bytes)"))
                break
    finally:
        shutil.rmtree(root, ignore_errors=True)
    return viols, [f"json_corpus:{case['file']}{':edited' if case.get('edited') else ''}"], counters, {"file": case["file"], "extra_keys": sorted(data.extra)[:8]}


def run_case(case):
    if case.get("kind") == "suite":
        from .. import suite

        return suite.case(['arg-unchanged'], case["tier"])
    fn = {"dump_one": case_dump_one, "dump_many": case_dump_many, "write_input": case_write_input, "json_corpus": case_json_corpus}[case["kind"]]
    res = fn(case)
    if res is None:
        return {"status": "skip"}
    viols, feats, counters, sample = res
    bykey = {}
    for v in viols:
        bykey.setdefault(v["key"], v)
    return {"status": "violation" if viols else "ok", "violations": list(bykey.values()), "features": feats, "counters": counters, "sample": sample}
