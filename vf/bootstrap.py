"""Select the tree under test and make sure `import iodata` resolves to it.

VF_REPO (default /repo) is put first on sys.path, which takes precedence over the
editable-install finder of /venv.  Everything else in vf imports iodata only after
`bootstrap.init()` has been called.
"""

import os
import subprocess
import sys

VERIF_ROOT = os.path.dirname(os.path.dirname(os.path.abspath(__file__)))
REPO = os.path.abspath(os.environ.get("VF_REPO", "/repo"))
_done = False


def init():
    global _done
    if _done:
        return REPO
    if REPO in sys.path:
        sys.path.remove(REPO)
    sys.path.insert(0, REPO)
    if VERIF_ROOT not in sys.path:
        sys.path.insert(1, VERIF_ROOT)
    import iodata  # noqa: PLC0415

    got = os.path.dirname(os.path.dirname(os.path.abspath(iodata.__file__)))
    if os.path.realpath(got) != os.path.realpath(REPO):
        raise RuntimeError(f"iodata imported from {got}, expected {REPO}")
    _done = True
    return REPO


def tree_identity():
    """Return a dict describing the tree under test (for evidence files)."""
    info = {"path": REPO}
    try:
        info["head"] = subprocess.run(
            ["git", "-C", REPO, "rev-parse", "HEAD"], capture_output=True, text=True, timeout=20
        ).stdout.strip()
        st = subprocess.run(
            ["git", "-C", REPO, "status", "--porcelain", "--untracked-files=no"],
            capture_output=True,
            text=True,
            timeout=20,
        ).stdout
        info["dirty"] = bool(st.strip())
    except Exception as exc:  # pragma: no cover
        info["git_error"] = repr(exc)
    return info


DATA_DIR = os.path.join(REPO, "iodata", "test", "data")
