"""The repository's own test-suite as a workload under the monitors of vf/mon/pytest_plugin.py (M9).

case(monitors, tier) runs pytest on the tree under test (VF_REPO) in a subprocess with the plugin loaded and turns the
recorded monitor evaluations into a standard case result.  quick = a fixed handful of fast test modules, thorough = the whole
suite.  A monitor that was never evaluated makes the case inconclusive; failing tests are counted, they are not a verdict.
"""

import glob
import json
import os
import shutil
import subprocess
import sys
import tempfile

from . import bootstrap

ROOT = os.path.dirname(os.path.dirname(os.path.abspath(__file__)))
QUICK_MODULES = ["test_api.py", "test_xyz.py", "test_sdf.py", "test_mol2.py", "test_pdb.py", "test_inputs.py", "test_cli.py",
                 "test_iodata.py", "test_poscar.py", "test_gromacs.py"]
PROPERTY_OF = {"arg-unchanged": "C09", "preflight-spares": "C08", "loaded-shapes": "C07", "file-closed": "C07",
               "guaranteed-set": "C17", "charge-consistent": "C11"}


def case(monitors, tier):
    tmp = tempfile.mkdtemp(prefix="vf_suite_")
    log = os.path.join(tmp, "events")
    env = dict(os.environ, PYTHONPATH=ROOT + os.pathsep + os.environ.get("PYTHONPATH", ""), VF_SUITE_LOG=log, PYTHONHASHSEED="0")
    cmd = [sys.executable, "-m", "pytest", "-q", "-p", "no:cacheprovider", "-p", "vf.mon.pytest_plugin", "--timeout=900",
           "--continue-on-collection-errors", "-n", "4"]
    if tier == "quick":
        cmd += [os.path.join("iodata", "test", m) for m in QUICK_MODULES if os.path.exists(os.path.join(bootstrap.REPO, "iodata", "test", m))]
    viols, totals, nbad = [], {}, {}
    try:
        r = subprocess.run(cmd, cwd=bootstrap.REPO, env=env, capture_output=True, text=True, timeout=3000)
        summary = (r.stdout.strip().splitlines() or ["?"])[-1]
        seen = set()
        for path in sorted(glob.glob(log + ".*")):
            for line in open(path):
                try:
                    rec = json.loads(line)
                except ValueError:
                    continue
                if rec["monitor"] == "_totals":
                    for k, v in json.loads(rec["detail"]).items():
                        totals[k] = totals.get(k, 0) + v
                    continue
                if rec["ok"] or rec["monitor"] not in monitors:
                    continue
                nbad[rec["monitor"]] = nbad.get(rec["monitor"], 0) + 1
                module = rec["test"].split("::")[0].split("/")[-1]
                key = f"suite:{rec['monitor']}:{module}"
                if key not in seen:
                    seen.add(key)
                    viols.append({"key": key, "msg": f"test-suite workload, {rec['test']}: monitor {rec['monitor']}: {rec['detail']}"})
    except subprocess.TimeoutExpired:
        return {"status": "inconclusive", "reason": "test-suite workload timed out", "features": [], "counters": {}}
    finally:
        shutil.rmtree(tmp, ignore_errors=True)
    counters = {f"suite_{m}": totals.get(m, 0) for m in monitors}
    counters["suite_monitor_errors"] = totals.get("monitor-error", 0)
    sample = {"workload": "pytest " + ("(" + ", ".join(QUICK_MODULES) + ")" if tier == "quick" else "whole suite"), "pytest_summary": summary,
              "evaluations": {m: totals.get(m, 0) for m in monitors}}
    never = [m for m in monitors if totals.get(m, 0) == 0]
    if never and not viols:
        return {"status": "inconclusive", "reason": f"monitors never evaluated in the test-suite workload: {never} ({summary})",
                "features": [], "counters": counters, "sample": sample}
    feats = [f"suite:{m}:{tier}" for m in monitors if totals.get(m, 0)]
    return {"status": "violation" if viols else "ok", "violations": viols[:8], "features": feats, "counters": counters, "sample": sample}
