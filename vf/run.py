"""Runner: ./check <PROPERTY> [--tier quick|thorough] [--seed N] [--replay PATH] [--jobs N]

A check module (vf/checks/cNN.py) provides

    PROPERTY, LEVEL, RULE           identifiers and the distinct/non-trivial rule (text)
    plan(tier, seed) -> [case]      deterministic list of JSON-able case descriptors
    run_case(case) -> result        executes ONE case under the monitors (in a worker process)
    selftest() -> None | str        optional oracle self-test; a string makes the run inconclusive
    finish(results, tier) -> dict   optional: extra coverage keys, {"inconclusive": reason}

A result is a dict:
    status      "ok" | "violation" | "inconclusive" | "skip"
    violations  [{"key": mechanism-key, "msg": text, ...}]     (for status == "violation")
    features    [str]   class labels used to count distinct non-trivial cases
    counters    {name: int}  monitor event counts, summed over the run
    sample      optional JSON-able description of the case for the evidence file

Exit codes: 0 held (possibly KNOWN-FINDING lines), 1 VIOLATION, 2 INCONCLUSIVE.
"""

import argparse
import hashlib
import importlib
import json
import os
import shutil
import subprocess
import sys
import tempfile
import time

from . import bootstrap

ROOT = bootstrap.VERIF_ROOT


def load_known_findings():
    path = os.path.join(ROOT, "known_findings.json")
    if not os.path.exists(path):
        return []
    with open(path) as fh:
        return json.load(fh)["findings"]


def case_hash(case):
    return hashlib.sha256(json.dumps(case, sort_keys=True, default=str).encode()).hexdigest()[:16]


def write_replay(prop, case, result):
    d = os.path.join(ROOT, "replay", prop)
    os.makedirs(d, exist_ok=True)
    path = os.path.join(d, case_hash(case) + ".json")
    with open(path, "w") as fh:
        json.dump({"property": prop, "case": case, "result": result}, fh, indent=1, default=str)
    return path


def run_workers(prop, tier, seed, ncases, jobs, timeout, outdir):
    """Start `jobs` worker subprocesses, each handling cases[shard::jobs]."""
    procs = []
    nshards = max(1, min(jobs, ncases))
    env = dict(os.environ)
    env["PYTHONHASHSEED"] = env.get("PYTHONHASHSEED", "0")
    for shard in range(nshards):
        out = os.path.join(outdir, f"shard{shard}.jsonl")
        cmd = [
            sys.executable,
            "-X",
            "faulthandler",
            "-m",
            "vf.worker",
            prop,
            tier,
            str(seed),
            str(shard),
            str(nshards),
            out,
        ]
        log = open(os.path.join(outdir, f"shard{shard}.log"), "w")
        procs.append((shard, subprocess.Popen(cmd, cwd=ROOT, env=env, stdout=log, stderr=log), out, log))
    deadline = time.time() + timeout
    crashed = []
    for shard, proc, _out, log in procs:
        remaining = max(1.0, deadline - time.time())
        try:
            rc = proc.wait(timeout=remaining)
        except subprocess.TimeoutExpired:
            proc.kill()
            proc.wait()
            rc = "timeout"
        log.close()
        if rc != 0:
            crashed.append((shard, rc))
    results = {}
    for _shard, _proc, out, _log in procs:
        if os.path.exists(out):
            with open(out) as fh:
                for line in fh:
                    line = line.strip()
                    if not line:
                        continue
                    try:
                        rec = json.loads(line)
                    except json.JSONDecodeError:
                        continue
                    results[rec["index"]] = rec["result"]
    return results, crashed, nshards


def main(argv=None):
    ap = argparse.ArgumentParser()
    ap.add_argument("property")
    ap.add_argument("--tier", default=os.environ.get("VERIF_TIER", "quick"))
    ap.add_argument("--seed", type=int, default=int(os.environ.get("VERIF_SEED", "0") or 0))
    ap.add_argument("--replay")
    ap.add_argument("--jobs", type=int, default=int(os.environ.get("VF_JOBS", "16")))
    ap.add_argument("--only", help="run only case indices i,j,k (debugging)")
    args = ap.parse_args(argv)
    prop = args.property.upper()
    tier = args.tier if args.tier in ("quick", "thorough") else "quick"
    bootstrap.init()
    mod = importlib.import_module(f"vf.checks.{prop.lower()}")

    if args.replay:
        with open(args.replay) as fh:
            rec = json.load(fh)
        from .worker import run_one  # noqa: PLC0415

        res = run_one(mod, rec["case"], timeout=3600)
        print(json.dumps(res, indent=1, default=str))
        return 1 if res.get("status") == "violation" else 0

    t0 = time.time()
    known = [k for k in load_known_findings() if k["property"] == prop]
    open_keys = {k["key"]: k for k in known if k.get("status") == "open"}

    st = mod.selftest() if hasattr(mod, "selftest") else None
    if st:
        print(f"INCONCLUSIVE property={prop} reason=selftest: {st}")
        return 2

    cases = mod.plan(tier, args.seed)
    if args.only:
        keep = {int(i) for i in args.only.split(",")}
    else:
        keep = None
    timeout = getattr(mod, "TIMEOUT", {"quick": 900, "thorough": 7200})[tier]
    outdir = tempfile.mkdtemp(prefix=f"vf_{prop}_")
    try:
        if keep is not None:
            from .worker import run_one  # noqa: PLC0415

            results = {i: run_one(mod, cases[i], timeout=600) for i in sorted(keep)}
            crashed, nshards = [], 1
        else:
            results, crashed, nshards = run_workers(
                prop, tier, args.seed, len(cases), args.jobs, timeout, outdir
            )
        logs = ""
        if crashed:
            for shard, _rc in crashed[:3]:
                p = os.path.join(outdir, f"shard{shard}.log")
                if os.path.exists(p):
                    with open(p) as fh:
                        logs += fh.read()[-3000:]
    finally:
        shutil.rmtree(outdir, ignore_errors=True)

    # ---- aggregate
    counters = {}
    features = set()
    samples = []
    n_ok = n_skip = 0
    inconclusive = []
    new_violations = []
    known_hits = {}
    for idx in sorted(results):
        res = results[idx]
        for k, v in (res.get("counters") or {}).items():
            counters[k] = counters.get(k, 0) + v
        status = res.get("status")
        if status in ("ok", "violation"):
            for f in res.get("features") or []:
                features.add(f)
        if res.get("sample") is not None and len(samples) < 6 and (idx % max(1, len(cases) // 6) == 0):
            samples.append(res["sample"])
        if status == "ok":
            n_ok += 1
        elif status == "skip":
            n_skip += 1
        elif status == "inconclusive":
            inconclusive.append((idx, res.get("reason", "")))
        elif status == "violation":
            unlisted = []
            for v in res.get("violations", []):
                if v.get("key") in open_keys:
                    known_hits.setdefault(v["key"], []).append((idx, v))
                else:
                    unlisted.append(v)
            if unlisted:
                new_violations.append((idx, res, unlisted))
            else:
                n_ok += 1
    if not samples:
        for idx in sorted(results):
            if results[idx].get("sample") is not None:
                samples.append(results[idx]["sample"])
                if len(samples) >= 3:
                    break
    missing = [i for i in range(len(cases)) if i not in results] if keep is None else []

    extra = {}
    if hasattr(mod, "finish"):
        extra = mod.finish([results[i] for i in sorted(results)], tier) or {}
    inconclusive_reason = extra.pop("inconclusive", None)

    wall = time.time() - t0
    evaluations = len(results) - n_skip
    coverage = {
        "evaluations": int(evaluations),
        "distinct_nontrivial": len(features),
        "rule": getattr(mod, "RULE", ""),
        "samples": samples or [{"note": "no sample recorded"}],
        "planned_cases": len(cases),
        "cases_ok": n_ok,
        "cases_skipped": n_skip,
        "cases_inconclusive": len(inconclusive),
        "inconclusive_examples": [[i, str(r)[-300:]] for i, r in inconclusive[:5]],
        "cases_missing_worker_died": len(missing),
        "monitor_counters": counters,
        "known_findings_observed": {k: len(v) for k, v in known_hits.items()},
        "workers": nshards,
        "tree": bootstrap.tree_identity(),
    }
    if getattr(mod, "EXHAUSTIVE", None):
        coverage["exhaustive_subspaces"] = mod.EXHAUSTIVE
    coverage.update(extra)
    evidence = {
        "property_id": prop,
        "tier": tier,
        "seed": args.seed,
        "level": getattr(mod, "LEVEL", "exploration"),
        "coverage": coverage,
        "assumptions": getattr(mod, "ASSUMPTIONS", []),
        "wall_s": round(wall, 2),
        "violations": len(new_violations),
    }
    # evidence about another tree than /repo (mutant validation with VF_REPO) must never overwrite the real evidence
    evdir = os.environ.get("VF_EVIDENCE_DIR") or (
        os.path.join(ROOT, "evidence") if os.path.realpath(bootstrap.REPO) == "/repo" else os.path.join(tempfile.gettempdir(), "vf_evidence_scratch")
    )
    os.makedirs(evdir, exist_ok=True)
    evpath = os.path.join(evdir, f"{prop}.json")
    tmp = evpath + ".tmp"
    with open(tmp, "w") as fh:
        json.dump(evidence, fh, indent=1, default=str)
    os.replace(tmp, evpath)

    # ---- report
    for key, hits in sorted(known_hits.items()):
        kf = open_keys[key]
        print(
            f"KNOWN-FINDING: property={prop} {kf['id']}: {kf['symptom']} "
            f"[reproduced in {len(hits)} case(s) of this run]"
        )
    for key, kf in sorted(open_keys.items()):
        if key not in known_hits:
            print(
                f"KNOWN-FINDING: property={prop} {kf['id']}: {kf['symptom']} "
                "[listed; not reproduced in this run: it may have been repaired]"
            )
    print(
        f"{prop} tier={tier} seed={args.seed}: {evaluations} cases evaluated, {n_ok} held, "
        f"{len(new_violations)} violating, {len(inconclusive)} inconclusive, "
        f"{len(missing)} lost, distinct non-trivial classes={len(features)}, {wall:.1f}s"
    )
    for idx, reason in inconclusive[:3]:
        print(f"  note: case {idx} inconclusive: {str(reason)[-400:]}")
    coverage_note = None
    if counters:
        print("monitor events: " + ", ".join(f"{k}={v}" for k, v in sorted(counters.items())))
    if new_violations:
        os.makedirs(os.path.join(ROOT, "replay", prop), exist_ok=True)
        with open(os.path.join(ROOT, "replay", prop, "all_violations.jsonl"), "w") as fh:
            for idx, res, unlisted in new_violations:
                for v in unlisted:
                    fh.write(json.dumps({"case": idx, "violation": v}, default=str) + "\n")
        bykey = {}
        for idx, res, unlisted in new_violations:
            for v in unlisted:
                bykey.setdefault(v.get("key"), []).append((idx, v))
        for key, lst in sorted(bykey.items()):
            print(f"  violation mechanism [{key}]: {len(lst)} case(s); first: case {lst[0][0]}: {str(lst[0][1].get('msg'))[:400]}")
            if lst[0][1].get("history"):
                print(f"     history: {lst[0][1]['history']}")
        for idx, res, unlisted in new_violations[:8]:
            path = write_replay(prop, cases[idx], res)
            msg = "; ".join(f"[{v.get('key')}] {v.get('msg')}" for v in unlisted[:3])
            print(f"VIOLATION property={prop} replay={path}")
            print(f"  case {idx}: {msg[:600]}")
        if len(new_violations) > 8:
            print(f"  ... and {len(new_violations) - 8} more violating cases")
        return 1
    # inconclusive conditions
    reasons = []
    if inconclusive_reason:
        reasons.append(inconclusive_reason)
    if evaluations == 0:
        reasons.append("no case was evaluated")
    if coverage["distinct_nontrivial"] < 2:
        reasons.append("fewer than 2 distinct non-trivial cases observed")
    if missing:
        reasons.append(f"{len(missing)} cases lost (worker crash/timeout {crashed}) {logs[-800:]}")
    if len(inconclusive) > max(2, 0.05 * max(1, len(cases))):
        reasons.append(f"{len(inconclusive)} inconclusive cases, e.g. {inconclusive[:3]}")
    if reasons:
        print(f"INCONCLUSIVE property={prop} reason=" + " | ".join(reasons))
        return 2
    return 0


if __name__ == "__main__":
    try:
        rc = main()
    except Exception:  # a crash of the harness is never a verdict
        import traceback

        traceback.print_exc()
        print(f"INCONCLUSIVE property={sys.argv[1] if len(sys.argv) > 1 else '?'} reason=harness crashed")
        rc = 2
    sys.exit(rc)
