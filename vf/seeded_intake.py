"""Copy a seeding sub-agent's deliverable (/tmp/seed_<ID>_out) to /verif/seeded/<ID>/ after checking the patch applies to /repo HEAD.

usage: python -m vf.seeded_intake [--round2|--round3] C04 C06 ...   (round 2/3 deliverables /tmp/seed2_<ID>_out, /tmp/seed3_<ID>_out are kept as seeded/<ID>b, <ID>c)
The confirmation proper (demo on both trees, test suite, checks) is done by `python -m vf.seeded --tests <ids>`.
"""

import json
import os
import shutil
import subprocess
import sys

ROOT = os.path.dirname(os.path.dirname(os.path.abspath(__file__)))


def main():
    args = sys.argv[1:]
    rnd = ""
    num = ""
    if args and args[0] in ("--round2", "--round3", "--round4", "--round5", "--round6", "--round7", "--round8", "--round9", "--round10"):
        num = args[0][-1]
        rnd, args = {"2": "b", "3": "c", "4": "d", "5": "e", "6": "f", "7": "g", "8": "h", "9": "i", "0": "j"}[num], args[1:]
    for pid in args:
        sid = pid + rnd
        src = f"/tmp/seed{num}_{pid}_out"
        if not all(os.path.exists(os.path.join(src, f)) for f in ("patch.diff", "demo.py", "meta.json")):
            print(sid, "incomplete deliverable")
            continue
        r = subprocess.run(["git", "-C", "/repo", "apply", "--check", os.path.join(src, "patch.diff")], capture_output=True, text=True)
        if r.returncode != 0:
            print(sid, "patch does not apply to /repo:", r.stderr[-300:])
            continue
        dst = os.path.join(ROOT, "seeded", sid)
        os.makedirs(dst, exist_ok=True)
        for f in ("patch.diff", "demo.py"):
            shutil.copy(os.path.join(src, f), os.path.join(dst, f))
        meta = json.load(open(os.path.join(src, "meta.json")))
        meta.setdefault("property", sid[:3])
        meta["origin"] = "fresh sub-agent given only the property text and its own scratch worktree of /repo"
        meta["confirmed_by"] = ("python -m vf.seeded --tests: patch applied to an rsync scratch copy of /repo HEAD; demo.py exit 1 there and exit 0 "
                                "in /repo; full test suite on the scratch copy; registered checks with VF_REPO=<scratch copy>; see result.json")
        with open(os.path.join(dst, "meta.json"), "w") as fh:
            json.dump(meta, fh, indent=1)
        print(sid, "taken")


if __name__ == "__main__":
    main()
