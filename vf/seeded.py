"""Run the registered checks against the seeded property-breaking changes kept under /verif/seeded/<id>/.

usage: python -m vf.seeded [--all-checks] [--tier quick] [id ...]
For each seed: scratch copy of /repo (rsync to /tmp, removed afterwards) + patch.diff, the demonstration (must FAIL on the
patched copy and PASS on /repo), then ./check <property> (and, with --all-checks, every registered check) with VF_REPO pointing
at the scratch copy.  The outcome is written to seeded/<id>/result.json.  /repo itself is never modified.
"""

import argparse
import json
import os
import shutil
import subprocess
import sys
import tempfile

ROOT = os.path.dirname(os.path.dirname(os.path.abspath(__file__)))
SEEDED = os.path.join(ROOT, "seeded")


def run(cmd, **kw):
    return subprocess.run(cmd, capture_output=True, text=True, **kw)


def main():
    ap = argparse.ArgumentParser()
    ap.add_argument("ids", nargs="*")
    ap.add_argument("--all-checks", action="store_true")
    ap.add_argument("--tier", default="quick")
    ap.add_argument("--tests", action="store_true")
    args = ap.parse_args()
    ids = args.ids or sorted(d for d in os.listdir(SEEDED) if os.path.isdir(os.path.join(SEEDED, d)))
    manifest = json.load(open(os.path.join(ROOT, "MANIFEST.json")))
    all_checks = [c["property_id"] for c in manifest["checks"]]
    for sid in ids:
        sdir = os.path.join(SEEDED, sid)
        meta = json.load(open(os.path.join(sdir, "meta.json")))
        prop = meta["property"]
        tmp = tempfile.mkdtemp(prefix="vfs_")
        res = {"seed": sid, "property": prop}
        try:
            run(["rsync", "-a", "--exclude", ".git", "/repo/", tmp + "/"])
            p = run(["patch", "-p1", "-i", os.path.join(sdir, "patch.diff")], cwd=tmp)
            if p.returncode != 0:
                res["patch"] = "DOES-NOT-APPLY: " + p.stdout[-300:]
                print(sid, res["patch"])
                continue
            demo = os.path.join(sdir, "demo.py")
            d1 = run(["/venv/bin/python", demo], cwd=tmp, timeout=900)
            d0 = run(["/venv/bin/python", demo], cwd="/repo", timeout=900)
            res["demo_on_patched"] = "FAIL" if d1.returncode != 0 else "PASS"
            res["demo_on_repo"] = "PASS" if d0.returncode == 0 else "FAIL"
            if args.tests:
                t = run(["/venv/bin/python", "-m", "pytest", "-q", "-p", "no:cacheprovider", "--timeout=900", "--continue-on-collection-errors"], cwd=tmp)
                res["tests"] = t.stdout.strip().splitlines()[-1] if t.stdout.strip() else "?"
            env = dict(os.environ, VF_REPO=tmp)
            checks = all_checks if args.all_checks else [prop]
            res["checks"] = {}
            for chk in checks:
                r = run([os.path.join(ROOT, "check"), chk, "--tier", args.tier], cwd=ROOT, env=env)
                verdict = {0: "missed", 1: "CAUGHT", 2: "inconclusive"}.get(r.returncode, f"rc={r.returncode}")
                if r.returncode == 1 and "VIOLATION property=" not in r.stdout:
                    verdict = "harness-error"
                first = [ln.strip() for ln in r.stdout.splitlines() if ln.strip().startswith("violation mechanism")][:2]
                res["checks"][chk] = {"verdict": verdict, "mechanisms": [f[:300] for f in first]}
            print(sid, prop, "demo:", res["demo_on_patched"], "/", res["demo_on_repo"], res.get("tests", ""),
                  {k: v["verdict"] for k, v in res["checks"].items() if v["verdict"] != "missed" or k == prop})
        finally:
            shutil.rmtree(tmp, ignore_errors=True)
            with open(os.path.join(sdir, "result.json"), "w") as fh:
                json.dump(res, fh, indent=1)
    return 0


if __name__ == "__main__":
    sys.exit(main())
