"""Worker process: runs cases[shard::nshards] of one check and appends JSON lines to a file."""

import faulthandler
import importlib
import json
import os
import resource
import signal
import sys
import traceback
import warnings

from . import bootstrap


class CaseTimeout(BaseException):
    """Raised by the per-case watchdog (BaseException: iodata's `except Exception` must not eat it)."""


def _alarm(_signum, _frame):
    raise CaseTimeout()


def run_one(mod, case, timeout=None):
    timeout = timeout or (case.get("timeout") if isinstance(case, dict) else None) or getattr(mod, "CASE_TIMEOUT", 300)
    signal.signal(signal.SIGALRM, _alarm)
    signal.alarm(int(timeout))
    try:
        res = mod.run_case(case)
    except CaseTimeout:
        res = {"status": "inconclusive", "reason": f"case watchdog {timeout}s (wall clock)"}
    except MemoryError:
        res = {"status": "inconclusive", "reason": "MemoryError in harness"}
    except Exception:  # a bug in the harness itself is never reported as a violation
        res = {"status": "inconclusive", "reason": "harness error: " + traceback.format_exc()[-1500:]}
    finally:
        signal.alarm(0)
    return res


def main():
    prop, tier, seed, shard, nshards, out = sys.argv[1:7]
    seed, shard, nshards = int(seed), int(shard), int(nshards)
    faulthandler.enable()
    # count-inflation cases must end in MemoryError, not in an OOM kill
    lim = int(os.environ.get("VF_RLIMIT_AS_GB", "8")) * 1024**3
    try:
        resource.setrlimit(resource.RLIMIT_AS, (lim, lim))
    except (ValueError, OSError):
        pass
    warnings.simplefilter("ignore")
    bootstrap.init()
    mod = importlib.import_module(f"vf.checks.{prop.lower()}")
    cases = mod.plan(tier, seed)
    with open(out, "a") as fh:
        for idx in range(shard, len(cases), nshards):
            res = run_one(mod, cases[idx])
            fh.write(json.dumps({"index": idx, "result": res}, default=str) + "\n")
            fh.flush()
    if hasattr(mod, "worker_exit"):
        mod.worker_exit()


if __name__ == "__main__":
    main()
