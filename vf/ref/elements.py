"""Element symbols by atomic number (IUPAC), independent of iodata.periodic."""

SYMBOLS = (
    "X H He Li Be B C N O F Ne Na Mg Al Si P S Cl Ar K Ca Sc Ti V Cr Mn Fe Co Ni Cu Zn Ga Ge As Se Br Kr Rb Sr Y Zr Nb Mo Tc Ru Rh "
    "Pd Ag Cd In Sn Sb Te I Xe Cs Ba La Ce Pr Nd Pm Sm Eu Gd Tb Dy Ho Er Tm Yb Lu Hf Ta W Re Os Ir Pt Au Hg Tl Pb Bi Po At Rn Fr Ra "
    "Ac Th Pa U Np Pu Am Cm Bk Cf Es Fm Md No Lr Rf Db Sg Bh Hs Mt Ds Rg Cn Nh Fl Mc Lv Ts Og"
).split()
NUM2SYM = {i: s for i, s in enumerate(SYMBOLS) if i > 0}
SYM2NUM = {s: i for i, s in NUM2SYM.items()}
