"""Reference model R.units: CODATA 2018 values as literals (independent of scipy.constants).

Conversion convention (docs/getting_started/units.rst): value_in_au = number_in_unit * unit.
"""

BOHR_M = 5.29177210903e-11          # Bohr radius in metre
HARTREE_J = 4.3597447222071e-18      # Hartree in joule
HARTREE_EV = 27.211386245988         # Hartree in electron volt
ELECTRON_MASS_KG = 9.1093837015e-31
AVOGADRO = 6.02214076e23
AU_TIME_S = 2.4188843265857e-17      # atomic unit of time in second
CALORIE_J = 4.184
ELEMENTARY_CHARGE_C = 1.602176634e-19
DEBYE_C_M = 3.33564095198152e-30     # 1 Debye in C m (1e-21/c)

angstrom = 1e-10 / BOHR_M
nanometer = 1e-9 / BOHR_M
meter = 1.0 / BOHR_M
electronvolt = 1.0 / HARTREE_EV
amu = 1e-3 / (ELECTRON_MASS_KG * AVOGADRO)
second = 1.0 / AU_TIME_S
picosecond = 1e-12 / AU_TIME_S
kcalmol = 1e3 * CALORIE_J / AVOGADRO / HARTREE_J
calmol = CALORIE_J / AVOGADRO / HARTREE_J
kjmol = 1e3 / AVOGADRO / HARTREE_J
debye = DEBYE_C_M / (ELEMENTARY_CHARGE_C * BOHR_M)

CONSTANTS = {
    "angstrom": angstrom, "electronvolt": electronvolt, "meter": meter, "nanometer": nanometer, "second": second,
    "picosecond": picosecond, "amu": amu, "kcalmol": kcalmol, "calmol": calmol, "kjmol": kjmol,
}

# Relative tolerance for anything multiplied by a unit factor: covers the CODATA 2014/2018/2022 drift (<= 1.4e-9).
RTOL = 3e-9


def named_ratio(ratio, rtol=1e-6):
    """Name of the unit factor a ratio (loaded / expected) corresponds to, or None."""
    table = {
        "1/amu": 1 / amu, "amu": amu, "1/angstrom": 1 / angstrom, "angstrom": angstrom, "1/debye": 1 / debye, "debye": debye,
        "1/(debye*angstrom)": 1 / (debye * angstrom), "debye*angstrom": debye * angstrom, "1/electronvolt": 1 / electronvolt,
        "electronvolt": electronvolt, "1/nanometer": 1 / nanometer, "nanometer": nanometer, "angstrom^2": angstrom**2,
        "1/angstrom^2": angstrom**-2, "angstrom^3": angstrom**3, "1/angstrom^3": angstrom**-3, "1/kcalmol": 1 / kcalmol,
        "kcalmol": kcalmol, "1/kjmol": 1 / kjmol, "kjmol": kjmol, "sqrt(amu)": amu**0.5, "1/sqrt(amu)": amu**-0.5, "-1": -1.0,
    }
    for name, val in table.items():
        if abs(ratio / val - 1) < rtol:
            return name
    return None
