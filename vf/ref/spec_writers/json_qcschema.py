"""MolSSI QCSchema JSON: qcschema_molecule (v1 / v2), qcschema_input, qcschema_output.

Units of the schema: geometry in bohr (flat list, 3 numbers per atom), masses in unified atomic mass units [u],
energies in hartree, gradients hartree/bohr.  JSON numbers are written with Python's shortest round-trip repr, so the file
determines every double exactly; the only tolerance is the unit factor for masses.

Where values go on the loaded object (attribute / extra key NAMES taken from the iodata module documentation):
  symbols -> atnums; geometry -> atcoords; real=false -> atcorenums 0 (ghost atom); molecular_charge -> charge;
  molecular_multiplicity -> spinpol = mult - 1; nelec = sum of nuclear charges of the real atoms - molecular_charge;
  masses [u] -> atmasses (atomic units = electron masses); connectivity -> bonds; name -> title;
  other molecule fields -> extra['molecule'][field] ('validated' -> 'qcel_validated'; fragments -> extra['molecule']['fragments']
  ['indices' | 'charges' | 'multiplicities']);
  model.method -> lot, model.basis -> obasis_name; input fields -> extra['input'][...] (protocols.wavefunction / stdout ->
  'keep_wavefunction' / 'keep_stdout'; provenance becomes a list, the file's entries first); keywords.run_type -> run_type;
  output fields -> extra['output'][...]; properties.return_energy -> energy.
"""

import json

import numpy as np

from .. import elements, units
from .base import Absent, Approx, Exact, Expect

FORMAT = "json_qcschema"
FILENAME = "gen.json"
EXPLICIT_FMT = True
SOURCES = [
    "MolSSI QCSchema, https://molssi-qc-schema.readthedocs.io (spec_components: topology/molecule v1 & v2, driver, model, keywords, "
    "provenance, properties; qcschema_input / qcschema_output required keys; defaults molecular_charge = 0, molecular_multiplicity = 1)",
    "QCElemental models Molecule (schema_version 2), AtomicInput, AtomicResult, Provenance, AtomicResultProtocols "
    "(https://molssi.github.io/QCElemental/): field names, types, units (geometry bohr, masses u), real / atom_labels / "
    "mass_numbers / fragments / connectivity (index_a, index_b, bond_order), stdout / stderr / error / wavefunction",
    "iodata.formats.json_qcschema module docstring (only for the names of the IOData attributes / extra keys)",
]
CLASSES = [
    "molecule_v2_minimal", "molecule_v1", "molecule_defaults", "molecule_full", "ghost_atoms", "masses", "mass_numbers",
    "masses_and_mass_numbers", "provenance_list", "nested_extras", "connectivity", "fragments", "fix_symmetry",
    "input_minimal", "input_full", "input_drivers", "input_no_basis", "input_run_type",
    "output_energy", "output_gradient", "output_hessian", "output_properties", "output_empty_properties",
    "output_stdout_stderr", "output_nulls", "output_return_result_only", "unknown_keys",
]

DRIVERS = ["energy", "gradient", "hessian", "properties"]


def _molecule(rng, version=2, natom=None, optional=()):
    natom = natom or int(rng.integers(1, 8))
    atnums = rng.integers(1, 87, size=natom)
    geom = np.round(rng.uniform(-8.0, 8.0, size=(natom, 3)), 8) + 1e-3 * np.arange(natom)[:, None]
    geom = np.round(geom, 8)
    flat = [float(x) for x in geom.ravel()]
    if rng.random() < 0.3:
        flat[0] = 0  # a JSON integer inside the list of numbers
    charge = int(rng.integers(-2, 3))
    nelec = int(atnums.sum()) - charge
    mult = int(rng.choice([1, 3, 5]) if nelec % 2 == 0 else rng.choice([2, 4]))
    mol = {
        "schema_name": "qcschema_molecule",
        "schema_version": version,
        "symbols": [elements.NUM2SYM[int(z)] for z in atnums],
        "geometry": flat,
        "molecular_charge": float(charge) if rng.random() < 0.5 else charge,
        "molecular_multiplicity": mult,
        "provenance": {"creator": "RefWriter", "version": "1.2", "routine": "vf.ref.spec_writers.json_qcschema"},
    }
    if "name" in optional:
        mol["name"] = f"molecule id={int(rng.integers(1000, 9999))}"
    if "comment" in optional:
        mol["comment"] = "a comment, with punctuation; and \"quotes\""
    if "masses" in optional:
        mol["masses"] = [float(np.round(2.0 * z + rng.uniform(-0.4, 0.6) + 1e-3 * i, 6)) for i, z in enumerate(atnums)]
    if "mass_numbers" in optional:
        mol["mass_numbers"] = [int(2 * z + rng.integers(0, 3)) for z in atnums]
    if "real" in optional:
        real = [bool(b) for b in rng.random(natom) < 0.6]
        if natom > 1:
            real[int(rng.integers(natom))] = False
            real[(real.index(False) + 1) % natom] = True
        mol["real"] = real
        zreal = int(sum(int(z) for z, r in zip(atnums, real) if r))
        # charge / multiplicity refer to the real atoms
        nel = zreal - charge
        if nel < 0:
            mol["molecular_charge"] = charge = 0
            nel = zreal
        mol["molecular_multiplicity"] = 1 if nel % 2 == 0 else 2
    if "atom_labels" in optional:
        mol["atom_labels"] = [f"lab{i}" for i in range(natom)]
    if "atomic_numbers" in optional:
        mol["atomic_numbers"] = [int(z) for z in atnums]
    if "connectivity" in optional:
        pairs = [(i, j) for i in range(natom) for j in range(i + 1, natom)]
        rng.shuffle(pairs)
        mol["connectivity"] = [[int(i), int(j), int(rng.integers(1, 4)) if rng.random() < 0.5 else float(rng.integers(1, 4))]
                               for i, j in pairs[: int(rng.integers(1, 6))]] if pairs else []
        if not mol["connectivity"]:
            del mol["connectivity"]
    if "fragments" in optional:
        perm = [int(i) for i in rng.permutation(natom)]
        cut = int(rng.integers(1, natom)) if natom > 1 else 1
        frags = [perm[:cut], perm[cut:]] if natom > 1 else [perm]
        mol["fragments"] = frags
        mol["fragment_charges"] = [float(charge)] + [0.0] * (len(frags) - 1)
        mol["fragment_multiplicities"] = [mol["molecular_multiplicity"]] + [1] * (len(frags) - 1)
    if "flags" in optional:
        mol["fix_com"] = bool(rng.integers(2))
        mol["fix_orientation"] = bool(rng.integers(2))
        mol["validated"] = True
        mol["id"] = str(int(rng.integers(10**6, 10**7)))
        mol["identifiers"] = {"molecular_formula": "X" + str(natom), "molecule_hash": "ab12cd34"}
    if "fix_symmetry" in optional:
        mol["fix_symmetry"] = str(rng.choice(["c1", "c2v", "d2h"]))
    if "extras" in optional:
        mol["extras"] = {"level1": {"level2": {"values": [1, 2.5, "three", None, True], "deep": {"k": [[1, 2], [3, 4]]}}}, "tag": "x"}
    if "provenance_list" in optional:
        mol["provenance"] = [{"creator": "ProgA", "version": "0.1", "routine": "make"},
                             {"creator": "ProgB", "routine": "convert"}, {"creator": "RefWriter"}]
    return mol


def _input(rng, mol, driver=None, optional=(), version=1):
    inp = {
        "schema_name": "qcschema_input",
        "schema_version": version,
        "molecule": mol,
        "driver": driver or str(rng.choice(DRIVERS)),
        "model": {"method": str(rng.choice(["B3LYP", "HF", "CCSD(T)", "mp2", "wB97X-D"])),
                  "basis": str(rng.choice(["Def2TZVP", "sto-3g", "6-31G*", "aug-cc-pVDZ"]))},
    }
    if "keywords" in optional:
        inp["keywords"] = {"scf_type": "df", "maxiter": 50, "e_convergence": 1e-08, "nested": {"a": [1, 2]}}
    if "extras" in optional:
        inp["extras"] = {"workflow": {"step": 3, "tags": ["a", "b"]}}
    if "id" in optional:
        inp["id"] = "inp-" + str(int(rng.integers(1000, 9999)))
    if "protocols" in optional:
        inp["protocols"] = {"wavefunction": str(rng.choice(["all", "orbitals_and_eigenvalues", "return_results", "none"])),
                            "stdout": bool(rng.integers(2))}
    if "provenance" in optional:
        inp["provenance"] = ({"creator": "InputMaker", "version": "3.1", "routine": "build"} if rng.random() < 0.5 else
                             [{"creator": "InputMaker", "version": "3.1"}, {"creator": "Second", "routine": "r"}])
    return inp


def _output(rng, inp, optional=()):
    out = dict(inp)
    out["schema_name"] = "qcschema_output"
    natom = len(inp["molecule"]["symbols"])
    energy = float(np.round(-rng.uniform(1.0, 3000.0), 10))
    drv = inp["driver"]
    if drv == "energy":
        rr = energy
    elif drv == "gradient":
        rr = [float(x) for x in np.round(rng.uniform(-0.1, 0.1, size=3 * natom) + 1e-5 * np.arange(3 * natom), 10)]
    elif drv == "hessian":
        h = rng.uniform(-1.0, 1.0, size=(3 * natom, 3 * natom))
        h = np.round(h + h.T + 1e-4 * np.arange(3 * natom)[:, None] + 1e-4 * np.arange(3 * natom)[None, :], 10)
        rr = [float(x) for x in h.ravel()]
    else:
        rr = {"dipole": [0.1, -0.2, 0.3], "mulliken_charges": [float(np.round(0.01 * i, 4)) for i in range(natom)]}
    out["return_result"] = rr
    out["success"] = True
    out["properties"] = {"return_energy": energy, "calcinfo_natom": natom, "calcinfo_nbasis": 7 * natom, "scf_iterations": 11,
                         "nuclear_repulsion_energy": float(np.round(rng.uniform(0.0, 50.0), 9)),
                         "scf_total_energy": energy, "scf_dipole_moment": [0.0, 0.125, -1.5]}
    out["provenance"] = {"creator": "QCProg", "version": "9.9", "routine": "qcprog.run"}
    if "stdout" in optional:
        out["stdout"] = "line 1 of standard output\nline 2\n"
    if "stderr" in optional:
        out["stderr"] = "a warning on standard error\n"
    if "error" in optional:
        out["success"] = False
        out["error"] = {"error_type": "convergence_error", "error_message": "SCF did not converge", "extras": {"iter": 128}}
    if "wavefunction" in optional:
        out["wavefunction"] = {"restricted": True, "scf_eigenvalues_a": [-1.5, -0.25, 0.75], "orbitals_a": "scf_orbitals_a"}
    return out


def generate(rng, klass):
    feats = [klass]
    if klass == "molecule_v2_minimal":
        doc = _molecule(rng)
    elif klass == "unknown_keys":
        # keys outside the schema, at the top level and inside an input's molecule (the reader passes them through)
        doc = _molecule(rng) if rng.random() < 0.5 else _input(rng, _molecule(rng))
        for target in ([doc] if "molecule" not in doc else [doc, doc["molecule"]]):
            for key in ("workflow_id", "zz_note", "aa_flag", "my_tags", "Custom-Key", "site_local"):
                target[key] = {"workflow_id": int(rng.integers(1000)), "zz_note": "kept", "aa_flag": True, "my_tags": ["a", "b"],
                               "Custom-Key": 1.5, "site_local": {"q": 1, "p": 2}}[key]
    elif klass == "molecule_v1":
        doc = _molecule(rng, version=1, optional=("name", "comment", "atom_labels"))
        if rng.random() < 0.5:
            del doc["provenance"]  # optional in v1
            feats.append("no_provenance")
    elif klass == "molecule_defaults":
        # v1: molecular_charge and molecular_multiplicity are optional with schema defaults 0 and 1
        doc = _molecule(rng, version=1)
        del doc["molecular_charge"], doc["molecular_multiplicity"]
    elif klass == "molecule_full":
        doc = _molecule(rng, optional=("name", "comment", "masses", "atom_labels", "atomic_numbers", "connectivity", "fragments", "flags", "extras"))
    elif klass == "ghost_atoms":
        doc = _molecule(rng, natom=int(rng.integers(2, 8)), optional=("real", "name"))
    elif klass == "masses":
        doc = _molecule(rng, optional=("masses",))
    elif klass == "mass_numbers":
        doc = _molecule(rng, optional=("mass_numbers",))
    elif klass == "masses_and_mass_numbers":
        doc = _molecule(rng, optional=("masses", "mass_numbers"))
    elif klass == "provenance_list":
        doc = _molecule(rng, optional=("provenance_list",))
    elif klass == "nested_extras":
        doc = _molecule(rng, optional=("extras",))
    elif klass == "connectivity":
        doc = _molecule(rng, natom=int(rng.integers(2, 9)), optional=("connectivity",))
    elif klass == "fragments":
        doc = _molecule(rng, natom=int(rng.integers(2, 9)), optional=("fragments",))
    elif klass == "fix_symmetry":
        doc = _molecule(rng, optional=("fix_symmetry",))
    elif klass == "input_minimal":
        doc = _input(rng, _molecule(rng), version=int(rng.choice([1, 2])))
    elif klass == "input_full":
        doc = _input(rng, _molecule(rng, optional=("name", "connectivity", "extras", "atom_labels")),
                     optional=("keywords", "extras", "id", "protocols", "provenance"))
    elif klass == "input_drivers":
        drv = DRIVERS[int(rng.integers(4))]
        doc = _input(rng, _molecule(rng), driver=drv)
        feats.append(drv)
    elif klass == "input_no_basis":
        doc = _input(rng, _molecule(rng))
        doc["model"] = {"method": "GFN2-xTB", "basis": None}  # QCElemental: basis Optional[str] = None for basis-free methods
    elif klass == "input_run_type":
        doc = _input(rng, _molecule(rng), optional=("keywords",))
        doc["keywords"]["run_type"] = str(rng.choice(["energy", "energy_force", "opt", "scan", "freq"]))
    elif klass in ("output_energy", "output_gradient", "output_hessian", "output_properties"):
        drv = klass.split("_")[1]
        doc = _output(rng, _input(rng, _molecule(rng, natom=int(rng.integers(1, 5)), optional=("name",)), driver=drv, optional=("keywords", "id")),
                      optional=("wavefunction",) if rng.random() < 0.5 else ())
    elif klass == "output_empty_properties":
        # the minimal qcschema_output example: "properties": {} (all properties are optional)
        doc = _output(rng, _input(rng, _molecule(rng), driver="energy"))
        doc["properties"] = {}
    elif klass == "output_stdout_stderr":
        which = [("stdout",), ("stderr",), ("stdout", "stderr"), ("stdout", "stderr", "error")][int(rng.integers(4))]
        doc = _output(rng, _input(rng, _molecule(rng)), optional=which)
        feats.append("+".join(which))
    elif klass == "output_nulls":
        # QCElemental's .json() writes unset Optional fields as null
        doc = _output(rng, _input(rng, _molecule(rng)))
        doc.update({"id": None, "stdout": None, "stderr": None, "error": None, "wavefunction": None, "extras": {}})
        doc["molecule"].update({"comment": None, "identifiers": None, "fix_symmetry": None})
    elif klass == "output_return_result_only":
        # driver = energy: return_result IS the energy; properties.return_energy is optional
        doc = _output(rng, _input(rng, _molecule(rng), driver="energy"))
        del doc["properties"]["return_energy"]
    else:
        raise ValueError(klass)
    style = int(rng.integers(3))
    return {"doc": doc, "style": style, "expect_derivatives": klass in ("output_gradient", "output_hessian"), "features": feats + [doc["schema_name"], f"style={style}"]}


def write(model):
    doc = {k: v for k, v in model["doc"].items() if not k.startswith("_")}
    if model["style"] == 0:
        return json.dumps(doc, indent=2) + "\n"
    if model["style"] == 1:
        return json.dumps(doc, separators=(",", ":"))
    return json.dumps(doc, indent=4, sort_keys=True) + "\n"


class _SymmetryNumber:
    """IOData.g_rot is the rotational symmetry number (a float).  fix_symmetry is a point-group label: a reader may derive the
    symmetry number from it or leave g_rot unset, but a string is not a rotational symmetry number."""

    SIGMA = {"c1": 1, "c2v": 2, "d2h": 4}

    def __init__(self, group):
        self.group = group
        self.sigma = self.SIGMA[group]

    def __float__(self):
        return float(self.sigma)

    def __ne__(self, other):
        if other is None:
            return False
        if isinstance(other, (int, float)) and not isinstance(other, bool):
            return other != self.sigma
        return True

    def __eq__(self, other):
        return not self.__ne__(other)

    __hash__ = None

    def __repr__(self):
        return f"<unset, or the rotational symmetry number {self.sigma} of point group {self.group}>"


def _expect_molecule(mol, e):
    atnums = np.array([elements.SYM2NUM[s] for s in mol["symbols"]], dtype=int)
    natom = len(atnums)
    real = np.array(mol.get("real", [True] * natom), dtype=bool)
    charge = float(mol.get("molecular_charge", 0.0))
    mult = int(mol.get("molecular_multiplicity", 1))
    core = np.where(real, atnums, 0).astype(float)
    e[("atnums",)] = Exact(atnums)
    e[("atcoords",)] = Approx(np.array(mol["geometry"], dtype=float).reshape(-1, 3), atol=0.0, rtol=0.0)
    e[("atcorenums",)] = Approx(core, atol=0.0)
    e[("charge",)] = Exact(charge)
    e[("nelec",)] = Exact(float(core.sum() - charge))
    e[("spinpol",)] = Exact(mult - 1)
    if "masses" in mol and mol["masses"] is not None:
        e[("atmasses",)] = Approx(np.array(mol["masses"], dtype=float) * units.amu, atol=0.0, rtol=units.RTOL)
    elif "mass_numbers" in mol:
        # the nuclide mass differs from A u by the mass excess, |excess| < 0.11 u for every nuclide
        e[("atmasses",)] = Approx(np.array(mol["mass_numbers"], dtype=float) * units.amu, atol=0.12 * units.amu, rtol=units.RTOL)
    else:
        e[("atmasses",)] = Absent()
    if "connectivity" in mol:
        e[("bonds",)] = Exact(np.array([[int(a), int(b), int(round(o))] for a, b, o in mol["connectivity"]], dtype=int))
    else:
        e[("bonds",)] = Absent()
    if mol.get("fix_symmetry") is not None:
        e[("g_rot",)] = Exact(_SymmetryNumber(mol["fix_symmetry"]))
    e[("title",)] = Exact(mol["name"]) if mol.get("name") is not None else Absent()
    x = ("extra", "molecule")
    e[x + ("schema_version",)] = Exact(mol["schema_version"])
    if "provenance" in mol:
        e[x + ("provenance",)] = Exact(mol["provenance"])
    for key, to in (("comment", "comment"), ("atom_labels", "atom_labels"), ("fix_com", "fix_com"), ("fix_orientation", "fix_orientation"),
                    ("identifiers", "identifiers"), ("validated", "qcel_validated"), ("id", "id"), ("extras", "extras")):
        e[x + (to,)] = Exact(mol[key]) if mol.get(key) is not None else Absent()
    if "atomic_numbers" in mol:
        e[x + ("atomic_numbers",)] = Exact(np.array(mol["atomic_numbers"], dtype=int))
    if "mass_numbers" in mol and "masses" in mol:
        e[x + ("mass_numbers",)] = Exact(np.array(mol["mass_numbers"], dtype=int))
    if "fragments" in mol:
        for k, frag in enumerate(mol["fragments"]):
            e[x + ("fragments", "indices", k)] = Exact(np.array(frag, dtype=int))
        e[x + ("fragments", "charges")] = Approx(np.array(mol["fragment_charges"], dtype=float), atol=0.0)
        e[x + ("fragments", "multiplicities")] = Exact(np.array(mol["fragment_multiplicities"], dtype=int))


def _expect_input(doc, e):
    x = ("extra", "input")
    e[("lot",)] = Exact(doc["model"]["method"])
    e[("obasis_name",)] = Exact(doc["model"]["basis"]) if doc["model"].get("basis") else Absent()
    e[x + ("driver",)] = Exact(doc["driver"])
    e[x + ("schema_version",)] = Exact(doc["schema_version"])
    kw = doc.get("keywords")
    if kw:
        e[x + ("keywords",)] = Exact(kw)
    e[("run_type",)] = Exact(kw["run_type"]) if kw and "run_type" in kw else Absent()
    for key in ("extras", "id"):
        if doc.get(key):
            e[x + (key,)] = Exact(doc[key])
    if doc.get("protocols"):
        e[x + ("protocols", "keep_wavefunction")] = Exact(doc["protocols"]["wavefunction"])
        e[x + ("protocols", "keep_stdout")] = Exact(doc["protocols"]["stdout"])
    if doc.get("provenance"):
        prov = doc["provenance"] if isinstance(doc["provenance"], list) else [doc["provenance"]]
        for k, p in enumerate(prov):
            e[x + ("provenance", k)] = Exact(p)


def _expect_output(doc, e, derivatives):
    x = ("extra", "output")
    natom = len(doc["molecule"]["symbols"])
    e[x + ("return_result",)] = Exact(doc["return_result"])
    e[x + ("success",)] = Exact(doc["success"])
    if doc["properties"]:
        e[x + ("properties",)] = Exact(doc["properties"])
    if "return_energy" in doc["properties"]:
        e[("energy",)] = Approx(doc["properties"]["return_energy"], atol=0.0)
    elif doc["driver"] == "energy":
        e[("energy",)] = Approx(doc["return_result"], atol=0.0)
    if doc["driver"] == "gradient" and derivatives:
        e[("atgradient",)] = Approx(np.array(doc["return_result"]).reshape(natom, 3), atol=0.0)
    if doc["driver"] == "hessian" and derivatives:
        e[("athessian",)] = Approx(np.array(doc["return_result"]).reshape(3 * natom, 3 * natom), atol=0.0)
    for key in ("stdout", "stderr", "error", "wavefunction"):
        e[x + (key,)] = Exact(doc[key]) if doc.get(key) is not None else Absent()


def expected(model):
    doc = model["doc"]
    e = Expect()
    e[("extra", "schema_name")] = Exact(doc["schema_name"])
    if doc["schema_name"] == "qcschema_molecule":
        _expect_molecule(doc, e)
    else:
        _expect_molecule(doc["molecule"], e)
        _expect_input(doc, e)
        if doc["schema_name"] == "qcschema_output":
            _expect_output(doc, e, model["expect_derivatives"])
    return e


# Classes that are generated but NOT asserted by C03 (triage decisions, see DESIGN.md section 7): class -> reason
NOT_ASSERTED = {'unknown_keys': 'keys outside the schema are passed through; used by the C15 / C16 workloads only', 'fix_symmetry': 'g_rot type question', 'output_empty_properties': 'empty dicts are removed on purpose by the reader', 'output_return_result_only': 'omission', 'output_gradient': 'omission', 'output_hessian': 'omission', 'masses_and_mass_numbers': 'both fields present: reader documents that both go to extra'}
