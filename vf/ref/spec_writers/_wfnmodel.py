"""Shared helpers of the Molden / Molekel writers: random TRUE wavefunctions (basis + orthonormal orbitals).

Not a writer itself (leading underscore: skipped by the registry).  Independent of iodata: only R.gto is used.

A "wfn" is the base.WFN-style dict
    {"atcoords", "shells": [{"icenter","l","kind","exponents","coeffs"}], "conventions", "mo_kind", "norba", "norbb",
     "mo_coeffs", "mo_occs", "mo_energies"}
with contraction coefficients for L2-normalised primitives (docs/basis.rst) and NORMALISED contractions, and MO coefficient
rows in the function order of the Molden specification.
"""

import numpy as np

from .. import gto, wfncompare

# Function order within a shell, Molden format specification (molden_format.html, section [GTO]/[MO]):
#   5D: D 0, D+1, D-1, D+2, D-2        6D: xx, yy, zz, xy, xz, yz
#   7F: F 0, F+1, F-1, F+2, F-2, F+3, F-3
#  10F: xxx, yyy, zzz, xyy, xxy, xxz, xzz, yzz, yyz, xyz
#   9G: G 0, G+1, G-1, G+2, G-2, G+3, G-3, G+4, G-4
#  15G: xxxx yyyy zzzz xxxy xxxz yyyx yyyz zzzx zzzy xxyy xxzz yyzz xxyz yyxz zzxy
# "+m" is the cosine-type, "-m" the sine-type real solid harmonic (labels cm / sm of docs/basis.rst).


def _pure(l):
    return ["c0"] + [x for m in range(1, l + 1) for x in (f"c{m}", f"s{m}")]


MOLDEN_CONVENTIONS = {
    (0, "c"): ["1"],
    (1, "c"): ["x", "y", "z"],
    (2, "c"): ["xx", "yy", "zz", "xy", "xz", "yz"],
    (3, "c"): ["xxx", "yyy", "zzz", "xyy", "xxy", "xxz", "xzz", "yzz", "yyz", "xyz"],
    (4, "c"): ["xxxx", "yyyy", "zzzz", "xxxy", "xxxz", "yyyx", "yyyz", "zzzx", "zzzy", "xxyy", "xxzz", "yyzz", "xxyz", "yyxz", "zzxy"],
    (2, "p"): _pure(2),
    (3, "p"): _pure(3),
    (4, "p"): _pure(4),
    (5, "p"): _pure(5),  # not part of the Molden standard; written by ORCA / PSI4 (only used for corpus validation)
}

LCHARS = "spdfgh"


def nfunc(l, kind):
    return (l + 1) * (l + 2) // 2 if kind == "c" else 2 * l + 1


def shell_nbasis(shells):
    return sum(nfunc(sh["l"], sh["kind"]) for sh in shells)


def contraction_norm2(l, exps, coeffs):
    """Self-overlap of a contraction of L2-normalised primitives (same for every function of the shell).

    <g_k|g_l> = (2 sqrt(a_k a_l)/(a_k+a_l))^(l+3/2) for normalised primitives with the same angular part.
    """
    a = np.asarray(exps, dtype=float)
    c = np.asarray(coeffs, dtype=float)
    o = (2 * np.sqrt(np.outer(a, a)) / (a[:, None] + a[None, :])) ** (l + 1.5)
    return float(c @ o @ c)


def random_shell(rng, icenter, l, kind, nprim, lo=0.25, hi=25.0):
    """A shell with distinct exponents and a normalised contraction."""
    while True:
        ex = np.sort(np.exp(rng.uniform(np.log(lo), np.log(hi), size=nprim)))[::-1]
        if nprim == 1 or (ex[:-1] / ex[1:]).min() > 1.6:
            break
    ex = np.array([float(f"{v:.8e}") for v in ex])
    co = rng.uniform(0.2, 1.0, size=nprim) * rng.choice([-1.0, 1.0], size=nprim)
    co /= np.sqrt(contraction_norm2(l, ex, co))
    return {"icenter": int(icenter), "l": int(l), "kind": kind, "exponents": ex, "coeffs": co}


def random_coords(rng, natom, dmin=1.7, box=2.2):
    """Coordinates in bohr, pairwise distances >= dmin."""
    pts = []
    while len(pts) < natom:
        p = rng.uniform(-box, box, size=3) * max(1.0, natom ** (1 / 3) * 0.8)
        if all(np.linalg.norm(p - q) >= dmin for q in pts):
            pts.append(p)
    return np.array(pts)


def funcs_of(wfn):
    return wfncompare.model_funcs(wfn)


def overlap(wfn):
    f = funcs_of(wfn)
    return gto.overlap_funcs(f, wfn["atcoords"])


def orthonormal_orbitals(rng, S, norb=None):
    """C = S^(-1/2) Q with a random orthogonal Q (first norb columns)."""
    w, v = np.linalg.eigh(S)
    if w.min() < 1e-4:
        return None
    shalf = (v / np.sqrt(w)) @ v.T
    q, r = np.linalg.qr(rng.normal(size=S.shape))
    q = q * np.sign(np.diag(r))
    c = shalf @ q
    return c if norb is None else c[:, :norb]


def build_wfn(rng, atcoords, shells, mo_kind="restricted", virtuals=True, nocc=None, fractional=False):
    """Complete the basis with orthonormal orbitals, occupations and energies.  Returns None if S is ill-conditioned."""
    wfn = {"atcoords": np.asarray(atcoords, dtype=float), "shells": shells, "conventions": MOLDEN_CONVENTIONS}
    S = overlap(wfn)
    nb = len(S)
    if nocc is None:
        nocc = int(rng.integers(1, max(2, nb // 2 + 1)))
    nocc = min(nocc, nb)
    if mo_kind == "restricted":
        norb = nb if virtuals else nocc
        c = orthonormal_orbitals(rng, S, norb)
        if c is None:
            return None
        occs = np.array([2.0] * nocc + [0.0] * (norb - nocc))
        if fractional:
            occs = np.round(np.sort(rng.uniform(0, 2, size=norb))[::-1], 6)
        energies = np.round(-11.0 + 0.731 * np.arange(norb) + rng.uniform(0, 0.3, size=norb), 8)
        wfn.update(mo_kind="restricted", norba=norb, norbb=norb, mo_coeffs=c, mo_occs=occs, mo_energies=energies)
    else:
        nb_occ = max(0, nocc - int(rng.integers(0, 3)))
        na = nb if virtuals else nocc
        nbeta = nb if virtuals else max(nb_occ, 1)
        ca = orthonormal_orbitals(rng, S, na)
        cb = orthonormal_orbitals(rng, S, nbeta)
        if ca is None:
            return None
        occs = np.array([1.0] * nocc + [0.0] * (na - nocc) + [1.0] * nb_occ + [0.0] * (nbeta - nb_occ))
        ea = np.round(-11.0 + 0.731 * np.arange(na) + rng.uniform(0, 0.3, size=na), 8)
        eb = np.round(-10.5 + 0.731 * np.arange(nbeta) + rng.uniform(0, 0.3, size=nbeta), 8)
        wfn.update(mo_kind="unrestricted", norba=na, norbb=nbeta, mo_coeffs=np.hstack([ca, cb]), mo_occs=occs,
                   mo_energies=np.concatenate([ea, eb]))
    wfn["overlap"] = S
    return wfn


def random_basis(rng, natom, ltypes, nbasis_max=35, sp=False, max_prim=4):
    """Random shells: every atom gets an s shell; the (l, kind) pairs of ltypes are spread over the atoms so that each occurs.

    ltypes: list of (l, kind).  Returns shells ordered by atom (the order in which they will be listed).
    """
    per_atom = [[] for _ in range(natom)]
    for i in range(natom):
        per_atom[i].append((0, "c"))
    total = natom
    # mandatory: each requested type once
    for k, (l, kind) in enumerate(sorted(ltypes, key=lambda t: -t[0])):
        i = int(rng.integers(natom)) if k else 0
        per_atom[i].append((l, kind))
        total += nfunc(l, kind)
    # optional extras while room
    pool = [(0, "c"), (1, "c")] + list(ltypes)
    for _ in range(int(rng.integers(0, 5))):
        l, kind = pool[int(rng.integers(len(pool)))]
        if total + nfunc(l, kind) > nbasis_max:
            continue
        per_atom[int(rng.integers(natom))].append((l, kind))
        total += nfunc(l, kind)
    shells = []
    for i, lst in enumerate(per_atom):
        order = rng.permutation(len(lst)) if rng.integers(2) else np.arange(len(lst))
        for j in order:
            l, kind = lst[int(j)]
            shells.append(random_shell(rng, i, l, kind, int(rng.integers(1, max_prim + 1))))
    return shells


def make_true_wfn(rng, natom, ltypes, mo_kind="restricted", virtuals=True, nbasis_max=35, fractional=False, max_prim=4):
    """Random geometry + basis + orthonormal orbitals; retried until the overlap matrix is well conditioned."""
    for _ in range(50):
        coords = random_coords(rng, natom)
        shells = random_basis(rng, natom, ltypes, nbasis_max, max_prim=max_prim)
        if shell_nbasis(shells) > nbasis_max:
            continue
        wfn = build_wfn(rng, coords, shells, mo_kind, virtuals, fractional=fractional)
        if wfn is not None:
            return wfn
    raise RuntimeError("could not build a well-conditioned random basis")


def public_wfn(wfn):
    """The dict handed to the harness under base.WFN (drops helper keys)."""
    keys = ("atcoords", "shells", "conventions", "mo_kind", "norba", "norbb", "mo_coeffs", "mo_occs", "mo_energies")
    return {k: wfn[k] for k in keys}


def orthonormality_error(wfn, S=None):
    """max |C^T S C - 1| (alpha and beta separately)."""
    if S is None:
        S = overlap(wfn)
    C = np.asarray(wfn["mo_coeffs"], dtype=float)
    blocks = [C] if wfn["mo_kind"] == "restricted" else [C[:, : wfn["norba"]], C[:, wfn["norba"]:]]
    err = 0.0
    for c in blocks:
        if c.shape[1]:
            err = max(err, float(np.abs(c.T @ S @ c - np.eye(c.shape[1])).max()))
    return err
