"""Molden files as written by programs with known deviations from the Molden conventions (ORCA, PSI4, Turbomole, CFOUR).

generate() builds a TRUE wavefunction (normalised contractions of L2-normalised primitives, orthonormal orbitals in the
standard Molden function order), encodes the printed numbers with R.vendors.encode (validated against the real vendor files
of the corpus, see vendors.validate) and writes them in the standard layout of molden.py.  expected() is the TRUE
wavefunction: the reader documents that it recognises and corrects these files (module docstring of iodata.formats.molden),
so the loaded orbitals must be the same functions of space.  model["vendor"] names the encoding, model["expect_warning"]
is True (a LoadWarning naming the correction must be issued), model["expected_fix"] is the first encoding of the reader's
documented list that prints identical numbers for this basis.
"""

from .. import vendors
from . import _wfnmodel as wm
from . import molden
from .base import WFN

FORMAT = "molden"
FILENAME = "gen.molden"
EXPLICIT_FMT = False
SOURCES = molden.SOURCES + [
    "vendor conventions decoded from real program output (R.vendors docstring; validated on /repo/iodata/test/data/nh3_orca.molden, "
    "nh3_psi4.molden, nh3_turbomole.molden, *_cfour.molden, nh3_psi4_1.0.molden, *_psi4_1.3.2_*.molden)",
]

# class -> (vendor, shell types besides s, tag lines, mo_kind)
_P5 = ["[5D]", "[9G]"]  # ORCA and PSI4 always write both tags
_CLASSES = {
    "orca_sp": ("orca", [(1, "c")], _P5, "restricted"),
    "orca_d": ("orca", [(1, "c"), (2, "p")], _P5, "restricted"),
    "orca_f": ("orca", [(2, "p"), (3, "p")], _P5, "restricted"),
    "orca_g": ("orca", [(2, "p"), (3, "p"), (4, "p")], _P5, "restricted"),
    "orca_unrestricted": ("orca", [(1, "c"), (2, "p"), (3, "p")], _P5, "unrestricted"),
    # pure h functions (ORCA writes them; of their rows only |m| = 3 and 4 change sign, not |m| = 5: orca_*_cc_pvqz_pure.molden)
    "orca_h": ("orca", [(1, "c"), (5, "p")], _P5, "restricted"),
    "psi4old_sp": ("psi4_old", [(1, "c")], _P5, "restricted"),
    "psi4old_d": ("psi4_old", [(1, "c"), (2, "p")], _P5, "restricted"),
    "psi4old_f": ("psi4_old", [(2, "p"), (3, "p")], _P5, "restricted"),
    "psi4old_unrestricted": ("psi4_old", [(1, "c"), (2, "p")], _P5, "unrestricted"),
    "turbomole_d": ("turbomole", [(1, "c"), (2, "c")], [], "restricted"),
    "turbomole_f": ("turbomole", [(2, "c"), (3, "c")], [], "restricted"),
    "turbomole_g": ("turbomole", [(1, "c"), (4, "c")], [], "restricted"),
    "turbomole_unrestricted": ("turbomole", [(1, "c"), (2, "c")], [], "unrestricted"),
    "cfour_d": ("cfour", [(1, "c"), (2, "c")], [], "restricted"),
    "cfour_f": ("cfour", [(2, "c"), (3, "c")], [], "restricted"),
    "cfour_g": ("cfour", [(1, "c"), (4, "c")], [], "restricted"),
    "cfour_unrestricted": ("cfour", [(1, "c"), (2, "c")], [], "unrestricted"),
    "unnorm_sp": ("unnormalized_contractions", [(1, "c")], _P5, "restricted"),
    "unnorm_pure_df": ("unnormalized_contractions", [(1, "c"), (2, "p"), (3, "p")], _P5, "restricted"),
    "unnorm_pure_g": ("unnormalized_contractions", [(2, "p"), (4, "p")], _P5, "restricted"),
    "unnorm_unrestricted": ("unnormalized_contractions", [(1, "c"), (2, "p")], _P5, "unrestricted"),
    "psi4132_d": ("psi4_132", [(1, "c"), (2, "c")], [], "restricted"),
    "psi4132_f": ("psi4_132", [(2, "c"), (3, "c")], [], "restricted"),
    "psi4132_g": ("psi4_132", [(1, "c"), (4, "c")], [], "restricted"),
    "psi4132_unrestricted": ("psi4_132", [(1, "c"), (2, "c")], [], "unrestricted"),
}
CLASSES = list(_CLASSES)

# order in which the reader's documentation lists the corrections
_FIX_ORDER = ["orca", "psi4_old", "turbomole", "cfour", "unnormalized_contractions", "psi4_132"]


def attach_vendor(rng, model, vendor):
    wfn = model["wfn"]
    shells = wfn["shells"]
    if vendor in ("unnormalized_contractions", "psi4_132"):
        # make sure at least one shell is contracted, otherwise the quirk is invisible
        if not any(len(sh["exponents"]) > 1 for sh in shells):
            return False
    if not vendors.producible(vendor, shells) or not vendors.applicable(vendor, shells):
        return False
    model["printed"] = vendors.encode(vendor, wfn, rng)
    model["vendor"] = vendor
    model["expect_warning"] = True
    same = [vendor] + vendors.coincides_with(vendor, shells)
    model["expected_fix"] = min(same, key=_FIX_ORDER.index)
    model["features"] = [f"vendor={vendor}"] + model["features"]
    return True


def generate(rng, klass):
    vendor, ltypes, tags, mo_kind = _CLASSES[klass]
    natom = int(rng.integers(1, 3)) if any(l >= 3 for l, _ in ltypes) else None
    for _ in range(20):
        model = molden.build_model(rng, klass, ltypes, tags, mo_kind, True, natom=natom, nbasis_max=30)
        if attach_vendor(rng, model, vendor):
            return model
    raise RuntimeError("vendor quirk not applicable to any generated basis")


def write(model):
    return molden.render(model, model["printed"])


def expected(model):
    exp = molden.expected(model)
    exp[WFN] = wm.public_wfn(model["wfn"])
    return exp


# Relative tolerance of the wavefunction comparison: coordinates may be given in angstrom (CODATA drift of the conversion factor,
# 7e-10 relative, acts on tight functions through 2 alpha r) and numbers are printed with 12-13 significant digits.
WFN_REL_TOL = 2e-5
