"""VASP LOCPOT writer: same layout as CHGCAR (see _vasp.py, chgcar.py); values are the local potential in eV, 5 per line."""

from .. import units
from . import _vasp, chgcar

FORMAT = "locpot"
FILENAME = "LOCPOT_gen"
EXPLICIT_FMT = False
SOURCES = _vasp.SOURCES_HEADER + [
    "VASP manual/wiki, page 'LOCPOT' (https://www.vasp.at/wiki/index.php/LOCPOT): same format as CHGCAR (structure, blank line, "
    "NGXF NGYF NGZF, values with x the fastest index, 5 per line, (1X,E17.11)); total local potential in eV, no augmentation part",
]
CLASSES = ["tiny_1x1x1", "ragged", "full_lines", "noncubic", "lefthanded", "scaled", "wide_values", "largest"]


def generate(rng, klass):
    model = chgcar._generate(rng, klass)
    # potentials have both signs
    model["values"] = model["values"] * rng.choice([-1.0, 1.0], size=model["values"].shape)
    return model


def write(model):
    return chgcar.write(model)


def expected(model):
    return chgcar._expected(model, units.electronvolt)
