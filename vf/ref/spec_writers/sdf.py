"""MDL SD files, CTfile V2000 connection tables (fixed columns)."""

import numpy as np

from .. import elements, units
from .base import Approx, Exact, Expect

FORMAT = "sdf"
FILENAME = "gen.sdf"
EXPLICIT_FMT = False
SOURCES = ["BIOVIA CTfile Formats (2016), chapter 'The Connection Table [CTAB] (V2000)': counts line aaabbblllfffcccsssxxxrrrpppiiimmmvvvvvv, "
           "atom block xxxxx.xxxxyyyyy.yyyyzzzzz.zzzz aaaddcccssshhhbbbvvvHHHrrriiimmmnnneee, bond block 111222tttsssxxxrrrccc; "
           "SD file: molfile + optional data items + $$$$"]
CLASSES = ["small", "touching_counts", "touching_bonds", "wide_coords", "negative_wide", "no_bonds", "data_items", "trajectory", "blank_titles"]


def _frame(rng, natom, nbond, mag, title, data_items=False):
    atnums = rng.integers(1, 119, size=natom)
    coords = np.round(rng.uniform(-mag, mag, size=(natom, 3)), 4)
    bonds = []
    seen = set()
    nbond = min(nbond, natom * (natom - 1) // 2)
    while len(bonds) < nbond:
        i, j = (int(v) for v in rng.integers(0, natom, size=2))
        if i == j or (min(i, j), max(i, j)) in seen:
            if natom < 3 and len(seen) >= natom * (natom - 1) // 2:
                break
            continue
        seen.add((min(i, j), max(i, j)))
        bonds.append((i, j, int(rng.integers(1, 9))))
    return {"atnums": atnums, "coords_ang": coords, "bonds": bonds, "title": title, "data_items": data_items}


def generate(rng, klass):
    if klass == "small":
        fr = [_frame(rng, int(rng.integers(2, 9)), int(rng.integers(1, 6)), 9.0, "small molecule")]
    elif klass == "touching_counts":
        fr = [_frame(rng, int(rng.choice([100, 101, 250, 999])), int(rng.choice([100, 120, 300, 999])), 90.0, "counts fill their columns")]
    elif klass == "touching_bonds":
        fr = [_frame(rng, int(rng.choice([120, 400])), 60, 90.0, "bond atom numbers >= 100 touch")]
        fr[0]["bonds"] = [(int(i), int(j), t) for (i, j, t) in fr[0]["bonds"]]
        n = len(fr[0]["atnums"])
        fr[0]["bonds"][:10] = [(n - 1 - k, n - 2 - 2 * k, 1 + k % 8) for k in range(10)]
    elif klass == "wide_coords":
        fr = [_frame(rng, 6, 3, 9999.0, "coordinates fill 10.4 fields")]
        fr[0]["coords_ang"][0] = [12345.6789, 23456.7891, 1234.5678]
    elif klass == "negative_wide":
        fr = [_frame(rng, 6, 3, 900.0, "negative coordinates touching the previous field")]
        fr[0]["coords_ang"][1] = [-1234.5678, -2345.6789, -9999.9999]
    elif klass == "no_bonds":
        fr = [_frame(rng, int(rng.integers(1, 6)), 0, 9.0, "no bonds")]
    elif klass == "data_items":
        fr = [_frame(rng, 4, 2, 9.0, "with data items", data_items=True)]
    elif klass == "blank_titles":
        fr = [_frame(rng, int(rng.integers(2, 7)), int(rng.integers(0, 4)), 9.0, "" if i % 2 == 0 else f"frame {i}") for i in range(int(rng.integers(2, 6)))]
    else:
        fr = [_frame(rng, int(rng.integers(2, 7)), int(rng.integers(0, 4)), 9.0, f"frame {i} id={i}", data_items=(i % 2 == 1))
              for i in range(int(rng.integers(2, 6)))]
    return {"frames": fr, "features": [klass, f"natom={len(fr[0]['atnums'])}", f"nbond={len(fr[0]['bonds'])}"]}


def write(model):
    out = []
    for fr in model["frames"]:
        out.append(fr["title"])
        out.append("  RefWrite0101010000003D")
        out.append("")
        out.append(f"{len(fr['atnums']):3d}{len(fr['bonds']):3d}  0  0  0  0  0  0  0  0999 V2000")
        for z, (x, y, c) in zip(fr["atnums"], fr["coords_ang"]):
            out.append(f"{x:10.4f}{y:10.4f}{c:10.4f} {elements.NUM2SYM[int(z)]:<3s} 0  0  0  0  0  0  0  0  0  0  0  0")
        for i, j, t in fr["bonds"]:
            out.append(f"{i + 1:3d}{j + 1:3d}{t:3d}  0  0  0  0")
        out.append("M  END")
        if fr["data_items"]:
            out += ["> <ENERGY>", "-12.5", "", "> <NAME>", "something", ""]
        out.append("$$$$")
    return "\n".join(out) + "\n"


def _expect(fr):
    return Expect({
        ("title",): Exact(fr["title"]),
        ("atnums",): Exact(np.array(fr["atnums"], dtype=int)),
        ("atcoords",): Approx(fr["coords_ang"] * units.angstrom, atol=1e-9, rtol=units.RTOL),
        ("bonds",): Exact(np.array(fr["bonds"], dtype=int).reshape(-1, 3)),
    })


def expected(model):
    return _expect(model["frames"][0])


def frames(model):
    return [_expect(fr) for fr in model["frames"]]
