"""AIMAll extended wavefunction files (.wfx): free-format data in sections delimited by <Tag> ... </Tag> lines.

Layout after "Format Specification for AIMAll Extended Wavefunction Files" (http://aim.tkgristmill.com/wfxformat.html) and the
Gaussian / GAMESS-written corpus files *.wfx:

    <Title>, <Keywords> (GTO | GIAO | CGST), <Number of Nuclei>, <Number of Primitives>,
    <Number of Occupied Molecular Orbitals> (= number of MOs stored in the file), <Number of Perturbations> (0 for GTO),
    <Nuclear Names> (one label per line, e.g. O1), <Atomic Numbers>, <Nuclear Charges> (= Z - core electrons of an ECP),
    <Nuclear Cartesian Coordinates> (bohr, x y z per nucleus), <Net Charge>, <Number of Electrons>, <Number of Alpha Electrons>,
    <Number of Beta Electrons>, [<Electronic Spin Multiplicity>], [<Model>], [<Number of Core Electrons>],
    <Primitive Centers>, <Primitive Types> (codes 1..56, see _aimprim.py), <Primitive Exponents>,
    [<Additional Electron Density Function (EDF)> with nested <Number of EDF Primitives>, <EDF Primitive Centers>, <EDF Primitive Types>,
     <EDF Primitive Exponents>, <EDF Primitive Coefficients>; required by the specification when core electrons are modelled],
    <Molecular Orbital Occupation Numbers>, <Molecular Orbital Energies>, <Molecular Orbital Spin Types> (Alpha | Beta | Alpha and Beta),
    <Molecular Orbital Primitive Coefficients> (per MO: <MO Number> i </MO Number> followed by NPRIM reals),
    <Energy = T + Vne + Vee + Vnn>, <Virial Ratio (-V/T)>, [<Nuclear Cartesian Energy Gradients> (label gx gy gz)],
    [<Nuclear Virial of Energy-Gradient-Based Forces on Nuclei, W>], [<Full Virial Ratio, -(V - W)/T>]

Numbers are free format (any number of items per line); reals use an E exponent with two (GAMESS) or three (Gaussian) digits.
The primitives are uncontracted, unnormalised Cartesian Gaussians exactly as in WFN files; see _aimprim.py for the derivation
mo_coeffs[row] = C_file[p] / N(alpha_p,(a,b,c)) and for the permutation between file order and rows.

Model units: coordinates bohr, energies hartree, gradients hartree/bohr (the format's own units).

Spec status notes (written without network access, from memory of the specification plus the corpus files):
  * class no_spin_types omits <Molecular Orbital Spin Types>; whether the specification marks that section optional could not be
    re-checked - treat a refusal of this class as "to be confirmed against wfxformat.html".
  * class shuffled_sections relies on sections being identified by their tags only (no prescribed order).
  * class ecp_edf writes the nested <Additional Electron Density Function (EDF)> section that the specification requires whenever
    <Number of Core Electrons> is non-zero; class ecp_no_edf omits it (what several programs do in practice).
  * D exponents are not generated (the specification shows E exponents only).
"""

import numpy as np

from .. import elements
from . import _aimprim as ap
from .base import WFN, Absent, Approx, Exact, Expect

FORMAT = "wfx"
FILENAME = "gen.wfx"
EXPLICIT_FMT = False
SOURCES = [
    "AIMAll, Format Specification for AIMAll Extended Wavefunction Files (.wfx), http://aim.tkgristmill.com/wfxformat.html",
    "Gaussian 09 / GAMESS written corpus files /repo/iodata/test/data/*.wfx as examples of real output (section order, number layout)",
]
CLASSES = ["small_by_shell", "by_type", "high_l", "many_centres", "wide_coords", "no_optional", "unrestricted", "rohf",
           "virtual", "natural_orbitals", "ragged_lines", "ecp_edf", "ecp_no_edf", "all_optional", "shuffled_sections",
           "no_spin_types", "exponent_styles", "gradient_reordered"]


def _spec(rng, natom, nshell, lmax, nconmax):
    return [(None, int(rng.integers(0, lmax + 1)), int(rng.integers(1, nconmax + 1))) for _ in range(nshell)]


def generate(rng, klass):
    natom = int(rng.integers(1, 5))
    zmax, mag = 36, 4.0
    by_type, comp = False, "aimall"
    okind, nocc, nvirt = "restricted", None, 0
    m = {"realfmt": "E3", "per_line": {"int": 10, "real": 4}, "ragged": False, "opt": {"model": True, "mult": False, "grad": False, "wvir": False},
         "ecp": False, "edf": False, "shuffle": False, "spin_types": True, "name_style": "plain"}
    if klass == "small_by_shell":
        spec = _spec(rng, natom, int(rng.integers(1, 6)), 2, 1)
    elif klass == "by_type":
        spec = _spec(rng, natom, int(rng.integers(2, 6)), 3, 4) + [(None, int(rng.integers(1, 4)), int(rng.integers(2, 5)))]
        by_type, comp = True, str(rng.choice(["aimall", "gaussian", "random"]))
    elif klass == "high_l":
        natom = int(rng.integers(1, 3))
        ls = list(range(6)) + [int(v) for v in rng.integers(3, 6, size=int(rng.integers(0, 3)))]
        rng.shuffle(ls)
        spec = [(None, l, int(rng.integers(1, 3))) for l in ls]
        by_type, comp = None, ["aimall", "gaussian", "random"]
    elif klass == "many_centres":
        natom = int(rng.choice([100, 111, 120]))
        spec = [(i, 0, 1) for i in range(natom)] + [(natom - 1, 1, 2), (natom - 2, 2, 1)]
        by_type, comp, mag = True, "gaussian", 40.0
        m["opt"]["grad"] = True
    elif klass == "wide_coords":
        natom = int(rng.integers(2, 6))
        spec = _spec(rng, natom, int(rng.integers(2, 6)), 2, 2)
        mag = 5000.0
    elif klass == "no_optional":
        spec = _spec(rng, natom, int(rng.integers(2, 6)), 2, 2)
        m["opt"]["model"] = False
    elif klass == "unrestricted":
        spec = _spec(rng, natom, int(rng.integers(2, 6)), 2, 2)
        okind, nvirt = "unrestricted", int(rng.integers(0, 3))
        m["opt"]["mult"] = True
        by_type = bool(rng.integers(2))
    elif klass == "rohf":
        spec = _spec(rng, natom, int(rng.integers(2, 6)), 2, 2)
        okind = "rohf"
        m["opt"]["mult"] = True
    elif klass == "virtual":
        spec = _spec(rng, natom, int(rng.integers(2, 6)), 2, 2)
        nvirt = int(rng.integers(1, 6))
    elif klass == "natural_orbitals":
        spec = _spec(rng, natom, int(rng.integers(2, 6)), 2, 2)
        okind, nvirt = "natural", int(rng.integers(1, 5))
    elif klass == "ragged_lines":
        spec = _spec(rng, natom, int(rng.integers(2, 8)), 2, 2)
        m["ragged"] = True
        by_type = None
        m["realfmt"] = "E2"
    elif klass in ("ecp_edf", "ecp_no_edf"):
        zmax = 86
        spec = _spec(rng, natom, int(rng.integers(2, 6)), 2, 2)
        m["ecp"], m["edf"] = True, klass == "ecp_edf"
    elif klass == "all_optional":
        spec = _spec(rng, natom, int(rng.integers(2, 6)), 2, 2)
        m["opt"] = {"model": True, "mult": True, "grad": True, "wvir": True}
        m["name_style"] = str(rng.choice(["plain", "padded", "indented"]))
        m["realfmt"] = "E2"
    elif klass == "shuffled_sections":
        spec = _spec(rng, natom, int(rng.integers(2, 6)), 2, 2)
        m["shuffle"] = True
        m["opt"]["grad"] = bool(rng.integers(2))
    elif klass == "gradient_reordered":
        # the gradient records carry the nucleus name as their key: listed in another order than <Nuclear Names>
        natom = max(natom, 3)
        spec = _spec(rng, natom, int(rng.integers(2, 6)), 2, 2)
        m["opt"]["grad"] = True
        m["grad_order"] = [int(i) for i in rng.permutation(natom)]
        if m["grad_order"] == sorted(m["grad_order"]):
            m["grad_order"] = m["grad_order"][::-1]
    elif klass == "no_spin_types":
        spec = _spec(rng, natom, int(rng.integers(2, 6)), 2, 2)
        m["spin_types"] = False
    elif klass == "exponent_styles":
        spec = _spec(rng, natom, int(rng.integers(2, 6)), 3, 2)
        m["realfmt"] = str(rng.choice(["E2", "e2short", "E3"]))
        m["per_line"] = {"int": int(rng.choice([5, 10, 20])), "real": int(rng.choice([3, 4, 5]))}
        by_type = bool(rng.integers(2))
    else:
        raise ValueError(klass)
    atnums = rng.integers(1, zmax + 1, size=natom)
    coords = rng.uniform(-mag, mag, size=(natom, 3))
    coords[:, 0] += 1e-3 * np.arange(natom)
    if klass == "wide_coords":
        coords[0] = [-1234.56789012345, 1e-17, -1.75417809e-16]
    charges = atnums.astype(float)
    ncore = np.zeros(natom, dtype=int)
    if m["ecp"]:
        ncore = np.array([0 if z <= 2 else (2 if z <= 10 else (10 if z <= 36 else (28 if z <= 54 else 60))) for z in atnums])
        if (ncore == 0).all():
            atnums[0], ncore[0] = 79, 60
        charges = (atnums - ncore).astype(float)
    groups = ap.make_groups(rng, natom, spec)
    shells, prims = ap.layout(rng, groups, by_type, comp)
    occs, spins, energies = ap.orbital_model(rng, okind, nocc, nvirt, edec=12)
    cfile = ap.random_file_coeffs(rng, shells, prims, len(occs), 15)
    kind, _norba, _norbb, nalpha, nbeta = ap.spin_summary(occs, spins)
    nelec = float(np.sum(occs))
    m.update({
        "title": str(rng.choice(["H2O HF/STO-3G//HF/STO-3G", "title with <angle> brackets inside", "  x  "])),
        "atnums": atnums, "coords": coords, "charges": charges, "ncore": int(ncore.sum()), "shells": shells, "prims": prims,
        "occs": occs, "spins": spins, "energies": energies, "cfile": cfile,
        "energy": float(rng.uniform(-400, -1)), "virial": float(rng.uniform(1.9, 2.1)),
        "nelec": int(round(nelec)), "nalpha": int(round(nalpha)), "nbeta": int(round(nbeta)),
        "net_charge": int(round(charges.sum() - nelec)),
        "model": {"restricted": "Restricted HF", "unrestricted": "Unrestricted B3LYP", "rohf": "Restricted Open-Shell HF",
                  "natural": "Restricted CISD"}[okind],
        "gradient": rng.normal(scale=1e-2, size=(natom, 3)) + 1e-4 * np.arange(natom)[:, None],
        "wvirial": float(rng.normal(scale=1e-3)), "full_virial": float(rng.uniform(1.9, 2.1)),
        "seed": int(rng.integers(1 << 30)),
    })
    cen, _t, _e, _p, _r = ap.prim_arrays(shells, prims)
    m["features"] = [klass, f"natom={natom}", f"lmax={max(s[1] for s in shells)}",
                     f"layout={'type' if by_type else ('mixed' if by_type is None else 'shell')}", f"comp={comp if isinstance(comp, str) else 'mixed'}",
                     f"real={m['realfmt']}", f"orb={okind}", f"virt={int(nvirt > 0)}", f"centre>=100:{int(max(cen) >= 100)}",
                     "opt=" + "".join(k[0] for k, v in sorted(m["opt"].items()) if v), f"names={m['name_style']}"]
    return m


def _r(m, x):
    """One real number as printed."""
    x = float(x)
    if m["realfmt"] == "E3":                    # Gaussian: 1.30709321000000E+002
        s = f"{x:.14E}"
        return s[:-2] + "0" + s[-2:]
    if m["realfmt"] == "e2short":               # 5.054717669172e-02
        return f"{x: .12e}"
    return f"{x: .14E}"                          # GAMESS:  3.00000000000000E+00


def _name(m, i):
    s = f"{elements.NUM2SYM[int(m['atnums'][i])]}{i + 1}"
    return {"plain": s, "padded": s.ljust(8), "indented": " " + s}[m["name_style"]]


def _lines(m, items, kind, key):
    """Distribute printed items over lines: fixed count per line, or ragged (random 1..7 per line, reproducible)."""
    items = list(items)
    if not m["ragged"]:
        n = m["per_line"][kind]
        return [" ".join(items[i:i + n]) for i in range(0, len(items), n)]
    rng = np.random.default_rng([m["seed"], sum(map(ord, key))])
    out, i = [], 0
    while i < len(items):
        n = int(rng.integers(1, 8))
        out.append((" " * int(rng.integers(0, 3))) + "  ".join(items[i:i + n]))
        i += n
    return out


def _one(m, items, key):
    """One item per line (what Gaussian and GAMESS do); free format allows several per line (ragged classes)."""
    return _lines(m, items, "real", key) if m["ragged"] else list(items)


def _pieces(m):
    cen, typ, exps, _pw, _rows = ap.prim_arrays(m["shells"], m["prims"])
    return {
        "coords": [[_r(m, v) for v in row] for row in m["coords"]],
        "charges": [_r(m, q) for q in m["charges"]],
        "cen": cen, "typ": typ, "exps": [_r(m, a) for a in exps],
        "coeffs": [[_r(m, v) for v in m["cfile"][:, j]] for j in range(m["cfile"].shape[1])],
        "occs": [_r(m, o) for o in m["occs"]], "energies": [_r(m, e) for e in m["energies"]],
        "energy": _r(m, m["energy"]), "virial": _r(m, m["virial"]),
        "gradient": [[_r(m, v) for v in row] for row in m["gradient"]],
        "wvirial": _r(m, m["wvirial"]), "full_virial": _r(m, m["full_virial"]),
    }


_SPIN = {1: "Alpha", 2: "Beta", 3: "Alpha and Beta"}


def _sections(m):
    p = _pieces(m)
    natom, nprim, nmo = len(m["atnums"]), len(m["prims"]), len(m["occs"])
    sec = [
        ("Title", [m["title"]]),
        ("Keywords", ["GTO"]),
        ("Number of Nuclei", [str(natom)]),
        ("Number of Primitives", [str(nprim)]),
        ("Number of Occupied Molecular Orbitals", [str(nmo)]),
        ("Number of Perturbations", ["0"]),
        ("Nuclear Names", [_name(m, i) for i in range(natom)]),
        ("Atomic Numbers", _one(m, [str(int(z)) for z in m["atnums"]], "z")),
        ("Nuclear Charges", _one(m, p["charges"], "q")),
        ("Nuclear Cartesian Coordinates", _lines(m, [v for row in p["coords"] for v in row], "real", "xyz") if m["ragged"]
         else [" ".join(row) for row in p["coords"]]),
        ("Net Charge", [str(m["net_charge"])]),
        ("Number of Electrons", [str(m["nelec"])]),
        ("Number of Alpha Electrons", [str(m["nalpha"])]),
        ("Number of Beta Electrons", [str(m["nbeta"])]),
    ]
    if m["opt"]["mult"]:
        sec.append(("Electronic Spin Multiplicity", [str(abs(m["nalpha"] - m["nbeta"]) + 1)]))
    if m["opt"]["model"]:
        sec.append(("Model", [m["model"]]))
    if m["ecp"]:
        sec.append(("Number of Core Electrons", [str(m["ncore"])]))
    sec += [
        ("Primitive Centers", _lines(m, [str(c) for c in p["cen"]], "int", "cen")),
        ("Primitive Types", _lines(m, [str(c) for c in p["typ"]], "int", "typ")),
        ("Primitive Exponents", _lines(m, p["exps"], "real", "exp")),
    ]
    if m["edf"]:
        heavy = [i + 1 for i, z in enumerate(m["atnums"]) if z > 2][:2] or [1]
        edf = []
        for tag, body in (("Number of EDF Primitives", [str(2 * len(heavy))]),
                          ("EDF Primitive Centers", [" ".join(str(c) for c in heavy for _ in range(2))]),
                          ("EDF Primitive Types", [" ".join("1" for _ in range(2 * len(heavy)))]),
                          ("EDF Primitive Exponents", [" ".join(_r(m, 10.0 + k) for k in range(2 * len(heavy)))]),
                          ("EDF Primitive Coefficients", [" ".join(_r(m, 1.5 + k) for k in range(2 * len(heavy)))])):
            edf += [f"<{tag}>"] + body + [f"</{tag}>"]
        sec.append(("Additional Electron Density Function (EDF)", edf))
    sec += [
        ("Molecular Orbital Occupation Numbers", _one(m, p["occs"], "occ")),
        ("Molecular Orbital Energies", _one(m, p["energies"], "ene")),
    ]
    if m["spin_types"]:
        sec.append(("Molecular Orbital Spin Types", [_SPIN[s] for s in m["spins"]]))
    mo = []
    for j in range(nmo):
        mo += ["<MO Number>", str(j + 1), "</MO Number>"] + _lines(m, p["coeffs"][j], "real", f"mo{j}")
    sec += [
        ("Molecular Orbital Primitive Coefficients", mo),
        ("Energy = T + Vne + Vee + Vnn", [p["energy"]]),
        ("Virial Ratio (-V/T)", [p["virial"]]),
    ]
    if m["opt"]["grad"]:
        sec.append(("Nuclear Cartesian Energy Gradients", [f"{_name(m, i).strip():<10s} " + " ".join(p["gradient"][i]) for i in m.get("grad_order", range(natom))]))
    if m["opt"]["wvir"]:
        sec.append(("Nuclear Virial of Energy-Gradient-Based Forces on Nuclei, W", [p["wvirial"]]))
        sec.append(("Full Virial Ratio, -(V - W)/T", [p["full_virial"]]))
    if m["shuffle"]:
        order = np.random.default_rng(m["seed"]).permutation(len(sec))
        sec = [sec[i] for i in order]
    return sec


def write(m):
    out = []
    for tag, body in _sections(m):
        out += [f"<{tag}>"] + list(body) + [f"</{tag}>"]
    return "\n".join(out) + "\n"


def expected(m):
    p = _pieces(m)
    f = lambda seq: np.array([float(s) for s in seq])  # noqa: E731
    coords = np.array([[float(s) for s in row] for row in p["coords"]])
    occs, energies = f(p["occs"]), f(p["energies"])
    cfile = np.array([[float(s) for s in col] for col in p["coeffs"]]).T
    exps_printed = f(p["exps"])
    # the exponents of model and file agree to the printed precision; the description uses the PRINTED exponents
    shells = list(m["shells"])
    _cen, _typ, exps, _pw, _rows = ap.prim_arrays(shells, m["prims"])
    assert np.allclose(exps_printed, exps, rtol=1e-11)
    kind, norba, norbb, _na, _nb = ap.spin_summary(occs, m["spins"])
    rel = 1e-12 if m["realfmt"] == "e2short" else 1e-14
    exp = Expect({
        ("title",): Exact(m["title"].strip()),
        ("atnums",): Exact(np.array(m["atnums"], dtype=int)),
        ("atcorenums",): Approx(f(p["charges"]), atol=1e-12),
        ("atcoords",): Approx(coords, atol=1e-30, rtol=rel),
        ("energy",): Approx(float(p["energy"]), rtol=rel),
        ("charge",): Approx(float(m["net_charge"]), atol=1e-9),
        ("nelec",): Approx(float(m["nelec"]), atol=1e-9),
        ("spinpol",): Approx(float(abs(m["nalpha"] - m["nbeta"])), atol=1e-9),
        ("extra", "keywords"): Exact("GTO"),
        ("extra", "num_perturbations"): Exact(0),
        ("extra", "virial_ratio"): Approx(float(p["virial"]), rtol=rel),
        ("extra", "model_name"): Exact(m["model"]) if m["opt"]["model"] else Absent(),
        ("extra", "spin_multi"): Exact(abs(m["nalpha"] - m["nbeta"]) + 1) if m["opt"]["mult"] else Absent(),
        ("extra", "num_core_electrons"): Exact(m["ncore"]) if m["ecp"] else Absent(),
        ("atgradient",): Approx(np.array([[float(s) for s in row] for row in p["gradient"]]), atol=1e-30, rtol=rel) if m["opt"]["grad"] else Absent(),
        WFN: ap.wfn_description(coords, shells, m["prims"], cfile, kind, norba, norbb, occs, energies),
    })
    if m["opt"]["wvir"]:
        exp[("extra", "nuc_viral")] = Approx(float(p["wvirial"]), rtol=rel)
        exp[("extra", "full_virial_ratio")] = Approx(float(p["full_virial"]), rtol=rel)
    return exp


# Classes that are generated but NOT asserted by C03 (triage decisions, see DESIGN.md section 7): class -> reason
NOT_ASSERTED = {'no_spin_types': 'UNVERIFIED-SPEC (whether the section is optional)'}
