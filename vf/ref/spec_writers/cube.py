"""Gaussian cube file writer.

Layout (Gaussian 'cubegen' utility documentation, section 'Cube file format'; P. Bourke, 'Gaussian Cube Files'):
  line 1, 2   title / comment
  line 3      NAtoms, X0, Y0, Z0 [, NVal]          format (I5,3F12.6[,I5]); NVal (values per grid point, 1) is optional
  line 4-6    N1, X1, Y1, Z1 (and N2.., N3..)       format (I5,3F12.6); number of points and step vector of each axis; positive N =
                                                     lengths in bohr
  atoms       IA, Chg, X, Y, Z                      format (I5,4F12.6); atomic number, (nuclear/core) charge, position in bohr
  data        the grid is written with the third axis (N3) as the fastest index, six values per line (6E13.5, Gaussian prints
              1PE13.5), and every run of N3 values starts on a new line:
                  DO I1 = 1,N1 ; DO I2 = 1,N2 ; WRITE(n,'(6E13.5)') (V(I1,I2,I3),I3=1,N3)
iodata documents: cube.origin, cube.axes (rows = step vectors), cube.data[(i1,i2,i3)], all in atomic units, and (module docstring of
iodata.formats.cube) "the second column in the geometry specification of the cube file is interpreted as the effective core charges"
-> atcorenums.  The file does not define a periodic cell, so cellvecs is not part of the expectation.
"""

import numpy as np

from . import _vasp
from .base import Approx, Exact, Expect

FORMAT = "cube"
FILENAME = "gen.cube"
EXPLICIT_FMT = False
SOURCES = [
    "Gaussian 16 documentation, utility 'cubegen', section on the cube file format (https://gaussian.com/cubegen/): "
    "NAtoms,X0,Y0,Z0[,NVal] (I5,3F12.6); N1,X1,Y1,Z1 (I5,3F12.6) x3; IA,Chg,X,Y,Z (I5,4F12.6) per atom; "
    "Do I1/Do I2/Write(n,'(6E13.5)') (X(I3,I2,I1),I3=1,N3)",
    "P. Bourke, 'Gaussian Cube Files' (http://paulbourke.net/dataformats/cube/): z is the fastest index, positive voxel counts = bohr",
    "Fortran standard, Ew.d output editing: exponents with |e| > 99 are written as +-ddd without the letter E",
]
CLASSES = ["nz_residues", "nz_lt6", "nz1", "tiny_1x1x1", "nonorthogonal", "negative_origin", "pseudopotential", "zero_charge_column",
           "touching_fields", "nval_field", "many_atoms", "signed_values", "fortran_3digit_exponent"]


def _e13_5(x, three_digit_fortran=False):
    """Gaussian's 1PE13.5: d.dddddE+xx.  Returns text, denoted value, half a unit of the last digit."""
    m, e = f"{x:.5E}".split("E")
    exp = int(e)
    if abs(exp) > 99:
        if not three_digit_fortran:
            raise ValueError("exponent needs three digits")
        txt = f"{m}{exp:+04d}"
    else:
        txt = f"{m}E{exp:+03d}"
    return txt.rjust(13), float(f"{m}e{exp}"), 0.5 * 10.0 ** (exp - 5)


def generate(rng, klass):
    nx, ny = int(rng.integers(1, 6)), int(rng.integers(1, 6))
    nz = int(rng.integers(1, 20))
    axes = np.diag(np.round(rng.uniform(0.1, 2.5, size=3), 6))
    origin = np.round(rng.uniform(0, 5, size=3), 6)
    natom = int(rng.integers(1, 6))
    charge_mode = "z"
    nval = False
    vk = {}
    exp3 = False
    touching = False
    if klass == "nz_residues":
        nz = 6 + int(rng.integers(0, 19))
    elif klass == "nz_lt6":
        nz = int(rng.integers(2, 6))
    elif klass == "nz1":
        nz = 1
    elif klass == "tiny_1x1x1":
        nx = ny = nz = 1
    elif klass == "nonorthogonal":
        axes = np.round(np.diag(rng.uniform(0.2, 2.0, size=3)) + rng.uniform(-0.4, 0.4, size=(3, 3)), 6)
    elif klass == "negative_origin":
        origin = -np.round(rng.uniform(1, 9.99, size=3) * 10.0 ** rng.integers(-2, 3, size=3), 6)
    elif klass == "touching_fields":
        # F12.6 fields that are completely filled (-1000.000000 and below) touch the preceding field
        origin = -np.round(rng.uniform(1000, 9999, size=3), 6)
        touching = True
    elif klass == "pseudopotential":
        charge_mode = "ecp"
    elif klass == "zero_charge_column":
        charge_mode = "zero"
    elif klass == "nval_field":
        nval = True
    elif klass == "many_atoms":
        natom = int(rng.choice([99, 100, 250]))
    elif klass == "signed_values":
        vk.update(signs=True, wide=True)
    elif klass == "fortran_3digit_exponent":
        exp3 = True
    else:
        raise ValueError(klass)
    atnums = rng.integers(1, 104, size=natom)
    if charge_mode == "z":
        charges = atnums.astype(float)
    elif charge_mode == "zero":
        charges = np.zeros(natom)
    else:
        # effective core charge: Z minus the number of core electrons replaced by the pseudopotential (at least one atom differs)
        cores = (0, 2, 10, 18, 28, 36, 46, 54, 60, 68, 78)
        charges = np.array([float(z - max(c for c in cores if c < z)) for z in atnums])
        if natom > 1:
            charges[0] = float(atnums[0])
        if np.all(charges == atnums):
            atnums[-1] = 29
            charges[-1] = 19.0
    coords = np.round(rng.uniform(-20, 20, size=(natom, 3)), 3) + np.arange(natom)[:, None] * 1e-6 * (1 if natom < 1000 else 0)
    coords = np.round(coords, 6)
    if touching:
        coords[0] = -np.round(rng.uniform(1000, 9999, size=3), 6)
    values = _vasp.index_values(rng, (nx, ny, nz), **vk)
    if exp3:
        values = values * 10.0 ** rng.choice([-120, -100, -99, -98, 0], size=values.shape)
        values[0, 0, 0] = 1.2345e-101
    return {
        "title": f" generated cube id={int(rng.integers(0, 10**6))}", "comment": " Electron density from Total SCF Density",
        "origin": origin, "axes": axes, "shape": (nx, ny, nz), "atnums": atnums, "charges": charges, "coords": coords,
        "values": values, "nval": nval, "exp3": exp3,
        "features": [klass, f"nz%6={nz % 6}", "nz<6" if nz < 6 else "nz>=6", f"shape={nx}x{ny}x{nz}", f"natom={natom}",
                     f"charge={charge_mode}"],
    }


def _render(model):
    nx, ny, nz = model["shape"]
    o = model["origin"]
    lines = [model["title"], model["comment"]]
    lines.append(f"{len(model['atnums']):5d}{o[0]:12.6f}{o[1]:12.6f}{o[2]:12.6f}" + (f"{1:5d}" if model["nval"] else ""))
    for n, ax in zip(model["shape"], model["axes"]):
        lines.append(f"{n:5d}{ax[0]:12.6f}{ax[1]:12.6f}{ax[2]:12.6f}")
    for z, q, r in zip(model["atnums"], model["charges"], model["coords"]):
        lines.append(f"{int(z):5d}{q:12.6f}{r[0]:12.6f}{r[1]:12.6f}{r[2]:12.6f}")
    vals = np.zeros(model["shape"])
    half = np.zeros(model["shape"])
    for i in range(nx):
        for j in range(ny):
            texts = []
            for k in range(nz):
                t, v, h = _e13_5(float(model["values"][i, j, k]), model["exp3"])
                texts.append(t)
                vals[i, j, k], half[i, j, k] = v, h
            lines += ["".join(texts[p:p + 6]) for p in range(0, nz, 6)]
    return "\n".join(lines) + "\n", vals, half


def write(model):
    return _render(model)[0]


def expected(model):
    _text, vals, half = _render(model)
    return Expect({
        ("title",): Exact(model["title"].strip()),
        ("atnums",): Exact(np.array(model["atnums"], dtype=int)),
        # module docstring of iodata.formats.cube: second column = effective core charges (no exception documented for 0.0)
        ("atcorenums",): Approx(np.array(model["charges"], dtype=float), atol=1e-12),
        ("atcoords",): Approx(model["coords"], atol=1e-12),
        ("cube", "origin"): Approx(model["origin"], atol=1e-12),
        ("cube", "axes"): Approx(model["axes"], atol=1e-12),
        ("cube", "data"): Approx(vals, atol=half),
    })


# Classes that are generated but NOT asserted by C03 (triage decisions, see DESIGN.md section 7): class -> reason
NOT_ASSERTED = {'zero_charge_column': 'the reader maps a zero second column to the atomic number (DESIGN 3.2: ghost atoms are outside the cube domain)', 'fortran_3digit_exponent': 'Fortran output without exponent letter (|exp|>99): edge case not named by the property'}
