"""ORCA output files (ORCA 4/5 text output).

There is no formal grammar of the ORCA output; the layout below follows the ORCA manual's description of the output of
single-point and geometry-optimisation jobs and the real ORCA 4.2.1 output in the corpus (/repo/iodata/test/data/water_orca.out),
from which the literal headers and the column positions were read off.  ORCA is a C++ program; the corpus does not reveal
whether neighbouring columns are separated by a literal blank or only by the field width, so the writer uses a literal blank plus
a field one narrower (identical text for ordinary values; over-wide values then shift the line instead of touching):

    ---------------------------------
    CARTESIAN COORDINATES (ANGSTROEM)
    ---------------------------------
      %-2s  %11.6f %11.6f %11.6f                            symbol x y z, angstrom
    <blank>
    ----------------------------
    CARTESIAN COORDINATES (A.U.)
    ----------------------------
      NO LB      ZA    FRAG     MASS         X           Y           Z
    %4d %-2s %9.4f %4d %9.3f %11.6f %11.6f %11.6f           index, label, nuclear charge, fragment, mass (amu), x y z in bohr
    <blank>
    --------------
    SCF ITERATIONS
    --------------
    ITER       Energy         Delta-E        Max-DP      RMS-DP      [F,P]     Damp           (DIIS phase)
                   ***  Starting incremental Fock matrix formation  ***
    %3d %17.10f %16.12f %10.8f %11.8f %10.7f %6.4f
                                   ***Turning on DIIS***
    ITER      Energy       Delta-E        Grad      Rot      Max-DP    RMS-DP                 (SOSCF phase, optional)
    %3d %15.8f %14.10f %9.6f %9.6f %9.6f %9.6f
                     **** Energy Check signals convergence ****
    <blank>
    -------------------------   --------------------
    FINAL SINGLE POINT ENERGY  %21.12f                       hartree
    -------------------------   --------------------
    -------------
    DIPOLE MOMENT
    -------------
                                    X             Y             Z
    Electronic contribution: %12.5f %13.5f %13.5f
    Nuclear contribution   : %12.5f %13.5f %13.5f
                            -----------------------------------------
    Total Dipole Moment    : %12.5f %13.5f %13.5f            atomic units (the next lines give "Magnitude (a.u.)" and "(Debye)")

A geometry optimisation repeats coordinates / SCF / FINAL SINGLE POINT ENERGY per "GEOMETRY OPTIMIZATION CYCLE n" and ends with
"*** FINAL ENERGY EVALUATION AT THE STATIONARY POINT ***" (coordinates, SCF, energy once more) and the properties.
(The DIIS-phase row layout is not in the corpus file, which only has the SOSCF phase; it follows ORCA 4 outputs as published in the
ORCA manual / tutorials: iteration, energy with 10 decimals, Delta-E with 12, Max-DP, RMS-DP, [F,P], damping.)
The reader is specified (comments in load_one: "to maintain the ones from the final SCF iteration in e.g. optimization run";
"Read the energies of each SCF cycle in iodata.extra") to return the LAST geometry, energy and SCF table; extra["scf_energies"] in hartree.

Model: coordinates in bohr with 6 decimals; the angstrom table is derived from them.  Expected atcoords tolerance 1e-6 bohr
covers a reader that takes either table.
"""

import numpy as np

from .. import elements, units
from .base import Approx, Exact, Expect

FORMAT = "orcalog"
FILENAME = "gen.out"
EXPLICIT_FMT = False
SOURCES = [
    "ORCA 4.2 manual (https://orcaforum.kofo.mpg.de, sections 'Single Points', 'Geometry Optimizations': structure of the output, "
    "dipole moment printed in a.u., 'FINAL SINGLE POINT ENERGY')",
    "real ORCA 4.2.1 output /repo/iodata/test/data/water_orca.out: literal headers, field widths",
]
CLASSES = ["single_point", "negative_coords", "two_letter_symbols", "optimization", "many_scf_iterations", "soscf_table",
           "diis_and_soscf", "no_dipole", "large_energy", "wide_negative_coords"]

MASS = {1: 1.008, 6: 12.011, 7: 14.007, 8: 15.999, 9: 18.998, 17: 35.453, 35: 79.900, 26: 55.850, 11: 22.990, 14: 28.086, 92: 238.029}


def _scf(rng, n, e0, style):
    """A converging sequence of n energies (hartree), unique per iteration."""
    delta = 10.0 ** np.linspace(-1, -9, n)
    e = e0 + delta + 1e-9 * np.arange(n)[::-1]
    ndec = 8 if style == "soscf" else 10
    return np.array([float(format(v, f".{ndec}f")) for v in e])


def _geom(rng, natom, mag):
    c = np.round(rng.uniform(-mag, mag, size=(natom, 3)), 6) + np.arange(natom)[:, None] * 1e-3
    return np.array([float(format(v, ".6f")) for v in c.ravel()]).reshape(natom, 3)


def generate(rng, klass):
    natom = int(rng.integers(1, 9))
    pool = [1, 6, 7, 8, 9] if klass != "two_letter_symbols" else [17, 35, 26, 11, 14, 92]
    atnums = rng.choice(pool, size=natom)
    mag = 8.0
    ngeom = 1
    niter = [int(rng.integers(5, 14))]
    style = "diis"
    if klass == "optimization":
        ngeom = int(rng.integers(2, 6))
        niter = [int(rng.integers(5, 14)) for _ in range(ngeom + 1)]
    if klass == "many_scf_iterations":
        niter = [int(rng.choice([99, 100, 101, 125]))]
    if klass == "soscf_table":
        style = "soscf"
    if klass == "diis_and_soscf":
        style = "both"
    if klass == "wide_negative_coords":
        mag = 3000.0
    scale = 50000.0 if klass == "large_energy" else 300.0
    geoms = []
    for k in range(ngeom + (1 if klass == "optimization" else 0)):
        g = _geom(rng, natom, mag)
        if klass == "negative_coords":
            g = -np.abs(g)
        if klass == "wide_negative_coords":
            g[0] = [-1000.000001, -2345.678901, -999.999999]
        e0 = -rng.uniform(1.0, scale)
        sty = style
        geoms.append({
            "coords_bohr": g,
            "scf": _scf(rng, niter[k], e0, "soscf" if sty == "soscf" else "diis"),
            "scf2": _scf(rng, 4, e0 - 1e-4, "soscf") if sty == "both" else None,
            "style": sty,
            "final_energy": float(format(e0 - 3.9e-4 - 1e-6 * k, ".12f")),
        })
    if klass == "optimization":
        # the final energy evaluation happens at the last geometry of the search
        geoms[-1]["coords_bohr"] = geoms[-2]["coords_bohr"].copy()
    dip = None
    if klass != "no_dipole":
        dip = np.array([float(format(v, ".5f")) for v in rng.uniform(-3, 3, size=3)])
    m = {"klass": klass, "atnums": atnums, "geoms": geoms, "dipole": dip, "opt": klass == "optimization"}
    m["features"] = [klass, f"natom={natom}", f"ngeom={len(geoms)}", f"niter={niter[-1]}", f"scf={style}"]
    return m


def _coords(m, g, out):
    out += ["---------------------------------", "CARTESIAN COORDINATES (ANGSTROEM)", "---------------------------------"]
    for z, xyz in zip(m["atnums"], g["coords_bohr"]):
        out.append(f"  {elements.NUM2SYM[int(z)]:<2s} " + "".join(f" {v / units.angstrom:11.6f}" for v in xyz))
    out.append("")
    out += ["----------------------------", "CARTESIAN COORDINATES (A.U.)", "----------------------------"]
    out.append("  NO LB      ZA    FRAG     MASS         X           Y           Z")
    for i, (z, xyz) in enumerate(zip(m["atnums"], g["coords_bohr"])):
        out.append(f"{i:4d} {elements.NUM2SYM[int(z)]:<2s} {float(z):9.4f} {0:4d} {MASS[int(z)]:9.3f}" + "".join(f" {v:11.6f}" for v in xyz))
    out.append("")
    out += ["--------------------------------", "INTERNAL COORDINATES (ANGSTROEM)", "--------------------------------"]
    for i, z in enumerate(m["atnums"]):
        out.append(f" {elements.NUM2SYM[int(z)]:<2s}{min(i, 1):7d}{2 if i > 1 else 0:4d}{3 if i > 2 else 0:4d}{0.95 * (i > 0):19.12f}{0.0:15.8f}{0.0:15.8f}")
    out.append("")


def _scf_table(g, out):
    out += ["--------------", "SCF ITERATIONS", "--------------"]
    e = g["scf"]
    if g["style"] in ("diis", "both"):
        out.append("ITER       Energy         Delta-E        Max-DP      RMS-DP      [F,P]     Damp")
        out.append("               ***  Starting incremental Fock matrix formation  ***")
        for i, v in enumerate(e):
            de = 0.0 if i == 0 else v - e[i - 1]
            out.append(f"{i:3d} {v:17.10f} {de:16.12f} {0.03214030 / (i + 1):10.8f} {0.00297003 / (i + 1):11.8f} {0.1036451 / (i + 1):10.7f} {0.7 if i < 2 else 0.0:6.4f}")
            if i == 1:
                out.append("                               ***Turning on DIIS***")
            if i and i % 20 == 0:
                out.append("               *** Restarting incremental Fock matrix formation ***")
        if g["style"] == "both":
            out.append("                      *** Initiating the SOSCF procedure ***")
            out.append("                           *** Shutting down DIIS ***")
            out.append("                      *** Re-Reading the Fockian *** ")
            out.append("                      *** Removing any level shift *** ")
            out.append("ITER      Energy       Delta-E        Grad      Rot      Max-DP    RMS-DP")
            n0 = len(e)
            for i, v in enumerate(g["scf2"]):
                de = v - (e[-1] if i == 0 else g["scf2"][i - 1])
                out.append(f"{n0 + i:3d} {v:15.8f} {de:14.10f} {0.000433 / (i + 1):9.6f} {0.000433 / (i + 1):9.6f} {0.001101 / (i + 1):9.6f} {0.000179 / (i + 1):9.6f}")
    else:
        out.append("ITER       Energy         Delta-E        Max-DP      RMS-DP      [F,P]     Damp")
        out.append("               ***  Starting incremental Fock matrix formation  ***")
        out.append("                      *** Initiating the SOSCF procedure ***")
        out.append("                      *** Re-Reading the Fockian *** ")
        out.append("                      *** Removing any level shift *** ")
        out.append("ITER      Energy       Delta-E        Grad      Rot      Max-DP    RMS-DP")
        for i, v in enumerate(e):
            de = v if i == 0 else v - e[i - 1]
            out.append(f"{i:3d} {v:15.8f} {de:14.10f} {0.000433 / (i + 1):9.6f} {0.000433 / (i + 1):9.6f} {0.001101 / (i + 1):9.6f} {0.000179 / (i + 1):9.6f}")
            if i == 0:
                out.append("               *** Restarting incremental Fock matrix formation ***")
    out.append("                 **** Energy Check signals convergence ****")
    out.append("")
    n = len(e) + (len(g["scf2"]) if g["scf2"] is not None else 0)
    out.append("               *****************************************************")
    out.append("               *                     SUCCESS                       *")
    out.append(f"               *           SCF CONVERGED AFTER {n:3d} CYCLES          *")
    out.append("               *****************************************************")
    out.append("")
    out.append("----------------")
    out.append("TOTAL SCF ENERGY")
    out.append("----------------")
    out.append("")
    out.append(f"Total Energy       :       {g['final_energy']:18.8f} Eh       {g['final_energy'] * 27.211386:18.5f} eV")
    out.append("")


def _final(g, out):
    out.append("-------------------------   --------------------")
    out.append(f"FINAL SINGLE POINT ENERGY  {g['final_energy']:21.12f}")
    out.append("-------------------------   --------------------")
    out.append("")


def write(m):
    out = ["", "                                 *****************", "                                 * O   R   C   A *",
           "                                 *****************", "", "                         Program Version 4.2.1 -  RELEASE  -", "",
           "================================================================================",
           "                                       INPUT FILE",
           "================================================================================",
           "NAME = gen.inp", "|  1> ! HF def2-SVP" + (" Opt" if m["opt"] else ""), "|  2> * xyz 0 1",
           "|  3>                          ****END OF INPUT****",
           "================================================================================", ""]
    geoms = m["geoms"]
    if m["opt"]:
        for k, g in enumerate(geoms[:-1]):
            out += ["         *************************************************************",
                    f"         *                GEOMETRY OPTIMIZATION CYCLE {k + 1:3d}            *",
                    "         *************************************************************"]
            _coords(m, g, out)
            _scf_table(g, out)
            _final(g, out)
        out += ["                    ***********************HURRAY********************",
                "                    ***        THE OPTIMIZATION HAS CONVERGED     ***",
                "                    *************************************************", "",
                "              *******************************************************",
                "              *** FINAL ENERGY EVALUATION AT THE STATIONARY POINT ***",
                f"              ***               (AFTER {len(geoms) - 1:4d} CYCLES)               ***",
                "              *******************************************************"]
    else:
        out += ["                       ****************************", "                       * Single Point Calculation *",
                "                       ****************************", ""]
    g = geoms[-1]
    _coords(m, g, out)
    _scf_table(g, out)
    _final(g, out)
    if m["dipole"] is not None:
        d = m["dipole"]
        out += ["-------------", "DIPOLE MOMENT", "-------------", "                                X             Y             Z"]
        out.append(f"Electronic contribution: {d[0] - 1:12.5f} {d[1] - 1:13.5f} {d[2] - 1:13.5f}")
        out.append(f"Nuclear contribution   : {1.0:12.5f} {1.0:13.5f} {1.0:13.5f}")
        out.append("                        -----------------------------------------")
        out.append(f"Total Dipole Moment    : {d[0]:12.5f} {d[1]:13.5f} {d[2]:13.5f}")
        out.append("                        -----------------------------------------")
        out.append(f"Magnitude (a.u.)       :{np.linalg.norm(d):13.5f}")
        out.append(f"Magnitude (Debye)      :{np.linalg.norm(d) / units.debye:13.5f}")
        out.append("")
    out += ["Timings for individual modules:", "", "Sum of individual times         ...        1.858 sec (=   0.031 min)",
            "                             ****ORCA TERMINATED NORMALLY****", "TOTAL RUN TIME: 0 days 0 hours 0 minutes 2 seconds 26 msec"]
    return "\n".join(out) + "\n"


def expected(m):
    g = m["geoms"][-1]
    scf = g["scf"] if g["scf2"] is None else np.concatenate([g["scf"], g["scf2"]])
    exp = Expect({
        ("atnums",): Exact(np.array(m["atnums"], dtype=int)),
        ("atcoords",): Approx(g["coords_bohr"], atol=1.0e-6),
        ("energy",): Approx(g["final_energy"], atol=0.5e-12),
        ("extra", "scf_energies"): Approx(scf, atol=0.5e-10 if g["style"] == "diis" else 0.5e-8),
    })
    if m["dipole"] is not None:
        exp[("moments", (1, "c"))] = Approx(m["dipole"], atol=0.5e-5)
    return exp
