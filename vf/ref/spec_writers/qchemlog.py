"""Q-Chem output files: TEMPLATE PERTURBATION (the Q-Chem output has no published layout).

generate() takes a real Q-Chem output from the corpus as template and rewrites numeric fields in place with new numbers of the same
width (see _perturb.py); expected() lists exactly the rewritten values, converted to atomic units with the unit that the PROGRAM's
own print-out states next to the number:

    "Standard Nuclear Orientation (Angstroms)"                      -> angstrom
    "Nuclear Repulsion Energy = ... hartrees", "Total energy in the final basis set", SCF cycle energies   -> hartree
    "Orbital Energies (a.u.)", "Charge (a.u.)", "Polarizability Matrix (a.u.)"                              -> atomic units
    "Dipole Moment (Debye)"                                         -> debye
    "Quadrupole Moments (Debye-Ang)"                                -> debye*angstrom
    "Hessian of the SCF Energy"                                     -> atomic units (hartree/bohr^2; Q-Chem manual, "Vibrational analysis":
                                                                       the Hessian is printed in atomic units)
    "Zero point vibrational energy: ... kcal/mol", "... Enthalpy: ... kcal/mol"   -> kcal/mol
    "... Entropy: ... cal/mol.K"                                    -> cal/mol (per kelvin; reader docstring: "atomic units + Kelvin")
    "Atom 1 Element O Has Mass 15.99491" / "Molecular Mass: ... amu" / "REDUCED MASSES (AMU)"   -> amu
    "Fragment Energies (Ha)"                                        -> hartree
    "E_elec (ELEC) (kJ/mol) = ...", "Simplified EDA Summary (kJ/mol)"             -> kJ/mol

Dependent print-outs are kept consistent (dipole "Tot", "Sum of atomic charges", "Molecular Mass", the repeated SCF energy lines,
symmetric partners in the Hessian / polarizability).  Where a value goes (attribute name, extra key, which of several blocks of a
multi-step job is the top-level one) is taken from the reader, as instructed; the numbers and units are not.
"""

import os

import numpy as np

from .. import units
from . import _perturb

FORMAT = "qchemlog"
FILENAME = "gen.out"
EXPLICIT_FMT = True
SOURCES = [
    "template /repo/iodata/test/data/water_hf_ccpvtz_freq_qchem.out (real Q-Chem 5 frequency job)",
    "template /repo/iodata/test/data/h2o_dimer_eda_qchem5.3.out (real Q-Chem 5.3 EDA2 job)",
    "Q-Chem 5 manual (https://manual.q-chem.com/5.3/): units stated in the output headers; Hessian printed in atomic units",
]
DATA = "/repo/iodata/test/data"
TEMPLATES = {"freq_water_hf": "water_hf_ccpvtz_freq_qchem.out", "eda_h2o_dimer": "h2o_dimer_eda_qchem5.3.out"}
# $rem lines are "variable [=] value [comment]" (Q-Chem manual, section on the $rem array): the same frequency job with the job
# type written with an equals sign / followed by a comment / in capitals
REM_VARIANTS = {"freq_rem_equals": "jobtype = freq", "freq_rem_equals_tight": "jobtype=freq",
                "freq_rem_comment": "jobtype                 freq ! vibrational analysis", "freq_rem_capitals": "JOBTYPE                 FREQ"}
# "freq_after_opt_job": the usual two-step input (optimisation, @@@, frequencies): the log of a first job (the same system, cut
# before its coupled-perturbed SCF, job type opt) followed by the complete log of the frequency job
CLASSES = list(TEMPLATES) + list(REM_VARIANTS) + ["freq_after_opt_job"]

QUAD_INDEX = {"XX": 0, "XY": 1, "XZ": 2, "YY": 3, "YZ": 4, "ZZ": 5}     # IOData (2,'c') order: xx xy xz yy yz zz


def _structure(ed, i0, coord_path, nre_path):
    """Table after 'Standard Nuclear Orientation (Angstroms)' at line i0."""
    i = i0 + 3
    iat = 0
    while not ed.lines[i].strip().startswith("-----"):
        for k in range(3):
            ed.set(i, k, coord_path + (iat, k), units.angstrom, flip=True)
        iat += 1
        i += 1
    assert ed.lines[i + 1].strip().startswith("Nuclear Repulsion Energy")
    ed.set(i + 1, 0, nre_path, 1.0)
    return iat


def _orbital_energies(ed, i0, unrestricted):
    """Block after 'Orbital Energies (a.u.)' at line i0: Alpha (and Beta) MOs, occupied then virtual."""
    iorb = 0
    i = i0 + 1
    nblock = 0
    want = 4 if unrestricted else 2
    while nblock < want:
        s = ed.lines[i].strip()
        if s in ("-- Occupied --", "-- Virtual --"):
            nblock += 1
            i += 1
            while ed.floats(i) and not ed.lines[i].strip().startswith("--"):
                for k in range(len(ed.floats(i))):
                    ed.set(i, k, ("mo", "energies", iorb), 1.0, keep_decimals=2)
                    iorb += 1
                i += 1
            continue
        i += 1
    return iorb


def _mulliken(ed, i0):
    i = i0 + 1
    while not ed.lines[i].strip().startswith("-----"):
        i += 1
    i += 1
    iat = 0
    total = 0.0
    while not ed.lines[i].strip().startswith("-----"):
        total += ed.set(i, 0, ("atcharges", "mulliken", iat), 1.0, flip=True)
        iat += 1
        i += 1
    assert ed.lines[i + 1].strip().startswith("Sum of atomic charges")
    ed.put(i + 1, 0, total)


def _multipoles(ed, i0):
    i = ed.find("Dipole Moment (Debye)", i0)
    d = [ed.set(i + 1, k, ("moments", (1, "c"), k), units.debye, flip=True) for k in range(3)]
    assert ed.lines[i + 2].split()[0] == "Tot"
    assert ed.put(i + 2, 0, float(np.linalg.norm(d)))
    assert ed.lines[i + 3].strip().startswith("Quadrupole Moments (Debye-Ang)")
    for ln in (i + 4, i + 5):
        labels = ed.lines[ln].split()[0::2]
        for k, lab in enumerate(labels):
            ed.set(ln, k, ("moments", (2, "c"), QUAD_INDEX[lab]), units.debye * units.angstrom, flip=True)


def _square_blocks(ed, i0, end_marker, path, n):
    """Matrix printed in column blocks ('   1  v v v' rows under a header row of column numbers); symmetric partners kept equal."""
    values = {}
    i = i0 + 1
    cols = None
    while not ed.lines[i].strip().startswith(end_marker):
        words = ed.lines[i].split()
        if not ed.floats(i):
            cols = [int(w) - 1 for w in words]
        else:
            r = int(words[0]) - 1
            for k, c in enumerate(cols):
                if (c, r) in values:
                    assert ed.put(i, k, values[(c, r)])
                    values[(r, c)] = values[(c, r)]
                else:
                    values[(r, c)] = ed.set(i, k, None, 1.0, flip=(r != c))
        i += 1
    assert len(values) == n * n
    # record after symmetrisation; half a unit of the last printed digit
    tok = ed.floats(i - 1)[0].group()
    atol = ed._half_ulp(tok)
    for (r, c), v in values.items():
        ed.expect.append((path + (r, c), v, atol))


def _freq(ed):
    natom = _structure(ed, ed.find("Standard Nuclear Orientation (Angstroms)"), ("atcoords",), ("extra", "nuclear_repulsion_energy"))
    # SCF energy: three print-outs of the same number
    i = ed.find("Total energy in the final basis set")
    e = ed.set(i, 0, ("energy",), 1.0)
    assert ed.put(ed.find("SCF   energy in the final basis set"), 0, e)
    j = [k for k in range(i) if ed.lines[k].rstrip().endswith("Convergence criterion met")][-1]
    assert ed.put(j, 0, e)
    _orbital_energies(ed, ed.find("Orbital Energies (a.u.)"), unrestricted=True)
    _mulliken(ed, ed.find("Ground-State Mulliken Net Atomic Charges"))
    _multipoles(ed, ed.find("Cartesian Multipole Moments"))
    _square_blocks(ed, ed.find("Polarizability Matrix (a.u.)"), "Calculating analytic Hessian", ("extra", "polarizability_tensor"), 3)
    _square_blocks(ed, ed.find("Hessian of the SCF Energy"), "*****", ("athessian",), 3 * natom)
    ed.set(ed.find("Zero point vibrational energy:"), 0, ("extra", "vib_energy"), units.kcalmol)
    total = 0.0
    for iat in range(natom):
        i = ed.find(f"Atom {iat + 1:4d} Element")
        total += ed.set(i, 0, ("atmasses", iat), units.amu)
    assert ed.put(ed.find("Molecular Mass:"), 0, total)
    ed.set_int(ed.find("Rotational Symmetry Number is"), 0, ("g_rot",), [1, 2, 3, 4, 6])
    for text, key in (("Translational Enthalpy:", "trans_enthalpy"), ("Rotational Enthalpy:", "rot_enthalpy"),
                      ("Vibrational Enthalpy:", "vib_enthalpy"), ("Total Enthalpy:", "enthalpy_total")):
        ed.set(ed.find(text), 0, ("extra", "enthalpy_dict", key), units.kcalmol)
    for text, key in (("Translational Entropy:", "trans_entropy"), ("Rotational Entropy:", "rot_entropy"),
                      ("Vibrational Entropy:", "vib_entropy"), ("Total Entropy:", "entropy_total")):
        ed.set(ed.find(text), 0, ("extra", "entropy_dict", key), units.calmol)


def _eda(ed):
    sno = ed.find_all("Standard Nuclear Orientation (Angstroms)")
    _structure(ed, sno[0], ("atcoords",), ("extra", "nuclear_repulsion_energy"))
    for f, i0 in enumerate(sno[1:]):
        _structure(ed, i0, ("extra", "frags", f, "atcoords"), ("extra", "frags", f, "nuclear_repulsion_energy"))
    # final (charge-transfer allowed) supersystem energy: the last converged SCF of the job
    tol = ed.find_all("the SCF tolerance is set")
    conv = [k for k in range(len(ed.lines)) if ed.lines[k].rstrip().endswith("Convergence criterion met")]
    ed.set([k for k in conv if k > tol[-1]][0], 0, ("energy",), 1.0)
    # fragment energies: printed in the fragment SCF and again under 'Fragment Energies (Ha)'
    i = ed.find("Fragment Energies (Ha):")
    for f in range(len(sno) - 1):
        e = ed.set(i + 1 + f, 0, ("extra", "frags", f, "energy"), 1.0)
        assert ed.put([k for k in conv if k > tol[f]][0], 0, e)
    # every EDA term is printed once in the decomposition and (some of them) again in the summaries: keep the copies equal
    def term(text, key, copies=()):
        v = ed.set(ed.find(text, i), 0, ("extra", "eda2", key), units.kjmol)
        for ctext, ckey in copies:
            j = ed.find(ctext, i)
            assert ed.put(j, 0, v), ctext
            if ckey:
                ed.expect.append((("extra", "eda2", ckey), v * units.kjmol, 0.5e-4 * units.kjmol))

    term("E_elec   (ELEC)", "e_elec")
    term("E_pauli  (PAULI)", "e_pauli", [("[PAULI", "pauli")])
    term("E_disp   (DISP)", "e_disp", [("DISPERSION", "dispersion")])
    term("E_kep_pauli", "e_kep_pauli")
    term("E_disp_free_pauli", "e_disp_free_pauli")
    term("E_cls_elec", "e_cls_elec")
    term("E_cls_pauli", "e_cls_pauli")
    term("[E_mod_pauli", "e_mod_pauli")
    term("FROZEN", "frozen")
    term("POLARIZATION", "polarization", [("E_pol (kJ/mol)", None)])
    term("CHARGE TRANSFER", "charge transfer", [("E_vct (kJ/mol)", None)])
    term("TOTAL", "total", [("E_int (kJ/mol)", None)])
    _orbital_energies(ed, ed.find("Orbital Energies (a.u.)", last=True), unrestricted=False)
    _mulliken(ed, ed.find("Ground-State Mulliken Net Atomic Charges", last=True))
    _multipoles(ed, ed.find("Cartesian Multipole Moments", last=True))


def generate(rng, klass):
    template = TEMPLATES["freq_water_hf" if (klass in REM_VARIANTS or klass == "freq_after_opt_job") else klass]
    ed = _perturb.Editor(os.path.join(DATA, template), rng)
    (_freq if template == TEMPLATES["freq_water_hf"] else _eda)(ed)
    text = ed.text()
    if klass in REM_VARIANTS:
        assert text.count("jobtype                 freq\n") == 1
        text = text.replace("jobtype                 freq\n", REM_VARIANTS[klass] + "\n")
    if klass == "freq_after_opt_job":
        head, sep, _ = text.partition(" Calculating MO derivatives via CPSCF")
        assert sep and "Running Job 1 of 1" in text
        job1 = head.replace("jobtype                 freq", "jobtype                 opt").replace("Running Job 1 of 1", "Running Job 1 of 2")
        text = job1 + "\n\n" + text[text.index("Running Job 1 of 1"):].replace("Running Job 1 of 1", "Running Job 2 of 2")
    return {"klass": klass, "text": text, "expect": ed.expect, "freq": template == TEMPLATES["freq_water_hf"] and klass != "freq_after_opt_job",
            "features": [klass, f"template={template}", f"nedit={ed.nedit}"]}


def write(m):
    return m["text"]


def expected(m):
    exp = _perturb.to_expect(m["expect"], units.RTOL)
    if m.get("freq"):
        from .base import Exact

        exp[("run_type",)] = Exact("freq")
        exp[("lot",)] = Exact("hf")
        exp[("obasis_name",)] = Exact("cc-pvtz")
    return exp
