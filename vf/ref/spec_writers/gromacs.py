"""GROMACS .gro files (Gromos87 layout).  Model values in the file's units: nm, nm/ps, ps.

Layout (GROMACS reference manual, file formats, "gro"):
  line 1   title string (free format string, optional time in ps after 't=')
  line 2   number of atoms (free format integer)
  atoms    "%5d%-5s%5s%5d%8.3f%8.3f%8.3f%8.4f%8.4f%8.4f": residue number, residue name, atom name, atom number,
           position x y z (nm), velocity x y z (nm/ps, optional).  Any number of decimal places n is allowed: the three
           position fields then have width n+5 with n decimals and the velocity fields width n+5 with n+1 decimals (the reader
           derives n from the distance between the decimal points).  Residue and atom numbers wrap at 100000 (written modulo 100000).
  last     box vectors, free format: v1(x) v2(y) v3(z) [v1(y) v1(z) v2(x) v2(z) v3(x) v3(y)]; the last six values may be
           omitted (zero).  GROMACS only supports boxes with v1(y)=v1(z)=v2(z)=0.
  Trajectory = concatenation of frames.

Expected IOData mapping: atcoords (nm -> bohr), extra["velocities"] (nm/ps -> a.u.), extra["time"] (ps -> a.u.),
atffparams[attypes|resnames|resnums], cellvecs (rows are the box vectors v1, v2, v3), title (only asserted when the title
line has no 't=', because the manual does not define how title text and time are delimited).

Precision note: iodata stores positions/velocities/cell as float32.  The printed precision (1e-3 nm; 1e-4 nm/ps) is coarser
than float32 resolution only while |x| < about 2000 nm (float32 spacing 1.2e-4 nm at 1000..2048 nm, plus the rounding of
the float32 product with the unit factor); the wide classes therefore stay below 2000 nm.  The high_precision class
(1e-5 nm) keeps |x| < 10 nm for the same reason (float32 error < 2e-6 nm there).
"""

import numpy as np

from .. import units
from .base import Approx, Exact, Expect

FORMAT = "gromacs"
FILENAME = "gen.gro"
EXPLICIT_FMT = False
SOURCES = [
    "GROMACS reference manual, File formats, section 'gro' (http://manual.gromacs.org/current/reference-manual/file-formats.html#gro): "
    "line layout, C format \"%5d%-5s%5s%5d%8.3f%8.3f%8.3f%8.4f%8.4f%8.4f\", variable precision rule, box vector order "
    "v1(x) v2(y) v3(z) v1(y) v1(z) v2(x) v2(z) v3(x) v3(y), 't=' time in the title, trajectories by concatenation",
    "GROMACS writes residue and atom numbers modulo 100000 (groio.cpp: (resnr) % 100000, (atomnr + 1) % 100000)",
]
CLASSES = ["small", "no_velocities", "negative_two_digits", "hundreds", "thousands", "touching_atom_number", "resnr_wrap",
           "box9", "time_comma", "time_plain", "time_step", "high_precision", "trajectory"]

RESN = ["WATER", "SOL", "ALA", "LYS", "NA+", "CL-", "POPC", "DMPC", "T3P"]
ATN = ["OW1", "HW2", "HW3", "CA", "N", "HD11", "O", "NA", "CL", "C12", "OXT", "1HH2"]


def _frame(rng, natom, *, lo=0.0, hi=9.0, vel=True, box9=False, title="generated system", time=None, time_style=None,
           resnr0=1, atomnr0=1, ndec=3, per_res=3):
    pos = np.round(rng.uniform(lo, hi, size=(natom, 3)), ndec) + np.arange(natom)[:, None] * 10.0 ** (-ndec)
    v = np.round(rng.uniform(-3.0, 3.0, size=(natom, 3)), ndec + 1) + np.arange(natom)[:, None] * 10.0 ** (-ndec - 1)
    box = np.zeros((3, 3))
    box[np.diag_indices(3)] = np.round(rng.uniform(2.0, 12.0, size=3), 5)
    if box9:
        # GROMACS requires v1(y) = v1(z) = v2(z) = 0: rows v1, v2, v3 form a lower triangular matrix
        box[1, 0], box[2, 0], box[2, 1] = np.round(rng.uniform(-1.5, 1.5, size=3), 5)
        box[box == 0.0] = 0.0
    return {
        "pos": np.round(pos, ndec), "vel": np.round(v, ndec + 1) if vel else None, "box": box, "box9": box9,
        "resnr": [(resnr0 + i // per_res) for i in range(natom)],
        "resname": [RESN[(i // per_res) % len(RESN)] for i in range(natom)],
        "atname": [ATN[int(rng.integers(len(ATN)))] for i in range(natom)],
        "atomnr": [atomnr0 + i for i in range(natom)],
        "title": title, "time": time, "time_style": time_style, "ndec": ndec,
    }


def generate(rng, klass):
    n = int(rng.integers(2, 13))
    if klass == "small":
        fr = [_frame(rng, n)]
    elif klass == "no_velocities":
        fr = [_frame(rng, n, vel=False, title="positions only")]
    elif klass == "negative_two_digits":
        fr = [_frame(rng, n, lo=-99.0, hi=-10.0, title="x <= -10 nm")]
    elif klass == "hundreds":
        fr = [_frame(rng, n, lo=100.0, hi=999.0, title="x >= 100 nm")]
    elif klass == "thousands":
        fr = [_frame(rng, n, lo=1000.0, hi=1999.0, title="x >= 1000 nm, position fields touch")]
        fr[0]["pos"][0] = [1234.567, -123.456, -999.999]
    elif klass == "touching_atom_number":
        fr = [_frame(rng, n, lo=1000.0, hi=1999.0, atomnr0=int(rng.choice([10000, 54321, 99980])), title="five-digit atom numbers touch a filled x field")]
    elif klass == "resnr_wrap":
        n = int(rng.integers(8, 20))
        fr = [_frame(rng, n, resnr0=99998, atomnr0=99995, per_res=2, title="residue and atom numbers wrap at 100000")]
    elif klass == "box9":
        fr = [_frame(rng, n, box9=True, title="triclinic box")]
    elif klass == "time_comma":
        fr = [_frame(rng, n, title="MD of 2 waters", time=round(float(rng.uniform(0, 500)), 1), time_style="comma")]
    elif klass == "time_plain":
        fr = [_frame(rng, n, title="Protein in water", time=round(float(rng.uniform(0, 500)), 5), time_style="plain")]
    elif klass == "time_step":
        fr = [_frame(rng, n, title="Protein in water", time=round(float(rng.uniform(0, 500)), 5), time_style="step")]
    elif klass == "high_precision":
        fr = [_frame(rng, n, ndec=5, title="five decimal places")]
    elif klass == "trajectory":
        style = str(rng.choice(["comma", "plain"]))
        fr = [_frame(rng, n, title="trajectory frame", time=round(0.5 * k, 5), time_style=style)
              for k in range(int(rng.integers(2, 6)))]
    else:
        raise ValueError(klass)
    f0 = fr[0]
    return {"frames": fr, "features": [klass, f"nframe={len(fr)}", f"vel={f0['vel'] is not None}", f"box9={f0['box9']}", f"time={f0['time_style']}"]}


def _title_line(fr):
    if fr["time"] is None:
        return fr["title"]
    if fr["time_style"] == "comma":  # the example of the manual: "MD of 2 waters, t= 0.0"
        return f"{fr['title']}, t= {fr['time']:.1f}"
    if fr["time_style"] == "plain":
        return f"{fr['title']} t= {fr['time']:9.5f}"
    return f"{fr['title']} t= {fr['time']:9.5f} step= {int(round(fr['time'] * 500))}"


def write(model):
    out = []
    for fr in model["frames"]:
        n = fr["ndec"]
        out.append(_title_line(fr))
        out.append(f"{len(fr['pos']):5d}")
        for i in range(len(fr["pos"])):
            line = f"{fr['resnr'][i] % 100000:5d}{fr['resname'][i]:<5s}{fr['atname'][i]:>5s}{fr['atomnr'][i] % 100000:5d}"
            line += "".join(f"{x:{n + 5}.{n}f}" for x in fr["pos"][i])
            if fr["vel"] is not None:
                line += "".join(f"{x:{n + 5}.{n + 1}f}" for x in fr["vel"][i])
            out.append(line)
        b = fr["box"]
        vals = [b[0, 0], b[1, 1], b[2, 2]]
        if fr["box9"]:
            vals += [b[0, 1], b[0, 2], b[1, 0], b[1, 2], b[2, 0], b[2, 1]]
        out.append("".join(f"{x:10.5f}" for x in vals))
    return "\n".join(out) + "\n"


def _expect(fr):
    n = fr["ndec"]
    e = Expect({
        ("atcoords",): Approx(fr["pos"] * units.nanometer, atol=0.5 * 10.0 ** (-n) * units.nanometer, rtol=units.RTOL),
        ("atffparams", "attypes"): Exact(np.array(fr["atname"])),
        ("atffparams", "resnames"): Exact(np.array(fr["resname"])),
        ("atffparams", "resnums"): Exact(np.array([r % 100000 for r in fr["resnr"]], dtype=int)),
        ("cellvecs",): Approx(fr["box"] * units.nanometer, atol=0.5e-5 * units.nanometer, rtol=units.RTOL),
    })
    if fr["vel"] is not None:
        e[("extra", "velocities")] = Approx(fr["vel"] * units.nanometer / units.picosecond,
                                            atol=0.5 * 10.0 ** (-n - 1) * units.nanometer / units.picosecond, rtol=units.RTOL)
    if fr["time"] is None:
        e[("title",)] = Exact(fr["title"])
    else:
        ndig = 1 if fr["time_style"] == "comma" else 5
        e[("extra", "time")] = Approx(fr["time"] * units.picosecond, atol=0.5 * 10.0 ** (-ndig) * units.picosecond, rtol=units.RTOL)
    return e


def expected(model):
    return _expect(model["frames"][0])


def frames(model):
    return [_expect(fr) for fr in model["frames"]]
