"""Template perturbation for program logs that have no published layout (qchemlog, cp2klog).

A real program output from the corpus is taken as template; selected numeric fields are rewritten IN PLACE with a new number of
exactly the same width and number of decimals (so that every column position of the real print-out is preserved), and the
expectation for exactly those values is recorded as  new_number * unit  where the unit is the one the PROGRAM's own header states.

Not a writer module itself (name starts with '_', skipped by the registry).
"""

import re

import numpy as np

from .base import Approx, Expect

FLOAT = re.compile(r"[-+]?\d+\.\d*(?:[EeDd][-+]?\d+)?")
INT = re.compile(r"(?<![\w.])[-+]?\d+(?![\w.])")


class Editor:
    def __init__(self, path, rng):
        with open(path) as fh:
            self.lines = fh.read().split("\n")
        self.rng = rng
        self.expect = []          # (path, value_au, atol_au)
        self.nedit = 0

    # ---- locating ---------------------------------------------------------------------------------------------------
    def find(self, text, start=0, last=False):
        """Index of the first (or last) line at/after `start` whose stripped text starts with `text`."""
        hits = [i for i in range(start, len(self.lines)) if self.lines[i].strip().startswith(text)]
        if not hits:
            raise ValueError(f"template has no line starting with {text!r} after {start}")
        return hits[-1] if last else hits[0]

    def find_all(self, text):
        return [i for i, ln in enumerate(self.lines) if ln.strip().startswith(text)]

    def floats(self, i):
        return list(FLOAT.finditer(self.lines[i]))

    # ---- rewriting --------------------------------------------------------------------------------------------------
    def _new_token(self, tok, keep_decimals=0, flip=False, before=""):
        """A new number with the same characters layout: fractional digits randomised (all but the first `keep_decimals`)."""
        m = re.fullmatch(r"([-+]?)(\d+)\.(\d*)((?:[EeDd][-+]?\d+)?)", tok)
        sign, ip, fp, ex = m.groups()
        new_fp = fp[:keep_decimals] + "".join(str(int(d)) for d in self.rng.integers(0, 10, size=max(len(fp) - keep_decimals, 0)))
        new = f"{ip}.{new_fp}{ex}"
        width = len(tok)
        if flip and self.rng.integers(2):
            if sign == "-":
                sign = ""
            elif sign == "" and before.endswith("  "):
                sign, width = "-", width + 1
        new = sign + new
        return new.rjust(width), width

    def set(self, i, k, path, unit=1.0, keep_decimals=0, flip=False):
        """Rewrite the k-th float on line i; record the expectation path -> new*unit.  Returns the new number (file units)."""
        mt = self.floats(i)[k]
        line = self.lines[i]
        new, width = self._new_token(mt.group(), keep_decimals, flip, line[:mt.start()])
        start = mt.end() - width
        self.lines[i] = line[:start] + new + line[mt.end():]
        value = float(new.strip().replace("D", "E").replace("d", "e"))
        self.nedit += 1
        if path is not None:
            self.expect.append((path, value * unit, self._half_ulp(new) * unit))
        return value

    @staticmethod
    def _half_ulp(tok):
        m = re.fullmatch(r"\s*[-+]?\d+\.(\d*)((?:[EeDd]([-+]?\d+))?)", tok)
        ndec = len(m.group(1))
        ex = int(m.group(3)) if m.group(3) else 0
        return 0.5 * 10.0 ** (ex - ndec)

    def put(self, i, k, value):
        """Write `value` into the k-th float field of line i with the field's own number of decimals (consistency fields).

        The field may grow to the left into blanks (right-justified print-out). Returns False if it does not fit."""
        mt = self.floats(i)[k]
        line = self.lines[i]
        tok = mt.group()
        m = re.fullmatch(r"[-+]?\d+\.(\d*)", tok)
        if m is None:
            return False
        new = f"{value:.{len(m.group(1))}f}"
        before = line[:mt.start()]
        room = len(tok) + (len(before) - len(before.rstrip(" ")) - 1)
        if len(new) > room:
            return False
        width = max(len(tok), len(new))
        self.lines[i] = line[:mt.end() - width] + new.rjust(width) + line[mt.end():]
        return True

    def set_int(self, i, k, path, choices):
        mt = list(INT.finditer(self.lines[i]))[k]
        new = str(int(self.rng.choice(choices))).rjust(len(mt.group()))
        assert len(new) == len(mt.group())
        self.lines[i] = self.lines[i][:mt.start()] + new + self.lines[i][mt.end():]
        self.expect.append((path, float(new), 0.0))
        self.nedit += 1
        return int(new)

    def text(self):
        return "\n".join(self.lines)


def to_expect(items, rtol):
    # The harness keeps only the first few mismatches of a case: order the expectations round-robin over the attributes so that
    # one element of every attribute comes before the second element of any.
    seen = {}
    keyed = []
    for n, (path, value, atol) in enumerate(items):
        group = tuple(p for p in path if not isinstance(p, (int, np.integer)))
        seen[group] = seen.get(group, -1) + 1
        keyed.append((seen[group], n, path, value, atol))
    exp = Expect()
    for _, _, path, value, atol in sorted(keyed, key=lambda t: t[:2]):
        exp[tuple(path)] = Approx(np.float64(value), atol=atol, rtol=rtol if atol else 0.0)
    return exp
