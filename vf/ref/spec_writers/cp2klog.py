"""CP2K ATOM output files: TEMPLATE PERTURBATION (the CP2K ATOM print-out has no published layout).

generate() takes one of the real CP2K ATOM outputs of the corpus as template and rewrites numeric fields in place with numbers of the
same width (see _perturb.py).  expected() lists exactly the rewritten values with the unit the program prints next to them:

    " Energy components [Hartree]           Total Energy ::"                 -> energy, hartree
    " Orbital energies  State [Spin] L  Occupation  Energy[a.u.]  Energy[eV]"   -> mo.energies, atomic units (the eV column is kept
                                                                                   consistent using the file's own "[a.u.] -> [eV]" factor)
    basis-set exponents of the basis the calculation uses ("All Electron Basis" for an all-electron run, "Pseudopotential Basis"
    when a GTH pseudopotential with a "Core Charge" is printed)              -> obasis.shells[k].exponents[i], bohr^-2 (CP2K prints
                                                                                   basis sets in atomic units)

A state with angular momentum L stands for 2L+1 degenerate orbitals, so one rewritten orbital energy is expected at 2L+1 consecutive
positions of mo.energies (alpha states in file order first, then beta), which is the order in which the file lists the states.
Contracted basis: one shell per "<l> Functions" block, exponents in file order.  Uncontracted basis: one shell per exponent.
Orbital expansion coefficients and contraction coefficients are NOT rewritten (their normalisation convention is internal to CP2K).
"""

import glob
import os

from . import _perturb

FORMAT = "cp2klog"
FILENAME = "gen.cp2k.out"
EXPLICIT_FMT = False
DATA = "/repo/iodata/test/data"
TEMPLATES = {os.path.basename(p)[: -len(".cp2k.out")]: os.path.basename(p) for p in sorted(glob.glob(os.path.join(DATA, "*.cp2k.out")))}
def _contracted(name):
    with open(os.path.join(DATA, TEMPLATES[name])) as fh:
        return any(ln.startswith(" s Functions") for ln in fh)


# "<template>+fg": the same output with an f and a g polarisation shell (one primitive each) appended to every contracted
# basis-set block; CP2K ATOM prints one "<l> Functions" block per angular momentum, g and higher included
CLASSES = list(TEMPLATES) + [name + "+fg" for name in TEMPLATES if _contracted(name)]
SOURCES = ["templates /repo/iodata/test/data/*.cp2k.out (real CP2K ATOM outputs)",
           "CP2K manual, ATOM section (https://manual.cp2k.org/trunk/CP2K_INPUT/ATOM.html): PRINT%BASIS_SET, PRINT%ORBITALS, PRINT%POTENTIAL; "
           "all quantities of the ATOM code are printed in atomic units unless labelled otherwise"]


def _basis(ed, i0):
    """Rewrite the exponents of the basis-set block that starts at line i0 ('All Electron Basis' / 'Pseudopotential Basis')."""
    i = i0 + 2
    header = ed.lines[i]
    ishell = 0
    if "Uncontracted Gaussian Type Orbitals" in header:
        i += 1
        while "*****" not in ed.lines[i]:
            if ed.floats(i):
                ed.set(i, 0, ("obasis", "shells", ishell, "exponents", 0), 1.0, keep_decimals=3)
                ishell += 1
            i += 1
    else:
        assert "Contracted Gaussian Type Orbitals" in header, header
        i += 1
        iprim = 0
        ishell = -1
        while "*****" not in ed.lines[i]:
            if ed.lines[i][3:12] == "Functions":
                ishell += 1
                iprim = 0
            elif ed.floats(i):
                ed.set(i, 0, ("obasis", "shells", ishell, "exponents", iprim), 1.0, keep_decimals=2)
                iprim += 1
            i += 1


def _add_fg(text):
    lines = text.split("\n")
    out = []
    inblock = False
    for ln in lines:
        if ln.startswith(" s Functions"):
            inblock = True
        if inblock and ln.startswith(" ****"):
            out += [" f Functions", "       0.800000       1.000000", " g Functions", "       1.000000       1.000000"]
            inblock = False
        out.append(ln)
    return "\n".join(out)


def generate(rng, klass):
    if klass.endswith("+fg"):
        m = generate(rng, klass[:-3])
        m["klass"] = klass
        m["text"] = _add_fg(m["text"])
        m["features"] = [klass] + m["features"][1:] + ["g-shell"]
        return m
    ed = _perturb.Editor(os.path.join(DATA, TEMPLATES[klass]), rng)
    pseudo = any(ln.startswith("          Core Charge") for ln in ed.lines)
    _basis(ed, ed.find("Pseudopotential Basis" if pseudo else "All Electron Basis"))
    ed.set(ed.find("Energy components [Hartree]           Total Energy ::"), 0, ("energy",), 1.0)
    ev = float(ed.floats(ed.find("[a.u.] -> [eV]"))[0].group())
    i = ed.find("Orbital energies  State")
    unrestricted = "Spin" in ed.lines[i]
    i += 1
    rows = []                                                # (spin, l, energy)
    while not ed.lines[i].strip().startswith("Atomic orbital expansion coefficients"):
        words = ed.lines[i].split()
        if words:
            spin = words[1] if unrestricted else "alpha"
            ell = int(words[2 if unrestricted else 1])
            e = ed.set(i, 1, None, 1.0)
            assert ed.put(i, 2, e * ev)
            rows.append((spin, ell, e))
        i += 1
    iorb = 0
    for spin in ("alpha", "beta"):
        for s, ell, e in rows:
            if s != spin:
                continue
            for _ in range(2 * ell + 1):
                ed.expect.append((("mo", "energies", iorb), e, 0.5e-6))
                iorb += 1
    return {"klass": klass, "text": ed.text(), "expect": ed.expect,
            "features": [klass, f"template={TEMPLATES[klass]}", f"nedit={ed.nedit}", "pseudo" if pseudo else "all-electron",
                         "unrestricted" if unrestricted else "restricted"]}


def write(m):
    return m["text"]


def expected(m):
    return _perturb.to_expect(m["expect"], 0.0)
