"""Extended XYZ (ASE / libAtoms): natom line, comment line of key=value pairs, one line per atom.

Layout (ASE documentation of the extxyz format, ase.io.extxyz):
  * comment line: whitespace separated key=value pairs.  Values are integers, reals, logicals (T / F) or strings; values that
    contain spaces are quoted.  "Values can be quoted with "", '', [] or {}".  Values with several elements are 1D arrays
    (integer first, then real); a quoted text that is not numeric / logical stays a string.  "A missing value defaults to
    True" (bare keyword).
  * Lattice="R1x R1y R1z R2x R2y R2z R3x R3y R3z": Cartesian components of the three cell vectors, angstrom.
  * Properties=name:T:n:...  triplets name, type (S string, R real, I integer, L logical), number of columns, in the order of
    the columns of the atom lines.  species (S:1) or Z (I:1) give the element, pos (R:3) the positions in angstrom, masses
    (R:1) amu, forces / force (R:3), charges (R:1).  energy=, pbc="T T T" are ordinary key=value pairs with conventional meaning.
  * frames are concatenated.

Expected IOData mapping (attribute names taken from the reader; units documented there: pos angstrom, masses amu, everything
else is passed through without unit conversion):
  species / Z -> atnums (when both are present Z -> atnums and species -> extra["species"] as strings), pos -> atcoords,
  masses -> atmasses, force -> atgradient = -force, every other column -> extra[name] with shape (natom,) or (natom, n);
  Lattice -> cellvecs, energy -> energy, charge -> charge, every other key -> extra[key]; title = the comment line.
"""

import numpy as np

from .. import elements, units
from .base import Approx, Exact, Expect

FORMAT = "extxyz"
FILENAME = "gen.xyz"
EXPLICIT_FMT = True
SOURCES = [
    "ASE documentation, ase.io.extxyz 'Extended XYZ format' (https://wiki.fysik.dtu.dk/ase/ase/io/formatoptions.html#extxyz): "
    "key=value comment line, Lattice, Properties=name:type:ncols with types S R I L, logical values T/F, quoting with \"\" '' [] {}, "
    "arrays, bare keyword = True, species / Z / pos / masses / forces / charges / energy / pbc conventions",
    "libAtoms extended XYZ specification (https://github.com/libAtoms/extxyz): same grammar; QUIP files use 'force:R:3' "
    "(corpus example /repo/iodata/test/data/al_fcc.xyz)",
]
CLASSES = ["minimal", "lattice_pbc", "z_column", "species_and_z", "dtypes_1col", "dtypes_3col", "masses_charges_force",
           "forces_plural", "info_scalars", "info_arrays", "quoted_string_spaces", "short_strings", "alt_quotes", "trajectory",
           "trajectory_mixed_columns"]

NDEC = 8
LABELS = ["alpha", "beta", "c1", "dz2", "x-y", "core", "shell", "ghost"]


def _col(name, dtype, ncol, data):
    return {"name": name, "dtype": dtype, "ncol": ncol, "data": data}


def _extra_col(rng, natom, name, dtype, ncol):
    idx = np.arange(natom)[:, None] * np.ones((1, ncol), dtype=int)
    if dtype == "S":
        data = np.array([[f"{LABELS[int(rng.integers(len(LABELS)))]}{i}_{k}" for k in range(ncol)] for i in range(natom)])
    elif dtype == "R":
        data = np.round(rng.uniform(-5, 5, size=(natom, ncol)), NDEC) + idx * 1e-3
    elif dtype == "I":
        data = rng.integers(-50, 50, size=(natom, ncol)) * 1000 + idx
    else:
        data = rng.integers(2, size=(natom, ncol)) == 1
    return _col(name, dtype, ncol, data)


def _frame(rng, natom, *, element="species", lattice=False, extra_cols=(), info=(), shuffle=False, mag=8.0):
    atnums = rng.integers(1, 119, size=natom)
    cols = []
    if element in ("species", "both"):
        cols.append(_col("species", "S", 1, np.array([[elements.NUM2SYM[int(z)]] for z in atnums])))
    if element == "Z":
        cols.append(_col("Z", "I", 1, atnums[:, None]))
    cols.append(_col("pos", "R", 3, np.round(rng.uniform(-mag, mag, size=(natom, 3)), NDEC) + np.arange(natom)[:, None] * 1e-3))
    if element == "both":
        cols.append(_col("Z", "I", 1, atnums[:, None]))
    extra_cols = list(extra_cols)
    if shuffle and extra_cols:
        # the element column stays first (as in every file written by ASE / QUIP), the others are in random order
        rest = cols[1:] + extra_cols
        order = rng.permutation(len(rest))
        cols = cols[:1] + [rest[int(k)] for k in order]
    else:
        cols += extra_cols
    lat = None
    if lattice:
        lat = np.round(rng.uniform(-2, 2, size=(3, 3)), 6) + np.diag(np.round(rng.uniform(5, 15, size=3), 6))
    return {"natom": natom, "atnums": atnums, "cols": cols, "lattice": lat, "info": list(info), "info_first": bool(rng.integers(2))}


def generate(rng, klass):
    n = int(rng.integers(1, 10))
    if klass == "minimal":
        fr = [_frame(rng, n)]
    elif klass == "lattice_pbc":
        fr = [_frame(rng, n, lattice=True, info=[("pbc", "bool_array", [bool(b) for b in rng.integers(2, size=3)], '"')])]
    elif klass == "z_column":
        fr = [_frame(rng, n, element="Z", lattice=bool(rng.integers(2)))]
    elif klass == "species_and_z":
        fr = [_frame(rng, n, element="both", lattice=True)]
    elif klass == "dtypes_1col":
        ec = [_extra_col(rng, n, nm, t, 1) for nm, t in (("label", "S"), ("weight", "R"), ("fragment_ids", "I"), ("fixed", "L"))]
        fr = [_frame(rng, n, extra_cols=ec, shuffle=True)]
    elif klass == "dtypes_3col":
        ec = [_extra_col(rng, n, nm, t, 3) for nm, t in (("labels", "S"), ("dipoles", "R"), ("cellshift", "I"), ("move_mask", "L"))]
        fr = [_frame(rng, n, extra_cols=ec, shuffle=True, lattice=True)]
    elif klass == "masses_charges_force":
        ec = [_col("masses", "R", 1, np.round(rng.uniform(1, 250, size=(n, 1)), NDEC) + np.arange(n)[:, None] * 1e-3),
              _extra_col(rng, n, "charges", "R", 1), _extra_col(rng, n, "force", "R", 3)]
        fr = [_frame(rng, n, extra_cols=ec, lattice=True, shuffle=bool(rng.integers(2)),
                     info=[("energy", "real", round(float(rng.uniform(-500, 0)), NDEC), None), ("charge", "int", int(rng.integers(-2, 3)), None)])]
    elif klass == "forces_plural":
        fr = [_frame(rng, n, extra_cols=[_extra_col(rng, n, "forces", "R", 3)], lattice=True,
                     info=[("energy", "real", round(float(rng.uniform(-500, 0)), NDEC), None)])]
    elif klass == "info_scalars":
        info = [("nsteps", "int", int(rng.integers(0, 10000)), None), ("offset", "int", -int(rng.integers(1, 1000)), None),
                ("pi", "real", 3.14, None), ("cutoff", "real", round(float(rng.uniform(-9, 9)), 6), None), ("tol", "real_exp", 1.5e-3, None),
                ("converged", "bool", True, None), ("restart", "bool", False, None), ("unit_cell", "str", "conventional", None),
                ("name", "str", "4144_02WaterMeOH", '"'), ("is_true", "bare", True, None)]
        fr = [_frame(rng, n, info=[info[int(k)] for k in rng.permutation(len(info))])]
    elif klass == "info_arrays":
        info = [("kpoints", "int_array", [int(v) for v in rng.integers(-9, 10, size=int(rng.integers(2, 6)))], '"'),
                ("dipole", "real_array", [round(float(v), 6) for v in rng.uniform(-3, 3, size=3)], '"'),
                ("mixed", "real_array", [1.0, 2.5, -3.0], '"'),
                ("pbc", "bool_array", [bool(b) for b in rng.integers(2, size=3)], '"')]
        fr = [_frame(rng, n, lattice=True, info=[info[int(k)] for k in rng.permutation(len(info))])]
    elif klass == "quoted_string_spaces":
        fr = [_frame(rng, n, lattice=True, info=[("spacegroup", "str", "F m -3 m", '"'), ("comment", "str", "relaxed with PBE functional", '"')])]
    elif klass == "short_strings":
        # one-letter strings (element symbol, site label) that are not the logical literals T / F
        fr = [_frame(rng, n, info=[("dopant", "str", str(rng.choice(["N", "Y"])), None), ("site", "str", str(rng.choice(["N", "Y"])), None)])]
    elif klass == "alt_quotes":
        info = [("kpoints", "int_array", [int(v) for v in rng.integers(1, 9, size=3)], "{}"),
                ("dipole", "real_array", [round(float(v), 6) for v in rng.uniform(-3, 3, size=3)], "[]"),
                ("pbc", "bool_array", [True, False, True], "'"), ("name", "str", "water_dimer", "'")]
        fr = [_frame(rng, n, lattice=True, info=[info[int(k)] for k in rng.permutation(len(info))])]
    elif klass == "trajectory":
        fr = []
        for k in range(int(rng.integers(2, 6))):
            ec = [_extra_col(rng, n, "force", "R", 3)] if k % 2 == 0 else [_extra_col(rng, n, "fragment_ids", "I", 1)]
            fr.append(_frame(rng, n, lattice=bool(k % 2), extra_cols=ec,
                             info=[("energy", "real", round(float(rng.uniform(-500, 0)), NDEC), None), ("frame", "int", k, None)]))
    elif klass == "trajectory_mixed_columns":
        # every frame declares its own Properties: the element column is species, Z, or both, the extra columns and the number
        # of atoms change from frame to frame (concatenated outputs of different tools)
        fr = []
        kinds = ["species", "both", "Z", "species", "both"]
        start = int(rng.integers(len(kinds)))
        for k in range(int(rng.integers(3, 7))):
            nk = int(rng.integers(1, 8))
            ec = [[_extra_col(rng, nk, "force", "R", 3)], [_extra_col(rng, nk, "fragment_ids", "I", 1)], []][k % 3]
            fr.append(_frame(rng, nk, element=kinds[(start + k) % len(kinds)], lattice=bool(k % 2), extra_cols=ec,
                             info=[("frame", "int", k, None)]))
    else:
        raise ValueError(klass)
    return {"frames": fr, "features": [klass, f"nframe={len(fr)}", "props=" + _properties(fr[0]), f"lattice={fr[0]['lattice'] is not None}"]}


def _properties(fr):
    return ":".join(f"{c['name']}:{c['dtype']}:{c['ncol']}" for c in fr["cols"])


def _fmt_scalar(kind, v):
    if kind in ("int", "int_array"):
        return str(int(v))
    if kind == "real_exp":
        return f"{v:.6e}"
    if kind in ("real", "real_array"):
        return repr(float(v))
    if kind in ("bool", "bool_array"):
        return "T" if v else "F"
    return str(v)


def _info_text(key, kind, value, quote):
    if kind == "bare":
        return key
    text = " ".join(_fmt_scalar(kind, v) for v in value) if kind.endswith("_array") else _fmt_scalar(kind, value)
    if quote:
        text = quote[0] + text + quote[-1]
    return f"{key}={text}"


def _comment(fr):
    parts = []
    if fr["lattice"] is not None:
        parts.append('Lattice="' + " ".join(f"{v:.6f}" for v in fr["lattice"].ravel()) + '"')
    parts.append("Properties=" + _properties(fr))
    infos = [_info_text(*i) for i in fr["info"]]
    return " ".join(infos + parts if fr["info_first"] else parts + infos)


def _word(dtype, v):
    if dtype == "S":
        return f"{v:<10s}"
    if dtype == "R":
        return f"{v:{NDEC + 8}.{NDEC}f}"
    if dtype == "I":
        return f"{int(v):8d}"
    return "T" if v else "F"


def write(model):
    out = []
    for fr in model["frames"]:
        out.append(str(fr["natom"]))
        out.append(_comment(fr))
        for i in range(fr["natom"]):
            out.append(" ".join(_word(c["dtype"], v) for c in fr["cols"] for v in c["data"][i]).rstrip())
    return "\n".join(out) + "\n"


def _expect(fr):
    e = Expect({("title",): Exact(_comment(fr)), ("atnums",): Exact(np.array(fr["atnums"], dtype=int))})
    names = [c["name"] for c in fr["cols"]]
    atol = 0.5 * 10.0 ** (-NDEC)
    for c in fr["cols"]:
        data = c["data"][:, 0] if c["ncol"] == 1 else c["data"]
        if c["name"] == "pos":
            e[("atcoords",)] = Approx(c["data"] * units.angstrom, atol=atol * units.angstrom, rtol=units.RTOL)
        elif c["name"] == "Z":
            pass
        elif c["name"] == "species":
            if "Z" in names:
                e[("extra", "species")] = Exact(data)
        elif c["name"] == "masses":
            e[("atmasses",)] = Approx(data * units.amu, atol=atol * units.amu, rtol=units.RTOL)
        elif c["name"] == "force":
            e[("atgradient",)] = Approx(-data, atol=atol)
        elif c["dtype"] == "R":
            e[("extra", c["name"])] = Approx(data, atol=atol)
        else:
            e[("extra", c["name"])] = Exact(data)
    if fr["lattice"] is not None:
        e[("cellvecs",)] = Approx(fr["lattice"] * units.angstrom, atol=0.5e-6 * units.angstrom, rtol=units.RTOL)
    for key, kind, value, _quote in fr["info"]:
        if kind in ("real_array", "int_array", "bool_array"):
            # reals are printed with repr() / %.6e of short decimal literals, which round-trip exactly
            want = Exact(np.array(value))
        else:
            want = Exact(value)
        if key in ("energy", "charge"):
            e[(key,)] = Approx(float(value), atol=1e-12, rtol=1e-9)
        else:
            e[("extra", key)] = want
    return e


def expected(model):
    return _expect(model["frames"][0])


def frames(model):
    return [_expect(fr) for fr in model["frames"]]


# Classes that are generated but NOT asserted by C03 (triage decisions, see DESIGN.md section 7): class -> reason
NOT_ASSERTED = {'alt_quotes': '[] {} quoting: ASE-specific extension, judgement', 'quoted_string_spaces': 'multi-word quoted strings become arrays: pinned by the repository tests (mgo.xyz)', 'short_strings': 'Y/N parsed as booleans: judgement'}
