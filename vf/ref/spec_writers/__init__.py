"""Registry of the independent specification-following writers."""

import importlib
import os
import pkgutil


def all_writers():
    out = {}
    here = os.path.dirname(os.path.abspath(__file__))
    for info in pkgutil.iter_modules([here]):
        if info.name in ("base",) or info.name.startswith("_"):
            continue
        mod = importlib.import_module(f"{__name__}.{info.name}")
        if hasattr(mod, "FORMAT") and hasattr(mod, "write"):
            out[info.name] = mod
    return out
