"""Gaussian formatted checkpoint files (single-geometry classes; trajectory classes live in fchk_traj.py).

Layout (Gaussian "Formatted Checkpoint File" documentation, utilities chapter 'formchk'):
  line 1   title, A72
  line 2   job type, method, basis.  Documented as (A10,A30,A30); Gaussian 03/09/16 print the basis at column 71
           (A10,A60,A20 - see corpus), Q-Chem prints (A10,A30,A30).  All three are generated.
  scalar   label(A40),3X,type(A1),5X,value   value = I12 for type I, E22.15 for type R
  array    label(A40),3X,type(A1),3X,'N=',I12   then data 6I12 / 5E16.8 (Fortran 1P) / 5A12 for type C
  Records are addressed by label.  Real numbers whose decimal exponent needs three digits are printed by Fortran
  without the letter E (e.g. ' 1.23456789-100'), class fortran_3digit_exponent.

Model units are those of the file: bohr, hartree, e, amu for "Real atomic weights", everything else atomic units.

Basis semantics (Gaussian manual "Basis Sets" / "Pop=Full" function labels; Multiwfn manual section on .fch input):
  shell type 0=s 1=p -1=sp 2=6d -2=5d 3=10f -3=7f 4=15g -4=9g -5=11h ...
  function order inside a shell
     p: x y z                sp: s, x y z
     6d: xx yy zz xy xz yz   10f: xxx yyy zzz xyy xxy xxz xzz yzz yyz xyz
     15g: zzzz yzzz yyzz yyyz yyyy xzzz xyzz xyyz xyyy xxzz xxyz xxyy xxxz xxxy xxxx
     pure: m = 0 +1 -1 +2 -2 ... i.e. c0 c1 s1 c2 s2 ...
  Cartesian l >= 5 is NOT generated (order not verified from a public source); pure shells up to l = 5.
  "Contraction coefficients" refer to normalised primitives and every Cartesian component is normalised separately,
  i.e. exactly the definition of docs/basis.rst: no conversion is applied for base.WFN.
  MO coefficient arrays: orbital after orbital.  Triangular matrices: lower triangle row by row.
"""

import numpy as np

from .. import units
from .base import WFN, Absent, Approx, Exact, Expect

FORMAT = "fchk"
FILENAME = "gen.fchk"
EXPLICIT_FMT = False
SOURCES = [
    "Gaussian 16 Users Reference, Utilities > formchk, section 'Formatted Checkpoint File' (title A72; type/method/basis "
    "A10,A30,A30; scalar records A40,3X,A1,5X,I12|E22.15; array records A40,3X,A1,3X,'N=',I12 + 6I12 / 5E16.8 / 5A12)",
    "Gaussian 16 Users Reference, 'Basis Sets' and 'Pop' keywords (5D/6D, 7F/10F; order of Cartesian d and f functions and of pure "
    "functions 0,+1,-1,+2,-2 as printed by Pop=Full / GFPrint)",
    "Multiwfn manual (sec. 2.5 / fch reader notes): Cartesian g order in .fch is ZZZZ YZZZ YYZZ YYYZ YYYY XZZZ XYZZ XYYZ XYYY XXZZ XXYZ XXYY XXXZ XXXY XXXX",
    "Fortran 2018 standard 13.7.2.3.3 (E editing: exponents with |e| > 99 are written as +-ddd without the exponent letter)",
    "corpus /repo/iodata/test/data/*.fchk as examples of Gaussian 03/09/16 and Q-Chem 5.2 output (labels, record order)",
]
CLASSES = [
    "rhf_small", "remainders", "uhf", "rohf", "rohf_scf_density", "fewer_orbitals", "sp_shells", "cart_df", "pure_df",
    "high_l", "no_optional", "densities_mp2", "densities_mp3", "densities_cc", "densities_ci", "all_charges",
    "properties", "wide_negative", "fortran_3digit_exponent", "header_doc_layout", "header_free_spacing", "run_types",
    "ghost_ecp", "frozen_atoms", "g03_spelling", "char_records", "shuffled",
]

CONVENTIONS = {
    (0, "c"): ["1"],
    (1, "c"): ["x", "y", "z"],
    (2, "c"): ["xx", "yy", "zz", "xy", "xz", "yz"],
    (3, "c"): ["xxx", "yyy", "zzz", "xyy", "xxy", "xxz", "xzz", "yzz", "yyz", "xyz"],
    (4, "c"): ["zzzz", "yzzz", "yyzz", "yyyz", "yyyy", "xzzz", "xyzz", "xyyz", "xyyy", "xxzz", "xxyz", "xxyy", "xxxz", "xxxy", "xxxx"],
}
for _l in range(2, 6):
    CONVENTIONS[(_l, "p")] = ["c0"] + [f"{cs}{m}" for m in range(1, _l + 1) for cs in "cs"]

RUN_TYPES = {"SP": "energy", "FOpt": "opt", "Freq": "freq", "Scan": "scan"}
# job types of the FChk documentation that also have a documented IOData.run_type value
RUN_TYPES_MORE = {"Force": "energy_force", "POpt": "opt", "FTS": "opt", "PTS": "opt", "Stability": None, "Polar": None, "Volume": None}

CHARGE_LABELS = {
    "Mulliken Charges": "mulliken", "ESP Charges": "esp", "NPA Charges": "npa", "MBS Charges": "mbs",
    "Type 6 Charges": "hirshfeld", "Type 7 Charges": "cm5",
}
DENSITY_LABELS = {"Total SCF Density": "scf", "Spin SCF Density": "scf_spin"}
for _lot in ("MP2", "MP3", "CC", "CI"):
    DENSITY_LABELS[f"Total {_lot} Density"] = "post_scf_ao"
    DENSITY_LABELS[f"Spin {_lot} Density"] = "post_scf_spin_ao"


# ------------------------------------------------------------------------------------------------
# numbers as they appear in the file


def r8(x):
    """Round to what 1PE16.8 prints."""
    return np.vectorize(lambda v: float(f"{v:.8E}"), otypes=[float])(np.asarray(x, dtype=float))


def r15(x):
    return float(f"{float(x):.15E}")


def e16(v):
    s = f"{v:.8E}"
    mant, exp = s.split("E")
    if abs(int(exp)) > 99:
        s = f"{mant}{int(exp):+04d}"  # Fortran drops the exponent letter
    return f"{s:>16s}"


def nfunc(t):
    if t in (0, 1, -1):
        return {0: 1, 1: 3, -1: 4}[t]
    return (t + 1) * (t + 2) // 2 if t > 0 else 2 * abs(t) + 1


# ------------------------------------------------------------------------------------------------
# model generation


def _unique(rng, n, lo, hi, step=1e-3):
    """n index-revealing reals: random base + step * index."""
    return r8(rng.uniform(lo, hi, size=n) + step * np.arange(n))


def _shell(rng, atom, t, nprim=None):
    nprim = int(nprim or rng.integers(1, 5))
    sh = {"type": int(t), "atom": int(atom), "exps": r8(np.sort(rng.uniform(0.08, 30.0, size=nprim))[::-1] * rng.uniform(0.5, 2.0)),
          "coeffs": r8(rng.uniform(0.1, 1.0, size=nprim) * rng.choice([1, 1, 1, -1], size=nprim))}
    if t == -1:
        sh["pcoeffs"] = r8(rng.uniform(0.1, 1.0, size=nprim) * rng.choice([1, 1, -1], size=nprim))
    return sh


def _basis(rng, natom, types, nshell=None, every_atom=True):
    """Shells: every atom gets at least one shell when every_atom; types drawn from `types`."""
    shells = []
    if nshell is None:
        nshell = natom + int(rng.integers(0, 2 * natom + 2))
    atoms = list(range(natom)) if every_atom and nshell >= natom else []
    while len(atoms) < nshell:
        atoms.append(int(rng.integers(0, natom)))
    atoms = sorted(atoms[:nshell])  # Gaussian lists shells atom after atom
    for k, a in enumerate(atoms):
        t = types[k] if k < len(types) and rng.random() < 0.8 else rng.choice(types)
        shells.append(_shell(rng, a, t))
    return shells


def _split_z(rng, ztot, natom):
    """Random composition of ztot into natom parts >= 1 (each <= 118)."""
    z = np.ones(natom, dtype=int)
    for _ in range(ztot - natom):
        cand = np.flatnonzero(z < 118)
        z[rng.choice(cand)] += 1
    return z


def _model(rng, *, natom, shells, spin="restricted", nindep=None, sections=(), densities=(), charges=(), header="g09",
           jobtype=None, coord_mag=6.0, title=None, method=None, basis=None):
    nbasis = sum(nfunc(sh["type"]) for sh in shells)
    norb = nbasis if nindep is None else nindep
    if spin == "restricted":
        nalpha = nbeta = int(rng.integers(1, min(norb, 14) + 1))
    elif spin == "unrestricted":
        nalpha = int(rng.integers(1, min(norb, 14) + 1))
        nbeta = int(rng.integers(0, nalpha + 1))
    else:  # restricted open shell: nalpha > nbeta
        nalpha = int(rng.integers(1, min(norb, 14) + 1))
        nbeta = int(rng.integers(0, nalpha))
    nelec = nalpha + nbeta
    charge = int(rng.integers(-2, 3))
    if nelec + charge < natom:
        charge = natom - nelec
    atnums = _split_z(rng, nelec + charge, natom)
    jobtype = jobtype or str(rng.choice(list(RUN_TYPES)))
    prefix = {"restricted": "R", "unrestricted": "U", "rohf": "RO"}[spin]
    m = {
        "title": title if title is not None else f"generated {spin} id={int(rng.integers(1000, 9999))}",
        "jobtype": jobtype,
        "method": method or prefix + str(rng.choice(["HF", "B3LYP", "PBE1PBE", "M062X"])),
        "basis": basis or str(rng.choice(["STO-3G", "6-31G(d)", "6-31+G(d,p)", "CC-pVTZ", "Gen", "Aug-CC-pVDZ"])),
        "header": header,
        "natom": natom, "atnums": atnums, "nuccharges": atnums.astype(float),
        "coords": r8(rng.uniform(-coord_mag, coord_mag, size=(natom, 3)) + 1e-3 * np.arange(natom)[:, None]),
        "charge": charge, "mult": nalpha - nbeta + 1, "nelec": nelec, "nalpha": nalpha, "nbeta": nbeta,
        "shells": shells, "nbasis": nbasis, "nindep": norb, "indep_label": "Number of independent functions",
        "spin": spin,
        "energy": r15(-rng.uniform(1.0, 2000.0)) if "energy" in sections else None,
        "alpha_e": r8(np.sort(rng.uniform(-20.0, 3.0, size=norb)) + 1e-4 * np.arange(norb)),
        "alpha_c": r8(rng.normal(size=(norb, nbasis))),
        "beta_e": None, "beta_c": None,
        "densities": {}, "charges": {}, "gradient": None, "hessian": None, "masses": None, "dipole": None,
        "quadrupole": None, "polarizability": None, "micopt": None,
        "char_records": False, "shuffle": None, "realistic_extras": True, "trajectory": None,
        "features": [],
    }
    if spin == "unrestricted":
        m["beta_e"] = r8(np.sort(rng.uniform(-20.0, 3.0, size=norb)) + 1e-4 * np.arange(norb) + 0.5e-4)
        m["beta_c"] = r8(rng.normal(size=(norb, nbasis)))
    for label in densities:
        tri = r8(rng.normal(size=nbasis * (nbasis + 1) // 2) + 1e-3 * np.arange(nbasis * (nbasis + 1) // 2))
        m["densities"][label] = tri
    for label in charges:
        m["charges"][label] = _unique(rng, natom, -1.0, 1.0)
    if "gradient" in sections:
        m["gradient"] = _unique(rng, 3 * natom, -0.1, 0.1, 1e-5).reshape(natom, 3)
    if "hessian" in sections:
        n = 3 * natom
        m["hessian"] = _unique(rng, n * (n + 1) // 2, -1.0, 1.0, 1e-4)
    if "masses" in sections:
        m["masses"] = r8(2.0 * atnums + rng.uniform(-0.3, 0.6, size=natom) + 1e-3 * np.arange(natom))
    if "dipole" in sections:
        m["dipole"] = _unique(rng, 3, -2.0, 2.0)
    if "quadrupole" in sections:
        m["quadrupole"] = _unique(rng, 6, -9.0, 9.0)
    if "polarizability" in sections:
        m["polarizability"] = _unique(rng, 6, 1.0, 30.0)
    if "micopt" in sections:
        m["micopt"] = rng.choice([-1, -1, -2], size=natom)
    return m


ALL_SECTIONS = ("energy", "gradient", "masses", "dipole", "quadrupole")


def generate(rng, klass):
    g = dict(natom=int(rng.integers(1, 5)), sections=ALL_SECTIONS, densities=("Total SCF Density",), charges=("Mulliken Charges",))
    sp_types = [0, 0, 1, 0, 1]
    feats = [klass]
    if klass == "rhf_small":
        m = _model(rng, shells=_basis(rng, g["natom"], sp_types), **g)
    elif klass == "remainders":
        natom = int(rng.integers(1, 13))
        nshell = int(rng.integers(max(natom, 2), natom + 13))
        g.update(natom=natom, sections=ALL_SECTIONS + ("hessian", "micopt"))
        m = _model(rng, shells=_basis(rng, natom, [0, 1, 0, -1, 2, -2], nshell=nshell), **g)
    elif klass == "uhf":
        g["densities"] = ("Total SCF Density", "Spin SCF Density")
        m = _model(rng, shells=_basis(rng, g["natom"], sp_types), spin="unrestricted", **g)
    elif klass in ("rohf", "rohf_scf_density"):
        g["densities"] = ("Total SCF Density", "Spin SCF Density") if klass == "rohf_scf_density" else ()
        m = _model(rng, shells=_basis(rng, g["natom"], sp_types), spin="rohf", **g)
    elif klass == "fewer_orbitals":
        shells = _basis(rng, g["natom"], [0, 1, 2, -1, 0])
        nbasis = sum(nfunc(s["type"]) for s in shells)
        spin = str(rng.choice(["restricted", "unrestricted", "rohf"]))
        if spin != "restricted":
            g["densities"] = ()
        m = _model(rng, shells=shells, spin=spin, nindep=int(rng.integers(max(1, nbasis // 2), nbasis)) if nbasis > 1 else 1, **g)
    elif klass == "sp_shells":
        m = _model(rng, shells=_basis(rng, g["natom"], [-1, 0, -1, -1, 1, 2]), **g)
    elif klass == "cart_df":
        m = _model(rng, shells=_basis(rng, g["natom"], [2, 3, 0, 1, 2, 3]), **g)
    elif klass == "pure_df":
        m = _model(rng, shells=_basis(rng, g["natom"], [-2, -3, 0, 1, -2, -3]), **g)
    elif klass == "high_l":
        # 5D/6D applies to d shells, 7F/10F to f and higher: the two choices are independent
        d = int(rng.choice([2, -2]))
        hi = [3, 4] if rng.random() < 0.5 else [-3, -4, -5]
        g["natom"] = int(rng.integers(1, 3))
        g["densities"] = ()
        m = _model(rng, shells=_basis(rng, g["natom"], [d, *hi, 0, 1, hi[-1]], nshell=int(rng.integers(3, 7))), **g)
    elif klass == "no_optional":
        g.update(sections=(), densities=(), charges=())
        m = _model(rng, shells=_basis(rng, g["natom"], sp_types), spin=str(rng.choice(["restricted", "unrestricted"])), **g)
        m["realistic_extras"] = False
    elif klass.startswith("densities_"):
        lot = klass.split("_")[1].upper()
        spin = str(rng.choice(["restricted", "unrestricted"]))
        dens = ["Total SCF Density", f"Total {lot} Density"]
        if spin == "unrestricted":
            dens = ["Total SCF Density", "Spin SCF Density", f"Total {lot} Density", f"Spin {lot} Density"]
        g["densities"] = tuple(dens)
        meth = {"MP2": "MP2", "MP3": "MP3", "CC": "CCSD", "CI": "CISD"}[lot]
        m = _model(rng, shells=_basis(rng, g["natom"], [0, 1, -1, 2]), spin=spin, method=("R" if spin == "restricted" else "U") + meth + "-FC", **g)
    elif klass == "all_charges":
        g["charges"] = tuple(CHARGE_LABELS)
        g["natom"] = int(rng.integers(1, 8))
        m = _model(rng, shells=_basis(rng, g["natom"], sp_types), **g)
    elif klass == "properties":
        g["sections"] = ALL_SECTIONS + ("hessian", "polarizability")
        m = _model(rng, shells=_basis(rng, g["natom"], sp_types), jobtype="Freq", **g)
    elif klass == "wide_negative":
        g["sections"] = ALL_SECTIONS + ("hessian",)
        m = _model(rng, shells=_basis(rng, g["natom"], [0, 1, 2]), coord_mag=900.0, **g)
        m["coords"][0] = r8([-123.456789, -9876.54321, -1.23456789e-9])
        m["alpha_c"][0, : min(3, m["nbasis"])] = r8([-9.99999999e98, -1.00000001e-99, -1.23456789e10][: min(3, m["nbasis"])])
        m["gradient"][0] = r8([-1.23456789e-10, -9.87654321e01, -5.55555555e-05])
        m["energy"] = r15(-12345.6789012345678)
        m["charges"]["Mulliken Charges"] = r8(-np.abs(m["charges"]["Mulliken Charges"]) - 1e-3)
        m["dipole"] = r8(-np.abs(m["dipole"]) - 1.0)
    elif klass == "fortran_3digit_exponent":
        m = _model(rng, shells=_basis(rng, g["natom"], sp_types), **g)
        m["alpha_c"][0, 0] = 1.23456789e-100
        m["alpha_c"][-1, -1] = -9.87654321e-101
        m["densities"]["Total SCF Density"][0] = 3.21e-105
    elif klass == "header_doc_layout":
        m = _model(rng, shells=_basis(rng, g["natom"], sp_types), header="doc", **g)
    elif klass == "header_free_spacing":
        m = _model(rng, shells=_basis(rng, g["natom"], sp_types), header=str(rng.choice(["single_space", "g09_no_trailing_blanks"])),
                   title="T" * 60 + " 72 columns.", **g)
    elif klass == "run_types":
        m = _model(rng, shells=_basis(rng, g["natom"], sp_types), jobtype=str(rng.choice(list(RUN_TYPES_MORE))), **g)
    elif klass == "ghost_ecp":
        g["natom"] = int(rng.integers(2, 6))
        m = _model(rng, shells=_basis(rng, g["natom"], sp_types), **g)
        # ghost atoms keep their atomic number with nuclear charge 0 (Gaussian 'Bq' output, corpus water_dimer_ghost.fchk);
        # ECP atoms have nuclear charge = Z - ncore (corpus monosilicic_acid_hf_lan.fchk).  Electron counts stay as generated.
        ghost = int(rng.integers(0, g["natom"]))
        m["nuccharges"][ghost] = 0.0
        ecp = (ghost + 1) % g["natom"]
        m["atnums"][ecp] += 10
        feats += [f"ghost={ghost}", f"ecp={ecp}"]
        m["charge"] = int(round(m["nuccharges"].sum())) - m["nelec"]
    elif klass == "frozen_atoms":
        g["sections"] = ALL_SECTIONS + ("micopt",)
        g["natom"] = int(rng.integers(2, 9))
        m = _model(rng, shells=_basis(rng, g["natom"], sp_types), jobtype="FOpt", **g)
        m["micopt"][int(rng.integers(0, g["natom"]))] = -2
    elif klass == "g03_spelling":
        m = _model(rng, shells=_basis(rng, g["natom"], sp_types), **g)
        m["indep_label"] = "Number of independant functions"
    elif klass == "char_records":
        m = _model(rng, shells=_basis(rng, g["natom"], sp_types), **g)
        m["char_records"] = True
    elif klass == "shuffled":
        g["sections"] = ALL_SECTIONS + ("hessian", "polarizability", "micopt")
        g["charges"] = ("Mulliken Charges", "ESP Charges")
        m = _model(rng, shells=_basis(rng, g["natom"], [0, 1, -1, 2, -2]), spin=str(rng.choice(["restricted", "unrestricted"])), **g)
        m["shuffle"] = int(rng.integers(1, 2**31))
    else:
        raise ValueError(klass)
    nshell = len(m["shells"])
    nprim = sum(len(s["exps"]) for s in m["shells"])
    m["features"] = feats + [
        m["spin"], f"natom%6={m['natom'] % 6}", f"3natom%5={3 * m['natom'] % 5}", f"nshell%6={nshell % 6}", f"nprim%5={nprim % 5}",
        f"norb%5={m['nindep'] % 5}", f"ncoef%5={m['nindep'] * m['nbasis'] % 5}", "virtuals_dropped" if m["nindep"] < m["nbasis"] else "full_rank",
        "types=" + "".join(sorted({str(s["type"]) for s in m["shells"]})), m["jobtype"],
    ]
    return m


# ------------------------------------------------------------------------------------------------
# writer


def _rec_scalar(label, typ, value):
    if typ == "I":
        return [f"{label[:40]:<40s}   I     {int(value):12d}"]
    return [f"{label[:40]:<40s}   R     {float(value):22.15E}"]


def _rec_array(label, typ, values):
    values = np.asarray(values).ravel()
    out = [f"{label[:40]:<40s}   {typ}   N={len(values):12d}"]
    if typ == "I":
        for k in range(0, len(values), 6):
            out.append("".join(f"{int(v):12d}" for v in values[k : k + 6]))
    else:
        for k in range(0, len(values), 5):
            out.append("".join(e16(float(v)) for v in values[k : k + 5]))
    return out


def _rec_char(label, text):
    n = max(1, -(-len(text) // 12))
    text = f"{text:<{12 * n}s}"
    out = [f"{label[:40]:<40s}   C   N={n:12d}"]
    for k in range(0, n, 5):
        out.append(text[12 * k : 12 * (k + 5)])
    return out


def header_lines(m):
    t, me, b = m["jobtype"], m["method"], m["basis"]
    if m["header"] == "g09":
        line2 = f"{t:<10s}{me:<60s}{b:<20s}"
    elif m["header"] == "doc":
        line2 = f"{t:<10s}{me:<30s}{b:<30s}"
    elif m["header"] == "single_space":
        line2 = f"{t} {me} {b}"
    else:
        line2 = f"{t:<10s}{me:<30s}{'':30s}{b}"
    return [f"{m['title']:<72s}"[:72], line2]


def records(m):
    """(head, body): lists of records (each a list of lines).  head = the counts that dimension everything else."""
    natom, shells = m["natom"], m["shells"]
    ex = m["realistic_extras"]
    head = [_rec_scalar("Number of atoms", "I", natom)]
    if ex:
        head.append(_rec_array("Info1-9", "I", [11, 11, 0, 0, 0, 110, 2, 1, 2]))
    if m["char_records"]:
        head.append(_rec_char("Full Title", m["title"].strip()))
        head.append(_rec_char("Route", f"#P {m['method']}/{m['basis']} {m['jobtype']} pop=full density=current"))
    head += [
        _rec_scalar("Charge", "I", m["charge"]),
        _rec_scalar("Multiplicity", "I", m["mult"]),
        _rec_scalar("Number of electrons", "I", m["nelec"]),
        _rec_scalar("Number of alpha electrons", "I", m["nalpha"]),
        _rec_scalar("Number of beta electrons", "I", m["nbeta"]),
        _rec_scalar("Number of basis functions", "I", m["nbasis"]),
        _rec_scalar(m["indep_label"], "I", m["nindep"]),
    ]
    body = []
    if ex:
        body.append(_rec_scalar("Number of point charges in /Mol/", "I", 0))
        body.append(_rec_scalar("Number of translation vectors", "I", 0))
    body.append(_rec_array("Atomic numbers", "I", m["atnums"]))
    body.append(_rec_array("Nuclear charges", "R", m["nuccharges"]))
    body.append(_rec_array("Current cartesian coordinates", "R", m["coords"]))
    if ex:
        body.append(_rec_scalar("Force Field", "I", 0))
        if m["char_records"]:
            body.append(_rec_char("Atom Types", " " * (12 * natom)))
        body.append(_rec_array("Int Atom Types", "I", np.zeros(natom, dtype=int)))
        body.append(_rec_array("MM charges", "R", np.zeros(natom)))
    if m["masses"] is not None:
        body.append(_rec_array("Integer atomic weights", "I", np.round(m["masses"]).astype(int)))
        body.append(_rec_array("Real atomic weights", "R", m["masses"]))
    if m["micopt"] is not None:
        body.append(_rec_array("MicOpt", "I", m["micopt"]))
    types = [s["type"] for s in shells]
    nprims = [len(s["exps"]) for s in shells]
    if ex:
        body += [
            _rec_scalar("Number of contracted shells", "I", len(shells)),
            _rec_scalar("Number of primitive shells", "I", sum(nprims)),
            _rec_scalar("Pure/Cartesian d shells", "I", int(any(t == 2 for t in types))),
            _rec_scalar("Pure/Cartesian f shells", "I", int(any(t >= 3 for t in types))),
            _rec_scalar("Highest angular momentum", "I", max(abs(t) for t in types)),
            _rec_scalar("Largest degree of contraction", "I", max(nprims)),
        ]
    body.append(_rec_array("Shell types", "I", types))
    body.append(_rec_array("Number of primitives per shell", "I", nprims))
    body.append(_rec_array("Shell to atom map", "I", [s["atom"] + 1 for s in shells]))
    body.append(_rec_array("Primitive exponents", "R", np.concatenate([s["exps"] for s in shells])))
    body.append(_rec_array("Contraction coefficients", "R", np.concatenate([s["coeffs"] for s in shells])))
    if any(t == -1 for t in types):
        body.append(_rec_array("P(S=P) Contraction coefficients", "R",
                               np.concatenate([s["pcoeffs"] if s["type"] == -1 else np.zeros(len(s["exps"])) for s in shells])))
    if ex:
        body.append(_rec_array("Coordinates of each shell", "R", np.concatenate([m["coords"][s["atom"]] for s in shells])))
        body.append(_rec_scalar("Virial Ratio", "R", 2.0012345678901))
    if m["energy"] is not None:
        if ex:
            body.append(_rec_scalar("SCF Energy", "R", m["energy"] + 0.25))
        body.append(_rec_scalar("Total Energy", "R", m["energy"]))
        if ex:
            body.append(_rec_scalar("RMS Density", "R", 1.234567e-9))
    body.append(_rec_array("Alpha Orbital Energies", "R", m["alpha_e"]))
    if m["beta_e"] is not None:
        body.append(_rec_array("Beta Orbital Energies", "R", m["beta_e"]))
    body.append(_rec_array("Alpha MO coefficients", "R", m["alpha_c"]))
    if m["beta_c"] is not None:
        body.append(_rec_array("Beta MO coefficients", "R", m["beta_c"]))
    for label, tri in m["densities"].items():
        body.append(_rec_array(label, "R", tri))
    for label, q in m["charges"].items():
        body.append(_rec_array(label, "R", q))
    if m["trajectory"] is not None:
        body += trajectory_records(m)
    if m["gradient"] is not None:
        body.append(_rec_array("Cartesian Gradient", "R", m["gradient"]))
    if m["hessian"] is not None:
        body.append(_rec_array("Cartesian Force Constants", "R", m["hessian"]))
    if m["dipole"] is not None:
        body.append(_rec_array("Dipole Moment", "R", m["dipole"]))
    if m["polarizability"] is not None:
        body.append(_rec_array("Polarizability", "R", m["polarizability"]))
    if m["quadrupole"] is not None:
        body.append(_rec_array("Quadrupole Moment", "R", m["quadrupole"]))
    if ex:
        body.append(_rec_array("ONIOM Charges", "I", np.zeros(16, dtype=int)))
    return head, body


def trajectory_records(m):
    tr = m["trajectory"]
    fam, pt = ("IRC", "IRC point") if tr["kind"] == "IRC" else ("Optimization", "Opt point")
    recs = [
        _rec_scalar(f"{fam} MaxStp", "I", 100),
        _rec_scalar(f"{fam} Job offset", "I", 0),
        _rec_scalar(f"{fam} Num results per geometry", "I", 2),
        _rec_scalar(f"{fam} Num geometry variables", "I", 3 * m["natom"]),
    ]
    count = _rec_array(f"{fam} Number of geometries", "I", [len(p["energies"]) for p in tr["points"]])
    if tr["count_first"]:
        recs.append(count)
    for k, p in enumerate(tr["points"]):
        res = np.stack([p["energies"], p["second"]], axis=1)
        recs.append(_rec_array(f"{pt}{k + 1:8d} Results for each geometry", "R", res))
        recs.append(_rec_array(f"{pt}{k + 1:8d} Geometries", "R", p["geoms"]))
        recs.append(_rec_array(f"{pt}{k + 1:8d} Gradient at each geometry", "R", p["grads"]))
    if not tr["count_first"]:
        recs.append(count)
    return recs


def write(m):
    head, body = records(m)
    if m["shuffle"] is not None:
        order = np.random.default_rng(m["shuffle"]).permutation(len(body))
        body = [body[i] for i in order]
    lines = header_lines(m)
    for rec in head + body:
        lines += rec
    return "\n".join(lines) + "\n"


# ------------------------------------------------------------------------------------------------
# expectations


def tri_to_dense(tri):
    tri = np.asarray(tri, dtype=float)
    n = int(round((np.sqrt(8 * len(tri) + 1) - 1) / 2))
    out = np.zeros((n, n))
    k = 0
    for i in range(n):
        for j in range(i + 1):
            out[i, j] = out[j, i] = tri[k]
            k += 1
    return out


def _ap(x, unit=1.0):
    """The decimal string in the file is parsed exactly: only the unit factor contributes a tolerance."""
    return Approx(np.asarray(x, dtype=float) * unit, atol=0.0, rtol=1e-13 if unit == 1.0 else units.RTOL)


def wfn_description(m):
    shells = []
    for s in m["shells"]:
        t = s["type"]
        if t == -1:
            shells.append({"icenter": s["atom"], "l": 0, "kind": "c", "exponents": s["exps"], "coeffs": s["coeffs"]})
            shells.append({"icenter": s["atom"], "l": 1, "kind": "c", "exponents": s["exps"], "coeffs": s["pcoeffs"]})
        else:
            shells.append({"icenter": s["atom"], "l": abs(t), "kind": "p" if t <= -2 else "c", "exponents": s["exps"], "coeffs": s["coeffs"]})
    norb, na, nb = m["nindep"], m["nalpha"], m["nbeta"]
    if m["beta_c"] is not None:
        coeffs = np.concatenate([m["alpha_c"].T, m["beta_c"].T], axis=1)
        occs = np.zeros(2 * norb)
        occs[:na] = 1.0
        occs[norb : norb + nb] = 1.0
        energies = np.concatenate([m["alpha_e"], m["beta_e"]])
        kind = "unrestricted"
    else:
        coeffs = m["alpha_c"].T.copy()
        occs = np.zeros(norb)
        occs[:na] += 1.0
        occs[:nb] += 1.0
        energies = m["alpha_e"]
        kind = "restricted"
    return {"atcoords": m["coords"], "shells": shells, "conventions": CONVENTIONS, "mo_kind": kind, "norba": norb, "norbb": norb,
            "mo_coeffs": coeffs, "mo_occs": occs, "mo_energies": energies}


def expected(m):
    e = Expect({
        ("title",): Exact(m["title"].strip()),
        ("atnums",): Exact(np.asarray(m["atnums"], dtype=int)),
        ("atcorenums",): _ap(m["nuccharges"]),
        ("atcoords",): _ap(m["coords"]),
        ("lot",): Exact(m["method"].lower()),
        ("obasis_name",): Exact(m["basis"].lower()),
        ("nelec",): Exact(float(m["nelec"])),
        ("spinpol",): Exact(float(m["mult"] - 1)),
        ("charge",): Exact(float(m["charge"])),
        ("energy",): _ap(m["energy"]) if m["energy"] is not None else Absent(),
        ("atgradient",): _ap(m["gradient"]) if m["gradient"] is not None else Absent(),
        ("athessian",): _ap(tri_to_dense(m["hessian"])) if m["hessian"] is not None else Absent(),
        ("atmasses",): _ap(m["masses"], units.amu) if m["masses"] is not None else Absent(),
        ("atfrozen",): Exact(np.asarray(m["micopt"]) == -2) if m["micopt"] is not None else Absent(),
        ("moments", (1, "c")): _ap(m["dipole"]) if m["dipole"] is not None else Absent(),
        WFN: wfn_description(m),
    })
    rt = RUN_TYPES.get(m["jobtype"], RUN_TYPES_MORE.get(m["jobtype"]))
    e[("run_type",)] = Exact(rt) if rt is not None else Absent()
    if m["quadrupole"] is not None:
        xx, yy, zz, xy, xz, yz = m["quadrupole"]
        # IOData.moments[(2, 'c')]: alphabetical order xx xy xz yy yz zz
        e[("moments", (2, "c"))] = _ap([xx, xy, xz, yy, yz, zz])
    else:
        e[("moments", (2, "c"))] = Absent()
    if m["polarizability"] is not None:
        e[("extra", "polarizability_tensor")] = _ap(tri_to_dense(m["polarizability"]))
    for label, key in CHARGE_LABELS.items():
        e[("atcharges", key)] = _ap(m["charges"][label]) if label in m["charges"] else Absent()
    present = {}
    for label, key in DENSITY_LABELS.items():
        if label in m["densities"]:
            present[key] = _ap(tri_to_dense(m["densities"][label]))
    for key in set(DENSITY_LABELS.values()):
        e[("one_rdms", key)] = present.get(key, Absent())
    return e


# Classes that are generated but NOT asserted by C03 (triage decisions, see DESIGN.md section 7): class -> reason
NOT_ASSERTED = {'fortran_3digit_exponent': 'Fortran output without exponent letter: edge case', 'rohf_scf_density': 'ROHF Total SCF Density is dropped on purpose (documented Gaussian bug work-around, DESIGN 3.2)', 'run_types': 'mapping of Force/POpt/FTS/PTS to run_type is a judgement, not stated by the file format'}
