"""AIMPAC wavefunction files (.wfn), fixed Fortran columns, as read by AIMPAC (PROAIM/EXTREME, subroutine RDPSI):

    READ 101 title                       101 FORMAT (A80)
    READ 102 MODE,NMO,NPRIMS,NCENT       102 FORMAT (4X,A4,10X,3(I5,15X))       "GAUSSIAN" + counts ending in cols 23/43/63
    READ 103 name,J,X(J),Y(J),Z(J),CHARG 103 FORMAT (A8,11X,I3,2X,3F12.8,10X,F5.1)   coordinates in bohr
    READ 104 ICENT(1..NPRIMS)            104 FORMAT (20X,20I3)                  "CENTRE ASSIGNMENTS  "
    READ 104 ITYPE(1..NPRIMS)                                                   "TYPE ASSIGNMENTS    "
    READ 105 EX(1..NPRIMS)               105 FORMAT (10X,5E14.7)                "EXPONENTS "  (D or E exponent letter)
    per MO: READ 106 occupation, energy  106 FORMAT (35X,F12.8,15X,F12.8)       occupation cols 36-47, energy cols 63-74
            READ 107 C(1..NPRIMS)        107 FORMAT (5E16.8)
    READ 108 "END DATA"                  108 FORMAT (A8)
    READ 109 energy, -V/T                109 FORMAT (17X,F20.12,18X,F13.8)

Gaussian's output layout (identical columns; corpus files *.wfn) is used for writing:
    "GAUSSIAN",8X,I7," MOL ORBITALS",I7," PRIMITIVES",I9," NUCLEI"
    2X,A2,I4,4X,"(CENTRE",I3,") ",3F12.8,"  CHARGE =",F5.1
    "MO",I5,5X,"MO 0.0",8X,"OCC NO =",F13.7,"  ORB. ENERGY =",F12.6         (occupation ends col 47, energy cols 63-74)
    " TOTAL ENERGY =  ",F20.12," THE VIRIAL(-V/T)=",F13.8
Other programs (GAMESS, Molpro; corpus lih_cation_uhf.wfn) print the MO header as "MO",I4,20X,"OCC NO = ",F12.8,
"  ORB. ENERGY =",F12.8 - the same columns for AIMPAC's FORMAT 106 (class mo_header_f12_8).
Multiwfn / Molden2AIM extension: after the energy line a line " $MOSPIN $END" followed by the spin type of every orbital
(1 alpha, 2 beta, 3 alpha+beta), 40I2 per line (Multiwfn reads it list-directed).

The primitives are uncontracted, unnormalised Cartesian Gaussians; see _aimprim.py for the type codes and for the
derivation  mo_coeffs[row] = C_file[p] / N(alpha_p,(a,b,c))  of the semantic description, including the permutation between
the file order of the primitives (grouped by type within a contracted group / shell after shell; components of a shell in
AIMAll, Gaussian or arbitrary order - each primitive carries its own type code) and the rows.

Model units: coordinates bohr, energies hartree (the format's own units are atomic units).
"""

import numpy as np

from .. import elements
from . import _aimprim as ap
from .base import WFN, Approx, Exact, Expect

FORMAT = "wfn"
FILENAME = "gen.wfn"
EXPLICIT_FMT = False
SOURCES = [
    "AIMPAC (R.F.W. Bader group) source, subroutine RDPSI of PROAIM/EXTREME: FORMAT statements 101-109 quoted in the module docstring",
    "AIMAll, Format Specification for AIMAll Extended Wavefunction Files, http://aim.tkgristmill.com/wfxformat.html (primitive type codes 1-56)",
    "Multiwfn manual, section 2.5 (.wfn input; $MOSPIN $END extension shared with Molden2AIM; g/h type codes)",
    "Gaussian-written corpus files /repo/iodata/test/data/*.wfn as examples of real output (columns, Gaussian component order)",
]
CLASSES = ["small_by_shell", "by_type", "high_l", "many_centres", "wide_coords", "e_exponents", "unrestricted_mospin",
           "virtual", "remainders", "ecp_charge", "rohf_mospin", "mo_header_f12_8", "wide_energies", "mospin_wrap",
           "ghost_centre", "exp3_coefficients"]


def _atoms(rng, natom, mag=4.0, zmax=36):
    atnums = rng.integers(1, zmax + 1, size=natom)
    coords = np.round(rng.uniform(-mag, mag, size=(natom, 3)), 8)
    coords[:, 0] = np.round(coords[:, 0] + 1e-3 * np.arange(natom), 8)
    return atnums, coords


def _spec(rng, natom, nshell, lmax, nconmax):
    return [(None, int(rng.integers(0, lmax + 1)), int(rng.integers(1, nconmax + 1))) for _ in range(nshell)]


def generate(rng, klass):
    natom = int(rng.integers(1, 5))
    zmax, mag = 36, 4.0
    spec = None
    by_type, comp = False, "aimall"
    okind, nocc, nvirt = "restricted", None, 0
    m = {"expchar": "D", "cstyle": False, "names": "gaussian", "mo_header": "gaussian", "mospin": False, "ecp": False}
    feats = [klass]
    if klass == "small_by_shell":
        spec = _spec(rng, natom, int(rng.integers(1, 6)), 2, 1)
    elif klass == "by_type":
        spec = _spec(rng, natom, int(rng.integers(2, 6)), 3, 4)
        spec.append((None, int(rng.integers(1, 4)), int(rng.integers(2, 5))))
        by_type, comp = True, str(rng.choice(["aimall", "gaussian", "random"]))
    elif klass == "high_l":
        natom = int(rng.integers(1, 3))
        ls = list(range(6)) + [int(v) for v in rng.integers(3, 6, size=int(rng.integers(0, 3)))]
        rng.shuffle(ls)
        spec = [(None, l, int(rng.integers(1, 3))) for l in ls]
        by_type, comp = None, ["aimall", "gaussian", "random"]
    elif klass == "many_centres":
        natom = int(rng.choice([100, 101, 111, 120]))
        spec = [(i, 0, 1) for i in range(natom)]
        spec += [(natom - 1, 1, 2), (natom - 2, 2, 1)]
        by_type, comp = True, "gaussian"
        mag = 40.0
        m["names"] = str(rng.choice(["gaussian", "combined"]))
    elif klass == "wide_coords":
        natom = int(rng.integers(2, 6))
        spec = _spec(rng, natom, int(rng.integers(2, 6)), 2, 2)
        by_type = bool(rng.integers(2))
    elif klass == "e_exponents":
        spec = _spec(rng, natom, int(rng.integers(2, 6)), 3, 2)
        m["expchar"] = "E"
        m["cstyle"] = bool(rng.integers(2))
        by_type = bool(rng.integers(2))
    elif klass == "unrestricted_mospin":
        spec = _spec(rng, natom, int(rng.integers(2, 6)), 2, 2)
        okind, nvirt = "unrestricted", int(rng.integers(0, 3))
        m["mospin"] = True
        by_type = bool(rng.integers(2))
    elif klass == "mospin_wrap":
        spec = _spec(rng, natom, int(rng.integers(2, 5)), 1, 2)
        okind, nocc, nvirt = "unrestricted", int(rng.integers(3, 8)), int(rng.integers(14, 38))
        m["mospin"] = True
    elif klass == "virtual":
        spec = _spec(rng, natom, int(rng.integers(2, 6)), 2, 2)
        nvirt = int(rng.integers(1, 6))
        by_type = bool(rng.integers(2))
    elif klass == "remainders":
        target = int(rng.integers(1, 64))
        spec, n = [], 0
        while n < target:
            l = int(rng.choice([0, 0, 1, 2]))
            if n + ap.NCART[l] > target:
                l = 0
            spec.append((None, l, 1))
            n += ap.NCART[l]
        by_type, comp = None, ["aimall", "random"]
    elif klass == "ecp_charge":
        zmax = 86
        spec = _spec(rng, natom, int(rng.integers(2, 6)), 2, 2)
        m["ecp"] = True
    elif klass == "rohf_mospin":
        spec = _spec(rng, natom, int(rng.integers(2, 6)), 2, 2)
        okind = "rohf"
        m["mospin"] = True
    elif klass == "mo_header_f12_8":
        spec = _spec(rng, natom, int(rng.integers(2, 6)), 2, 2)
        m["mo_header"] = "f12_8"
        m["names"] = "combined"
        nvirt = int(rng.integers(0, 3))
    elif klass in ("wide_energies", "exp3_coefficients"):
        spec = _spec(rng, natom, int(rng.integers(2, 6)), 2, 2)
    elif klass == "ghost_centre":
        natom = int(rng.integers(2, 5))
        spec = [(0, 0, 1)] + _spec(rng, natom, int(rng.integers(2, 6)), 2, 2)
    else:
        raise ValueError(klass)
    atnums, coords = _atoms(rng, natom, mag, zmax)
    if klass == "wide_coords":
        # F12.8 filled: negative numbers with two integer digits, positive ones with three
        coords[0] = [-94.48630664, -10.00000001, -99.99999999]
        coords[1] = [100.15548504, 999.99999999, -12.34567891]
    if klass == "many_centres":
        coords[-1] = [113.38356797, -11.49384184, 0.5]
        atnums[-1] = 118                        # CHARGE =118.0 fills F5.1
    if klass == "ghost_centre":
        atnums[0] = 0                           # ghost centre: label "Bq", CHARGE = 0.0, carries basis functions
    charges = atnums.astype(float)
    if m["ecp"]:
        ncore = np.array([0 if z <= 2 else (2 if z <= 10 else (10 if z <= 36 else (28 if z <= 54 else 60))) for z in atnums])
        charges = (atnums - ncore).astype(float)
        if (ncore == 0).all():
            atnums[0] = 79
            charges[0] = 19.0
    groups = ap.make_groups(rng, natom, spec)
    shells, prims = ap.layout(rng, groups, by_type, comp)
    edec = 8 if m["mo_header"] == "f12_8" else 6
    elow = -1.5
    if klass == "wide_energies":
        elow = float(rng.choice([-9999.0, -1234.567891, -100.0]))
    occs, spins, energies = ap.orbital_model(rng, okind, nocc, nvirt, edec=edec, elow=elow)
    cfile = ap.random_file_coeffs(rng, shells, prims, len(occs), 8)
    if klass == "exp3_coefficients":
        # |value| < 1e-99: Fortran E/D output drops the exponent letter and prints a three-digit exponent, 0.12345678-100
        for _ in range(3):
            cfile[int(rng.integers(cfile.shape[0])), int(rng.integers(cfile.shape[1]))] = float(rng.choice([0.12345678e-100, -0.98765432e-120]))
    energy = round(float(rng.uniform(-400, -1)), 12)
    virial = round(float(rng.uniform(1.9, 2.1)), 8)
    if klass == "wide_energies":
        energy = float(rng.choice([-123456.123456789, -1234.5, 135.840069049169]))
        virial = float(rng.choice([-123.12345678, 1234.12345678, -10.5, 100.28406801]))
    m.update({
        "title": str(rng.choice(["H2O Optimization", "generated   title with  spaces", "G t1tle starting with G", "x"])),
        "atnums": atnums, "coords": coords, "charges": charges, "shells": shells, "prims": prims,
        "occs": occs, "spins": spins, "energies": energies, "cfile": cfile, "energy": energy, "virial": virial,
    })
    cen, typ, _e, _p, _r = ap.prim_arrays(shells, prims)
    feats += [f"natom={natom}", f"nprim%20={len(prims) % 20}", f"nprim%5={len(prims) % 5}", f"lmax={max(s[1] for s in shells)}",
              f"layout={'type' if by_type else ('mixed' if by_type is None else 'shell')}", f"comp={comp if isinstance(comp, str) else 'mixed'}",
              f"exp={m['expchar']}{'c' if m['cstyle'] else ''}", f"orb={okind}", f"nmo%40={len(occs) % 40}", f"virt={int(nvirt > 0)}",
              f"centre>=100:{int(max(cen) >= 100)}", f"names={m['names']}"]
    m["features"] = feats
    return m


def _real(m, x, width, ndig):
    if x != 0 and abs(x) < 1e-99:
        mant = f"{abs(x) / 10.0 ** (int(np.floor(np.log10(abs(x)))) + 1):.{ndig}f}"
        return (("-" if x < 0 else "") + mant + f"-{-(int(np.floor(np.log10(abs(x)))) + 1):03d}").rjust(width)
    if m["cstyle"]:
        return f"{x:{width}.{ndig}E}"          # 1.2345678E+00 (C / 1PE style, accepted by a Fortran E field)
    return ap.fortran_exp(x, width, ndig, m["expchar"])


def _name(m, i):
    z = int(m["atnums"][i])
    sym = elements.NUM2SYM[z] if z > 0 else "Bq"
    if m["names"] == "combined":                # AIMAll / GAMESS style label "Li1" (A8)
        return f"{sym}{i + 1}".ljust(8)
    return f"  {sym:<2s}{i + 1:4d}"


def _pieces(m):
    """All printed fields as strings (so that expected() can parse back exactly what the file says)."""
    cen, typ, exps, _pw, _rows = ap.prim_arrays(m["shells"], m["prims"])
    return {
        "coords": [[f"{v:12.8f}" for v in row] for row in m["coords"]],
        "charges": [f"{q:5.1f}" for q in m["charges"]],
        "cen": cen, "typ": typ,
        "exps": [_real(m, a, 14, 7) for a in exps],
        "coeffs": [[_real(m, v, 16, 8) for v in m["cfile"][:, j]] for j in range(m["cfile"].shape[1])],
        "occs": [f"{o:13.7f}" if m["mo_header"] == "gaussian" else f"{o:12.8f}" for o in m["occs"]],
        "energies": [f"{e:12.6f}" if m["mo_header"] == "gaussian" else f"{e:12.8f}" for e in m["energies"]],
        "energy": f"{m['energy']:20.12f}", "virial": f"{m['virial']:13.8f}",
    }


def _chunks(seq, n):
    return [seq[i:i + n] for i in range(0, len(seq), n)]


def write(m):
    p = _pieces(m)
    natom, nprim, nmo = len(m["atnums"]), len(m["prims"]), len(m["occs"])
    out = [" " + m["title"]]
    out.append(f"GAUSSIAN        {nmo:7d} MOL ORBITALS{nprim:7d} PRIMITIVES{natom:9d} NUCLEI")
    for i in range(natom):
        assert all(len(s) == 12 for s in p["coords"][i]) and len(p["charges"][i]) == 5
        out.append(f"{_name(m, i)}    (CENTRE{i + 1:3d}) " + "".join(p["coords"][i]) + "  CHARGE =" + p["charges"][i])
    for chunk in _chunks(p["cen"], 20):
        out.append("CENTRE ASSIGNMENTS  " + "".join(f"{c:3d}" for c in chunk))
    for chunk in _chunks(p["typ"], 20):
        out.append("TYPE ASSIGNMENTS    " + "".join(f"{c:3d}" for c in chunk))
    for chunk in _chunks(p["exps"], 5):
        out.append("EXPONENTS " + "".join(chunk))
    for j in range(nmo):
        assert len(p["energies"][j]) == 12, "orbital energy does not fit F12.x"
        if m["mo_header"] == "gaussian":
            out.append(f"MO{j + 1:5d}     MO 0.0        OCC NO ={p['occs'][j]}  ORB. ENERGY ={p['energies'][j]}")
        else:
            out.append(f"MO{j + 1:4d}" + " " * 20 + f"OCC NO = {p['occs'][j]}  ORB. ENERGY ={p['energies'][j]}")
        for chunk in _chunks(p["coeffs"][j], 5):
            out.append("".join(chunk))
    out.append("END DATA")
    assert len(p["energy"]) == 20 and len(p["virial"]) == 13
    out.append(f" TOTAL ENERGY =  {p['energy']} THE VIRIAL(-V/T)={p['virial']}")
    if m["mospin"]:
        out.append("")
        out.append(" $MOSPIN $END")
        for chunk in _chunks(list(m["spins"]), 40):
            out.append("".join(f"{s:2d}" for s in chunk))
    return "\n".join(out) + "\n"


def expected(m):
    p = _pieces(m)
    coords = np.array([[float(s) for s in row] for row in p["coords"]])
    occs = np.array([float(s) for s in p["occs"]])
    energies = np.array([float(s) for s in p["energies"]])
    cfile = np.array([[ap.parse_real(s) for s in col] for col in p["coeffs"]]).T
    exps_printed = [ap.parse_real(s) for s in p["exps"]]
    _cen, _typ, exps, _pw, _rows = ap.prim_arrays(m["shells"], m["prims"])
    assert np.allclose(exps_printed, exps, rtol=1e-12), "exponents must be printed exactly (7 significant digits)"
    if m["mospin"]:
        kind, norba, norbb, _na, _nb = ap.spin_summary(occs, m["spins"])
    else:
        kind, norba, norbb = "restricted", len(occs), len(occs)
    exp = Expect({
        ("title",): Exact(m["title"].strip()),
        ("atnums",): Exact(np.array(m["atnums"], dtype=int)),
        ("atcoords",): Approx(coords, atol=0.5e-8),
        ("atcorenums",): Approx(np.array([float(s) for s in p["charges"]]), atol=0.05),
        ("energy",): Approx(float(p["energy"]), atol=0.5e-12, rtol=1e-15),
        ("extra", "virial_ratio"): Approx(float(p["virial"]), atol=0.5e-8),
        WFN: ap.wfn_description(coords, m["shells"], m["prims"], cfile, kind, norba, norbb, occs, energies),
    })
    if m["mospin"]:
        exp[("extra", "mo_spin")] = Exact(np.array(m["spins"], dtype=int))
    return exp


# Classes that are generated but NOT asserted by C03 (triage decisions, see DESIGN.md section 7): class -> reason
NOT_ASSERTED = {'exp3_coefficients': 'Fortran output without exponent letter: edge case'}
