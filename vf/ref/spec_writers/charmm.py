"""CHARMM coordinate files, CARD format, standard (not extended) layout.  Model values in the file's units (angstrom).

Layout (CHARMM documentation io.doc, "Coordinate File Formats / CARD"):
  title     up to 32 lines starting with '*', terminated by a line that contains only '*'
  NATOM     (I5)
  atoms     ATOMNO RESNO RES TYPE X Y Z SEGID RESID Weighting   with Fortran format (I5,I5,1X,A4,1X,A4,F10.5,F10.5,F10.5,1X,A4,1X,A4,F10.5)
            character fields are left-justified; RESID is a character field (A4), e.g. "12" or "12A".
            ATOMNO / RESNO are the numbers of the PSF; a file written for an atom selection keeps the original numbers,
            so they need not start at 1.

Expected IOData mapping: atcoords, atffparams[attypes = TYPE | resnames = RES | resnums = RESNO], extra[segid | resid],
atmasses = Weighting * amu (the reader documents the weighting column as atomic masses in amu), title = text of the title
lines (compared up to whitespace, the joining of lines is not part of the format).

Precision note: iodata stores positions as float32.  The printed precision (1e-5 angstrom, tolerance 0.5e-5) is coarser than
the float32 resolution only for |x| < about 30 angstrom (float32 spacing of x*angstrom in bohr reaches 7.6e-6 bohr = 4e-6
angstrom at 64 bohr = 34 angstrom).  Classes with larger coordinates (hundreds, wide_coords, touching_type) therefore detect
the float32 storage as a loss of printed digits; the other classes stay below 15 angstrom.
"""

import numpy as np

from .. import units
from .base import Approx, Exact, Expect

FORMAT = "charmm"
FILENAME = "gen.crd"
EXPLICIT_FMT = False
SOURCES = [
    "CHARMM documentation, io.doc, section 'CHARMM coordinate file formats' (https://academiccharmm.org/documentation/version/c47b1/io): "
    "title lines '*', NATOM (I5), atom line (I5,I5,1X,A4,1X,A4,F10.5,F10.5,F10.5,1X,A4,1X,A4,F10.5) = ATOMNO RESNO RES TYPE X Y Z SEGID RESID Weighting",
]
CLASSES = ["small", "one_title_line", "many_title_lines", "touching_ids", "hundreds", "wide_coords", "touching_type", "wide_weights", "alpha_resid"]

RES = ["THR", "ALA", "TIP3", "LYS", "POPC", "HSD", "SOD"]
TYPES = ["N", "HT1", "CA", "OH2", "HD11", "OT1", "C12", "H15A", "SOD"]
SEGS = ["MAIN", "PROA", "W", "BULK", "A"]


class _Text(str):
    """A string that compares equal up to whitespace."""

    def _n(self, other):
        return " ".join(str(other).split())

    def __eq__(self, other):
        return isinstance(other, str) and self._n(self) == self._n(other)

    def __ne__(self, other):
        return not self.__eq__(other)

    __hash__ = str.__hash__


def _model(rng, natom, titles, *, lo=-15.0, hi=15.0, atomno0=1, resno0=1, per_res=3, types=TYPES, wmax=40.0, alpha=False):
    pos = np.round(rng.uniform(lo, hi, size=(natom, 3)), 5) + np.arange(natom)[:, None] * 1e-5
    resid = []
    for i in range(natom):
        r = 1 + (i // per_res) % 900
        resid.append(f"{r}{'ABC'[i // per_res % 3]}" if alpha and (i // per_res) % 2 else str(r))
    return {
        "titles": titles, "pos": np.round(pos, 5),
        "atomno": [atomno0 + i for i in range(natom)],
        "resno": [resno0 + i // per_res for i in range(natom)],
        "res": [RES[(i // per_res) % len(RES)] for i in range(natom)],
        "type": [types[int(rng.integers(len(types)))] for _ in range(natom)],
        "segid": [SEGS[(i // (3 * per_res)) % len(SEGS)] for i in range(natom)],
        "resid": resid,
        "weight": np.round(rng.uniform(0.0, wmax, size=natom), 5) + np.arange(natom) * 1e-5,
    }


def generate(rng, klass):
    n = int(rng.integers(2, 15))
    if klass == "small":
        m = _model(rng, n, ["1CCN FROM PSF OR PDB - OPTIMIZED", "MIN E = -478.936"])
    elif klass == "one_title_line":
        m = _model(rng, n, ["A SINGLE TITLE LINE id=1"])
    elif klass == "many_title_lines":
        m = _model(rng, n, [f"TITLE LINE {k} OF A LONG TITLE" for k in range(int(rng.integers(3, 32)))] + [" DATE:     6/ 4/ 8     10:57:14      CREATED BY USER: an"])
    elif klass == "touching_ids":
        m = _model(rng, n, ["ATOMNO AND RESNO FILL THEIR I5 FIELDS (SELECTION WRITTEN FROM A LARGE PSF)"],
                   atomno0=int(rng.choice([10000, 54321, 99999 - n])), resno0=int(rng.choice([10000, 33333, 99990 - n])))
    elif klass == "hundreds":
        m = _model(rng, n, ["COORDINATES OF 100..999 ANGSTROM, NO FIELDS TOUCH"], lo=100.0, hi=999.0)
    elif klass == "wide_coords":
        m = _model(rng, n, ["COORDINATES FILL THE F10.5 FIELDS"], lo=1000.0, hi=9999.0)
        neg = rng.integers(2, size=m["pos"].shape) == 1
        m["pos"] = np.round(np.where(neg, -m["pos"] / 10.0, m["pos"]), 5)
        m["pos"][0] = [1234.56789, -123.45678, -999.99999]
    elif klass == "touching_type":
        m = _model(rng, n, ["FOUR-CHARACTER TYPE FOLLOWED BY A FILLED X FIELD"], lo=-999.0, hi=-100.0, types=["HD11", "H15A", "OT11"])
    elif klass == "wide_weights":
        m = _model(rng, n, ["WEIGHTS FILL THE F10.5 FIELD AND TOUCH A FOUR-CHARACTER RESID"], wmax=1.0, resno0=1200)
        m["weight"] = np.round(rng.uniform(1000.0, 9999.0, size=n), 5)
        m["resid"] = [str(1200 + i // 3) for i in range(n)]
    elif klass == "alpha_resid":
        m = _model(rng, n, ["RESID IS A CHARACTER FIELD (INSERTION CODES)"], alpha=True, per_res=1)
    else:
        raise ValueError(klass)
    return {"m": m, "features": [klass, f"ntitle={len(m['titles'])}"]}


def write(model):
    m = model["m"]
    out = [f"* {t}" for t in m["titles"]] + ["*", f"{len(m['pos']):5d}"]
    for i in range(len(m["pos"])):
        x, y, z = m["pos"][i]
        out.append(f"{m['atomno'][i]:5d}{m['resno'][i]:5d} {m['res'][i]:<4s} {m['type'][i]:<4s}{x:10.5f}{y:10.5f}{z:10.5f} "
                   f"{m['segid'][i]:<4s} {m['resid'][i]:<4s}{m['weight'][i]:10.5f}")
    return "\n".join(out) + "\n"


def expected(model):
    m = model["m"]
    return Expect({
        ("title",): Exact(_Text(" ".join(m["titles"]))),
        ("atcoords",): Approx(m["pos"] * units.angstrom, atol=0.5e-5 * units.angstrom, rtol=units.RTOL),
        ("atffparams", "attypes"): Exact(np.array(m["type"])),
        ("atffparams", "resnames"): Exact(np.array(m["res"])),
        ("atffparams", "resnums"): Exact(np.array(m["resno"], dtype=int)),
        ("extra", "segid"): Exact(np.array(m["segid"])),
        ("extra", "resid"): Exact(np.array(m["resid"])),
        ("atmasses",): Approx(m["weight"] * units.amu, atol=0.5e-5 * units.amu, rtol=units.RTOL),
    })


# Classes that are generated but NOT asserted by C03 (triage decisions, see DESIGN.md section 7): class -> reason
NOT_ASSERTED = {'alpha_resid': 'alphanumeric RESID: reader documents integer residue ids'}
