"""VASP 5 POSCAR writer (see _vasp.py for the layout taken from the VASP manual)."""

from . import _vasp
from .base import Expect

FORMAT = "poscar"
FILENAME = "POSCAR_gen"
EXPLICIT_FMT = False
SOURCES = _vasp.SOURCES_HEADER
CLASSES = ["direct", "cartesian", "selective_direct", "selective_cartesian", "scaled_direct", "scaled_cartesian",
           "negative_scale_direct", "negative_scale_cartesian", "lefthanded", "repeated_species", "nonorthogonal",
           "keyword_variants", "fractional_keyword", "trailing_velocities"]

SCALES = [0.5291772083, 3.57, 1.8897261, 0.98, 2.0, 10.25]


def generate(rng, klass):
    kw = {"cell": str(rng.choice(["cubic", "ortho", "triclinic"]))}
    trailing = False
    if klass == "direct":
        pass
    elif klass == "cartesian":
        kw.update(cartesian=True)
    elif klass == "selective_direct":
        kw.update(selective=True)
    elif klass == "selective_cartesian":
        kw.update(selective=True, cartesian=True)
    elif klass == "scaled_direct":
        kw.update(scale=float(rng.choice(SCALES)))
    elif klass == "scaled_cartesian":
        kw.update(scale=float(rng.choice(SCALES)), cartesian=True, selective=bool(rng.integers(2)))
    elif klass == "negative_scale_direct":
        kw.update(scale=-round(float(rng.uniform(20, 3000)), 4))
    elif klass == "negative_scale_cartesian":
        kw.update(scale=-round(float(rng.uniform(20, 3000)), 4), cartesian=True)
    elif klass == "lefthanded":
        kw.update(cell="lefthanded", cartesian=bool(rng.integers(2)), scale=float(rng.choice([1.0, 3.57])))
    elif klass == "repeated_species":
        species = [(["O", "H", "O"], [1, 2, 1]), (["Si", "O", "Si", "O"], [2, 3, 1, 2]), (["C", "H", "C"], [1, 4, 2])]
        kw.update(species=species[int(rng.integers(len(species)))], cartesian=bool(rng.integers(2)))
    elif klass == "nonorthogonal":
        kw.update(cell="triclinic", cartesian=bool(rng.integers(2)), selective=bool(rng.integers(2)))
    elif klass == "keyword_variants":
        kw.update(keyword_variants=True, cartesian=bool(rng.integers(2)), selective=bool(rng.integers(2)),
                  scale=float(rng.choice([1.0, 2.0])))
    elif klass == "fractional_keyword":
        # direct coordinates announced by a word that does not start with D: only a first character C/c/K/k means Cartesian
        kw.update(selective=bool(rng.integers(2)), scale=float(rng.choice([1.0, 3.57])))
    elif klass == "trailing_velocities":
        kw.update(cartesian=bool(rng.integers(2)), selective=bool(rng.integers(2)))
        trailing = True
    else:
        raise ValueError(klass)
    h = _vasp.gen_header(rng, **kw)
    if klass == "fractional_keyword":
        h["kw_mode"] = str(rng.choice(["Fractional", "fractional", "Frac", "fractional coordinates"]))
    if trailing:
        import numpy as np

        h["velocities"] = np.round(rng.uniform(-0.05, 0.05, size=(sum(h["counts"]), 3)), 8)
    h["features"] = [klass] + _vasp.header_features(h)
    return h


def write(model):
    lines = _vasp.header_lines(model)
    if "velocities" in model:
        # optional block after the positions: blank line (Cartesian velocities in A/fs)
        lines.append("")
        lines += ["".join(f"{v:16.8E}" for v in row) for row in model["velocities"]]
    return "\n".join(lines) + "\n"


def expected(model):
    return Expect(_vasp.header_expect(model))
