"""Molekel .mkl files in the layout written by ORCA's orca_2mkl (standard-conforming numbers only).

Layout (Molekel MKL description / orca_2mkl output, see the corpus examples):
    $MKL                      first line, '#' comment lines
    $CHAR_MULT / charge multiplicity / $END
    $COORD     / atomic_number x y z  (ANGSTROM) / $END
    $CHARGES   / one partial charge per atom / $END              (optional)
    $BASIS     / per atom: shells " nfunc TYPE 1.0" + "exponent coefficient" lines; atoms separated by "$$" / $END
                 nfunc = number of basis functions of the shell: 1 S, 3 P, 6 D | 5 D, 10 F | 7 F, 15 G | 9 G
    $COEFF_ALPHA / blocks of up to 5 orbitals: symmetry labels line, energies line (hartree), one line per basis function / $END
    $OCC_ALPHA   / occupation numbers, 5 per line / $END
    $COEFF_BETA, $OCC_BETA likewise for unrestricted wavefunctions.
Numbers: contraction coefficients for normalised primitives, function order within a shell as in the Molden format
(_wfnmodel.MOLDEN_CONVENTIONS); the orbitals are orthonormal w.r.t. the exact overlap, so no vendor fix is needed.
The charge is consistent with the occupation numbers (sum Z - charge = number of electrons), multiplicity = Na - Nb + 1.
"""

import numpy as np

from .. import units
from . import _wfnmodel as wm
from .base import WFN, Approx, Exact, Expect

FORMAT = "molekel"
FILENAME = "gen.mkl"
EXPLICIT_FMT = False
SOURCES = [
    "Molekel 4.x/5.x documentation, 'MKL file format' ($MKL, $CHAR_MULT, $COORD in Angstrom, $CHARGES, $BASIS with $$ between atoms, "
    "$COEFF_ALPHA/$OCC_ALPHA/$COEFF_BETA/$OCC_BETA, $END)",
    "ORCA manual, utility orca_2mkl; real output: /repo/iodata/test/data/h2_sto3g.mkl, ethanol.mkl, li2.mkl (block layout, 5 orbitals per block)",
]

_BASIS_CLASSES = {
    "cart_sp": [(1, "c")],
    "cart_d": [(1, "c"), (2, "c")],
    "pure_d": [(1, "c"), (2, "p")],
    "cart_f": [(2, "c"), (3, "c")],
    "pure_f": [(2, "p"), (3, "p")],
    "cart_g": [(1, "c"), (4, "c")],
    "pure_g": [(2, "p"), (3, "p"), (4, "p")],
    "mixed_pure_cart": [(2, "p"), (2, "c"), (3, "c")],
}
_OTHER = ["unrestricted", "no_virtuals", "unrestricted_no_virtuals", "no_charges", "same_element", "many_atoms"]
CLASSES = list(_BASIS_CLASSES) + _OTHER


def build_model(rng, klass, ltypes, mo_kind="restricted", virtuals=True, natom=None, nbasis_max=35, max_prim=4):
    if natom is None:
        natom = int(rng.integers(1, 4))
    if klass == "many_atoms":
        natom = int(rng.integers(5, 9))
    for _ in range(60):
        coords = wm.random_coords(rng, natom)
        file_coords = np.round(coords / units.angstrom, 8)
        coords = file_coords * units.angstrom
        shells = wm.random_basis(rng, natom, ltypes, nbasis_max, max_prim=max_prim)
        if wm.shell_nbasis(shells) > nbasis_max:
            continue
        wfn = wm.build_wfn(rng, coords, shells, mo_kind, virtuals)
        if wfn is not None:
            break
    else:
        raise RuntimeError("no well-conditioned basis found")
    nelec = int(round(float(np.sum(wfn["mo_occs"]))))
    # nuclear charges: total close to the number of electrons so that the charge is plausible (-1 .. +2)
    target = max(natom, nelec + int(rng.integers(-1, 3)))
    if klass == "same_element":
        atnums = np.full(natom, max(1, -(-target // natom)))
    else:
        atnums = 1 + rng.multinomial(target - natom, np.ones(natom) / natom)
    charge = int(atnums.sum()) - nelec
    if mo_kind == "restricted":
        mult = 1
    else:
        occ = np.asarray(wfn["mo_occs"])
        mult = int(round(abs(occ[: wfn["norba"]].sum() - occ[wfn["norba"]:].sum()))) + 1
    charges = None if klass == "no_charges" else np.round(rng.uniform(-1, 1, size=natom), 6) + 1e-3 * np.arange(natom)
    norb = np.asarray(wfn["mo_coeffs"]).shape[1]
    types = sorted({f"{wm.LCHARS[sh['l']]}{sh['kind']}" for sh in shells})
    model = {"klass": klass, "wfn": wfn, "atnums": np.asarray(atnums, dtype=int), "file_coords": file_coords, "charge": charge,
             "mult": mult, "atcharges": charges,
             "features": [klass, mo_kind, "virt" if virtuals else "novirt", "types=" + "".join(types), f"natom={natom}",
                          f"nbasis={wm.shell_nbasis(shells)}", f"rem={wfn['norba'] % 5}/{(norb - wfn['norba']) % 5}"]}
    return model


def generate(rng, klass):
    if klass in _BASIS_CLASSES:
        lt = _BASIS_CLASSES[klass]
        return build_model(rng, klass, lt, natom=int(rng.integers(1, 3)) if any(l >= 3 for l, _ in lt) else None)
    mo_kind = "unrestricted" if klass.startswith("unrestricted") else "restricted"
    lt = [(1, "c")] if klass == "many_atoms" else ([(1, "c"), (2, "c")] if rng.integers(2) else [(1, "c"), (2, "p")])
    return build_model(rng, klass, lt, mo_kind, "no_virtuals" not in klass)


def label(j):
    return f"{j + 1}a"


def _coeff_section(name, C, energies, first_label):
    lines = [f"${name}"]
    nb, norb = C.shape
    for start in range(0, norb, 5):
        cols = range(start, min(start + 5, norb))
        lines.append(" " + "  ".join(label(first_label + j) for j in cols))
        lines.append(" " + " ".join(f"{energies[j]:14.8f}" for j in cols))
        for i in range(nb):
            lines.append(" " + " ".join(f"{C[i, j]: .12E}" for j in cols))
    lines.append(" $END")
    lines.append("")
    return lines


def _occ_section(name, occs):
    lines = [f"${name}"]
    for start in range(0, len(occs), 5):
        lines.append(" " + " ".join(f"{v:12.7f}" for v in occs[start:start + 5]))
    lines.append(" $END")
    lines.append("")
    return lines


def render(model, wfn, producer="R.spec_writers"):
    natom = len(model["atnums"])
    out = ["$MKL", "#", f"# MKL format file produced by {producer}", "#", "$CHAR_MULT", f"  {model['charge']} {model['mult']}", "$END", ""]
    out.append("$COORD")
    for z, (x, y, c) in zip(model["atnums"], model["file_coords"]):
        out.append(f"{int(z):4d} {x:14.8f} {y:14.8f} {c:14.8f}")
    out += ["$END", ""]
    if model["atcharges"] is not None:
        out.append("$CHARGES")
        out += [f"  {q:10.6f}" for q in model["atcharges"]]
        out += ["$END", ""]
    out.append("$BASIS")
    for iat in range(natom):
        if iat:
            out.append("$$")
        for sh in wfn["shells"]:
            if sh["icenter"] != iat:
                continue
            out.append(f" {wm.nfunc(sh['l'], sh['kind'])} {wm.LCHARS[sh['l']].upper()} 1.0")
            for a, c in zip(sh["exponents"], sh["coeffs"]):
                out.append(f" {a:18.9f} {c:20.12E}")
    out += ["", "$END", ""]
    C = np.asarray(wfn["mo_coeffs"])
    na = wfn["norba"]
    e = np.asarray(wfn["mo_energies"])
    occ = np.asarray(wfn["mo_occs"])
    if wfn["mo_kind"] == "restricted":
        out += _coeff_section("COEFF_ALPHA", C, e, 0)
        out += _occ_section("OCC_ALPHA", occ)
    else:
        out += _coeff_section("COEFF_ALPHA", C[:, :na], e[:na], 0)
        out += _occ_section("OCC_ALPHA", occ[:na])
        out += _coeff_section("COEFF_BETA", C[:, na:], e[na:], 0)
        out += _occ_section("OCC_BETA", occ[na:])
    return "\n".join(out) + "\n"


def write(model):
    return render(model, model["wfn"])


def expected(model):
    wfn = model["wfn"]
    na = wfn["norba"]
    norb = np.asarray(wfn["mo_coeffs"]).shape[1]
    labels = [label(j) for j in range(na)] + ([] if wfn["mo_kind"] == "restricted" else [label(j) for j in range(norb - na)])
    exp = Expect({
        ("atnums",): Exact(np.asarray(model["atnums"], dtype=int)),
        ("atcoords",): Approx(model["file_coords"] * units.angstrom, atol=0.5e-8 * units.angstrom, rtol=units.RTOL),
        ("charge",): Approx(float(model["charge"]), atol=1e-9),
        ("spinpol",): Approx(float(model["mult"] - 1), atol=1e-9),
        ("mo", "irreps"): Exact(np.array(labels)),
        WFN: wm.public_wfn(wfn),
    })
    if model["atcharges"] is not None:
        exp[("atcharges", "mulliken")] = Approx(model["atcharges"], atol=0.5e-6)
    return exp


# Relative tolerance of the wavefunction comparison: coordinates may be given in angstrom (CODATA drift of the conversion factor,
# 7e-10 relative, acts on tight functions through 2 alpha r) and numbers are printed with 12-13 significant digits.
WFN_REL_TOL = 2e-5
