"""Gaussian formatted checkpoint files with a trajectory (geometry optimisation, relaxed scan, IRC).

Separate module because the C03 harness calls load_many for every class of a module that defines frames(); a single-point
FChk has no trajectory records.  Everything else (layout, basis semantics, load_one expectations) is shared with fchk.py.

Trajectory records (corpus peroxide_opt / peroxide_tsopt / peroxide_relaxed_scan / peroxide_irc .fchk, Gaussian 16):
    '<Fam> MaxStp', '<Fam> Job offset', '<Fam> Num results per geometry' (=2), '<Fam> Num geometry variables' (=3 natom)
    '<Pt>IIIIIIII Results for each geome'   R N=2*nstep     (energy, second result) per geometry; label cut at A40
    '<Pt>IIIIIIII Geometries'               R N=3*natom*nstep   bohr
    '<Pt>IIIIIIII Gradient at each geome'   R N=3*natom*nstep   hartree/bohr
    '<Fam> Number of geometries'            I N=npoint      (after the points in Gaussian 16 output; label-addressed, so
                                                             it may equally come first: both orders are generated)
  with (<Fam>, <Pt>) = ('Optimization', 'Opt point') or ('IRC', 'IRC point').  The second result is 0 for optimisations and the
  reaction coordinate for IRC; Gaussian's IRC reaction coordinate is mass-weighted: unit amu^(1/2) bohr
  (Gaussian 16 'IRC' keyword: StepSize=N in units of 0.01 amu^(1/2) bohr; corpus step 0.1057 = default StepSize 10).
  iodata.load_many yields one object per geometry, point after point, extra = ipoint, npoint, istep, nstep (0-based counters)
  and reaction_coordinate for IRC.
"""

import numpy as np

from .. import units
from . import fchk
from .base import Exact, Expect

FORMAT = "fchk"
FILENAME = "gen.fchk"
EXPLICIT_FMT = False
WFN_REL_TOL = 1e-6
SOURCES = fchk.SOURCES + ["Gaussian 16 Users Reference, 'IRC' keyword (StepSize in 0.01 amu^1/2 bohr)"]
CLASSES = ["opt", "tsopt_freq", "irc", "scan"]


def generate(rng, klass):
    natom = int(rng.integers(1, 6))
    jobtype = {"opt": "FOpt", "tsopt_freq": "Freq", "irc": "FOpt", "scan": "Scan"}[klass]
    m = fchk._model(rng, natom=natom, shells=fchk._basis(rng, natom, [0, 1, -1, 0]), sections=fchk.ALL_SECTIONS,
                    densities=("Total SCF Density",), charges=("Mulliken Charges",), jobtype=jobtype, title=f"{klass} id={int(rng.integers(1000, 9999))}")
    npoint = int(rng.integers(1, 4)) if klass == "scan" else 1
    points = []
    gid = 0
    for _ in range(npoint):
        nstep = int(rng.integers(1, 6))
        p = {
            "energies": fchk.r8(-rng.uniform(10.0, 200.0) - 1e-3 * (gid + np.arange(nstep))),
            "second": np.zeros(nstep),
            "geoms": fchk.r8(rng.uniform(-5.0, 5.0, size=(nstep, natom, 3)) + 1e-3 * (gid + np.arange(nstep))[:, None, None]),
            "grads": fchk.r8(rng.uniform(-0.05, 0.05, size=(nstep, natom, 3)) + 1e-5 * (gid + np.arange(nstep))[:, None, None]),
        }
        if klass == "irc":
            # forward branch then reverse branch, as Gaussian stores them
            nf = (nstep + 1) // 2
            s = np.concatenate([0.1 * np.arange(nf), -0.1 * np.arange(1, nstep - nf + 1)])
            p["second"] = fchk.r8(s * (1.0 + 1e-3 * rng.random()))
        gid += nstep
        points.append(p)
    m["trajectory"] = {"kind": "IRC" if klass == "irc" else "Opt", "points": points, "count_first": bool(rng.integers(2))}
    # Gaussian: the current geometry / energy / gradient are those of the last geometry
    m["coords"] = points[-1]["geoms"][-1].copy()
    m["gradient"] = points[-1]["grads"][-1].copy()
    m["features"] = [klass, f"npoint={npoint}", "nsteps=" + ",".join(str(len(p["energies"])) for p in points),
                     f"natom={natom}", "count_first" if m["trajectory"]["count_first"] else "count_last"]
    return m


write = fchk.write
expected = fchk.expected


def frames(m):
    tr = m["trajectory"]
    out = []
    for ip, p in enumerate(tr["points"]):
        nstep = len(p["energies"])
        for k in range(nstep):
            e = Expect({
                ("title",): Exact(m["title"].strip()),
                ("atnums",): Exact(np.asarray(m["atnums"], dtype=int)),
                ("atcorenums",): fchk._ap(m["nuccharges"]),
                ("energy",): fchk._ap(p["energies"][k]),
                ("atcoords",): fchk._ap(p["geoms"][k]),
                ("atgradient",): fchk._ap(p["grads"][k]),
                ("extra", "ipoint"): Exact(ip),
                ("extra", "npoint"): Exact(len(tr["points"])),
                ("extra", "istep"): Exact(k),
                ("extra", "nstep"): Exact(nstep),
            })
            # NOT ASSERTED (triage): extra["reaction_coordinate"] of IRC files is passed through in Gaussian's
            # mass-weighted unit amu^(1/2) bohr; values under `extra` are not covered by the atomic-units rule.
            out.append(e)
    return out
