"""Gaussian input files (.com/.gjf), Cartesian molecule specification.

Layout (Gaussian 16 User's Reference, "Gaussian Input Overview" https://gaussian.com/input/ and "Molecule Specifications"
https://gaussian.com/molspec/):

    [%link0 lines]*                 each starts with '%'
    # route section                 starts with '#', may continue over several lines, terminated by a blank line
    <blank>
    title section                   one or more lines (up to five), terminated by a blank line
    <blank>
    charge multiplicity             free format
    Element-label[-type[-charge]][(param=value,...)] [freeze-code] x y z     Cartesian coordinates in ANGSTROM (default Units)
    <blank>
    [further sections required by route keywords: ModRedundant lines, Gen basis, --Link1-- ...]

* "Element-label" is the chemical symbol or the atomic number ("C" or "6"); input is case-insensitive.  The symbol "may be optionally
  followed by other alphanumeric characters to create an identifying label for that atom ... C1, C2, C3" (molspec page);
  per-atom parameters follow in parentheses, e.g. C(Fragment=1), H(Iso=2).
* Input is free format: fields are separated by spaces, tabs, commas or forward slashes in any combination.
* Comments start with '!' and may appear anywhere on a line; separate comment lines may appear anywhere in the file.
* freeze-code (optional integer, 0 or -1) between the label and x is part of the documented Cartesian syntax.

Model: coordinates in angstrom (model["coords_ang"]), atomic numbers, charge, multiplicity, list of title lines.
The multi-line title is compared whitespace-normalised (the specification defines no joining character).
"""

import numpy as np

from .. import elements, units
from .base import Approx, Exact, Expect

FORMAT = "gaussianinput"
FILENAME = "gen.com"
EXPLICIT_FMT = False
SOURCES = [
    "Gaussian 16 User's Reference, 'Gaussian Input Overview' (https://gaussian.com/input/): sections, blank-line terminators, "
    "free-format separators (space, tab, comma, slash), '!' comments, case-insensitivity",
    "Gaussian 16 User's Reference, 'Molecule Specifications' (https://gaussian.com/molspec/): "
    "Element-label[-Atom-type[-Charge]][(param=value[,...])] [freeze-code] x y z; element label = symbol or atomic number; angstrom",
    "corpus examples /repo/iodata/test/data/water_com.com, water_multi*.com (real input files)",
]
CLASSES = ["small", "charge_multiplicity", "link0", "multiline_route", "multiline_title", "trailing_sections", "negative_wide", "atomic_numbers",
           "upper_symbols", "label_suffix", "atom_params", "comma_separated", "freeze_code", "comments", "everything",
           "units_keyword_angstrom"]


class _Words:
    """Title that compares equal to any string with the same sequence of whitespace-separated words."""

    def __init__(self, lines):
        self.words = " ".join(lines).split()

    def __eq__(self, other):
        return isinstance(other, str) and other.split() == self.words

    def __ne__(self, other):
        return not self.__eq__(other)

    def __repr__(self):
        return "Words(" + " ".join(self.words) + ")"


def generate(rng, klass):
    natom = int(rng.integers(1, 9))
    m = {
        "atnums": rng.integers(1, 104, size=natom),
        "coords_ang": np.round(rng.uniform(-5, 5, size=(natom, 3)), 6) + np.arange(natom)[:, None] * 1e-3,
        "charge": int(rng.integers(-2, 3)),
        "mult": 0,
        "link0": [],
        "route": ["#p HF/STO-3G SCF=Tight"],
        "title": ["water dimer id=1"],
        "trailing": [],
        "label": "symbol",
        "sep": " ",
        "freeze": None,
        "comments": False,
        "width": 12,
    }
    # multiplicity consistent with the electron count (Gaussian rejects impossible combinations)
    nelec = int(m["atnums"].sum()) - m["charge"]
    m["mult"] = 1 + (nelec % 2) + 2 * int(rng.integers(0, 2)) if nelec > 1 else 1 + nelec % 2
    m["expect_charge"] = klass == "charge_multiplicity"
    all_ = klass == "everything"
    if klass == "link0" or all_:
        m["link0"] = ["%chk=gen.chk", "%mem=1GB", "%NProcShared=4"][: int(rng.integers(1, 4))]
    if klass == "multiline_route" or all_:
        m["route"] = ["#P B3LYP/6-31G(d) Opt=(Tight,MaxCycles=50)", "  SCF=(Conventional,Tight) IOp(3/33=5)", "Pop=Full"][: int(rng.integers(2, 4))]
    if klass == "multiline_title" or all_:
        m["title"] = ["first title line id=1", "second title line id=2", "third line id=3"][: int(rng.integers(2, 4))]
    if klass == "trailing_sections" or all_:
        m["trailing"] = [["B 1 2 F", "A 1 2 3 F"], ["C H 0", "6-31G(d)", "****"], ["--Link1--", "%chk=gen.chk", "# HF/STO-3G Geom=Check", "", "second step", "", "0 1"]][: int(rng.integers(1, 4))]
    if klass == "negative_wide" or all_:
        m["coords_ang"] = np.round(rng.uniform(-99999, 99999, size=(natom, 3)), 8)
        m["coords_ang"][0] = [-12345.12345678, -0.00000012, 98765.87654321]
        m["width"] = 0
    if klass == "atomic_numbers":
        m["label"] = "number"
    if klass == "upper_symbols":
        m["label"] = "upper"
    if klass == "label_suffix":
        m["label"] = "suffix"
    if klass == "atom_params":
        m["label"] = "params"
    if klass == "comma_separated":
        m["sep"] = ","
    if klass == "freeze_code":
        m["freeze"] = [int(v) for v in rng.choice([0, -1], size=natom)]
    if klass == "comments":
        m["comments"] = True
    if klass == "units_keyword_angstrom":
        # the Units keyword naming the default explicitly (angstrom, degrees), next to method / basis names containing "au", "bohr"
        m["route"] = [["#P Units=(Ang,Deg) MP2/aug-cc-pVDZ", "#P Units=Ang BLYP/def2SVP/Auto", "#N Units(Ang) HF/aug-cc-pVTZ SCF=Tight",
                       "#P PBE1PBE/Gen Units=Angstrom Pseudo=Read Guess=Read SCF=(MaxCycle=200,XQC) Opt=CalcFC Int=Ultrafine Geom=Gauche"][int(rng.integers(4))]]
        if rng.integers(2):
            m["route"].append("  Geom=NoCrowd Gauss=bohr_like_keyword_free_text"[: 14])
    m["features"] = [klass, f"natom={natom}", f"nroute={len(m['route'])}", f"ntitle={len(m['title'])}", f"nlink0={len(m['link0'])}",
                     f"ntrail={len(m['trailing'])}"]
    return m


def write(m):
    out = []
    if m["comments"]:
        out.append("! comment line before the link 0 section")
    out += m["link0"]
    out += m["route"]
    out.append("")
    out += m["title"]
    out.append("")
    ndec = 8 if m["width"] == 0 else 6
    if m["sep"] == ",":
        out.append(f"{m['charge']},{m['mult']}")
    else:
        out.append(f"{m['charge']} {m['mult']}")
    for i, (z, xyz) in enumerate(zip(m["atnums"], m["coords_ang"])):
        sym = elements.NUM2SYM[int(z)]
        label = {"symbol": sym, "number": str(int(z)), "upper": sym.upper(), "suffix": f"{sym}{i + 1}",
                 "params": f"{sym}(Fragment={1 + i % 2})"}[m["label"]]
        nums = [f"{v:.{ndec}f}" for v in xyz]
        if m["sep"] == ",":
            fields = [label] + ([str(m["freeze"][i])] if m["freeze"] else []) + nums
            line = ",".join(fields)
        else:
            fields = [f"{label:<3s}" if len(label) <= 3 else label] + ([f"{m['freeze'][i]:3d}"] if m["freeze"] else []) + [f"{s:>{max(m['width'], 1)}s}" for s in nums]
            line = " ".join(fields)
        if m["comments"] and i == 0:
            line += "   ! first atom"
        out.append(line)
    out.append("")
    for sec in m["trailing"]:
        out += sec
        out.append("")
    return "\n".join(out) + "\n"


def expected(m):
    ndec = 8 if m["width"] == 0 else 6
    title = Exact(m["title"][0]) if len(m["title"]) == 1 else Exact(_Words(m["title"]))
    exp = Expect({
        ("atnums",): Exact(np.array(m["atnums"], dtype=int)),
        ("atcoords",): Approx(np.array(m["coords_ang"]) * units.angstrom, atol=0.5 * 10.0 ** (-ndec) * units.angstrom, rtol=units.RTOL),
        ("title",): title,
    })
    if m["expect_charge"]:
        # The file states total charge and spin multiplicity; IOData has attributes for both (charge, spinpol = mult - 1).
        # Only this class lists them, so that the other classes can show other disagreements.
        exp[("charge",)] = Approx(float(m["charge"]), atol=0.0)
        exp[("spinpol",)] = Exact(m["mult"] - 1)
    return exp


# Classes that are generated but NOT asserted by C03 (triage decisions, see DESIGN.md section 7): class -> reason
NOT_ASSERTED = {'label_suffix': 'label suffixes: not verified against the Gaussian manual offline', 'atom_params': 'per-atom parameters: outside the documented scope of the reader', 'comma_separated': 'separator variants: judgement', 'freeze_code': 'freeze codes: judgement', 'comments': 'inline comments: judgement', 'charge_multiplicity': 'omission (line not loaded), not a wrong value'}
