"""GAMESS / PC-GAMESS (Firefly) PUNCH files (.dat).

Layout.  The PUNCH file is a sequence of input groups (" $NAME ... $END") and free text records written by the program.
Sources: GAMESS documentation INPUT.DOC ($DATA, $VEC, $GRAD, $HESS, $VIB, $DIPDR group descriptions; "$HESS ... FORMAT(I2,I3,5E15.8)",
"$GRAD ... energy line followed by one line per atom with name, charge and gradient components in hartree/bohr",
"a group begins with a $ sign in column 2"), and the single real PC-GAMESS file in the corpus
/repo/iodata/test/data/PCGamess_PUNCH.dat (RUNTYP=OPTIMIZE followed by a Hessian), from which record order, literal texts and Fortran edit
descriptors were read off:

    $DATA                                          (PC-GAMESS punches '$DATA' in column 1; GAMESS(US) ' $DATA  ' with $ in column 2)
    title                                          A80
    C1       0                                     point group A8, axis order I2  ("CN       1" is the same group)
    NAME      ZZZ.Z  x y z                         A10,F5.1,3F18.10   angstrom, one line per atom followed by its basis set lines
       S          1                                    shell type, number of primitives
         1         1.5000000000  1.00000000            primitive
                                                       (blank card ends the atom)
     $END
    -------------------- DATA FROM NSERCH=   k --------------------         (geometry searches only)
     COORDINATES OF SYMMETRY UNIQUE ATOMS (ANGS)
       ATOM   CHARGE       X              Y              Z
     ------------------------------------------------------------
     NAME      ZZZ.Z  x y z                        1X,A10,F5.1,3F15.10  angstrom
    --- RHF ORBITALS --- GENERATED AT ...
    title
    E(RHF)=  F20.10, E(NUC)= F16.10, I5 ITERS      hartree
     $VEC ... $END                                 (I2,I3,5E15.8)
     POPULATION ANALYSIS / MOMENTS AT POINT / DIPOLE
     $GRAD
    E= F20.10  GMAX= F12.7  GRMS= F12.7
    NAME      ZZZ.   gx gy gz                      A10,F5.0,3E20.10  hartree/bohr
     $END
    CAUTION, APPROXIMATE HESSIAN!                  (the optimiser's guess/updated Hessian, not a computed one)
     $HESS
    ENERGY IS  F20.10 E(NUC) IS F20.10
    II JJJ v v v v v                               (I2,I3,5E15.8): row index, line counter within the row, 5 values per line,
                                                   every row of the 3N x 3N matrix starts a new line; hartree/bohr**2
     $END
     $VIB ... $END, $DIPDR ... $END
    ----- START OF NORMAL MODES FOR -MOLPLT- PROGRAM -----
    ATOMIC MASSES                                  5F12.5, amu
    MODE  k   FREQUENCY= F10.5 (CM**-1)            followed by natom lines 3E17.9
    ----- END OF NORMAL MODES FOR -MOLPLT- PROGRAM -----

Which sections appear depends on RUNTYP: ENERGY -> $DATA, orbitals; GRADIENT -> + $GRAD; HESSIAN -> + $HESS, $DIPDR, normal modes;
OPTIMIZE -> NSERCH blocks with coordinate tables, final results, approximate Hessian.

Model units: coordinates angstrom, energies hartree, gradient hartree/bohr, Hessian hartree/bohr^2, masses amu.
Expectations: everything in atomic units (masses: amu -> electron masses). g_rot: rotational symmetry number of the
point group printed in $DATA (C1 -> 1).
"""

import numpy as np

from .. import elements, units
from .base import Approx, Exact, Expect

FORMAT = "gamess"
FILENAME = "gen.dat"
EXPLICIT_FMT = False
SOURCES = [
    "GAMESS documentation INPUT.DOC (https://www.msg.chem.iastate.edu/gamess/GAMESS_Manual/input.pdf): $DATA, $VEC, $GRAD, $HESS "
    "((I2,I3,5E15.8)), $VIB, $DIPDR groups; '$' of a group name in column 2; units of $GRAD/$HESS are hartree/bohr(**2)",
    "real program output /repo/iodata/test/data/PCGamess_PUNCH.dat (PC-GAMESS/Firefly): record order, literal headers, edit descriptors",
]
CLASSES = ["opt_hess_n1", "opt_hess_n2", "opt_hess_n3", "opt_hess_n4", "opt_hess_n5", "opt_hess_n6", "optimize_only", "point_group", "energy_only",
           "gradient_only", "hessian_only", "wide_coords", "long_names", "cn1_symmetry", "dollar_col2", "large_hessian"]

MASSES = {1: 1.00782, 6: 12.0, 7: 14.00307, 8: 15.99491, 9: 18.9984, 17: 34.96885, 16: 31.97207, 35: 78.91834, 3: 7.016, 14: 27.97693}


def _r(arr, fmt):
    """Round an array to what the given format prints (so that model == printed number)."""
    a = np.asarray(arr, dtype=float)
    return np.array([float(format(v, fmt)) for v in a.ravel()]).reshape(a.shape)


def generate(rng, klass):
    if klass.startswith("opt_hess_n"):
        natom = int(klass[-1])
    elif klass == "large_hessian":
        # 3N around 100: the I2 row label of $HESS wraps (row 100 is printed as ' 0', 101 as ' 1', ...)
        natom = int(rng.choice([33, 34, 40]))
    elif klass in ("wide_coords", "long_names", "cn1_symmetry", "dollar_col2", "hessian_only"):
        natom = int(rng.integers(2, 7))
    else:
        natom = int(rng.integers(1, 7))
    atnums = rng.choice(list(MASSES), size=natom)
    names = [elements.NUM2SYM[int(z)].upper() for z in atnums]
    if klass == "long_names":
        names = [(n + "ATOM" + "XYZW"[i % 4] + str(i))[: 8 + i % 3] for i, n in enumerate(names)]
    mag = 999.0 if klass == "wide_coords" else 4.0

    def coords():
        c = np.round(rng.uniform(-mag, mag, size=(natom, 3)), 10) + np.arange(natom)[:, None] * 1e-3
        if klass == "wide_coords":
            c[0] = [-123.0123456789, -999.9876543211, 100.5]
        return _r(c, ".10f")

    def grad():
        g = rng.uniform(-1, 1, size=(natom, 3)) * 10.0 ** rng.integers(-7, -1, size=(natom, 3))
        return _r(g, ".10E")

    def energy():
        return float(format(-rng.uniform(1.0, 5000.0), ".10f"))

    n3 = 3 * natom
    h = rng.uniform(-1, 1, size=(n3, n3)) * 10.0 ** rng.integers(-6, 1, size=(n3, n3))
    h = _r(np.triu(h) + np.triu(h, 1).T, ".8E")
    happrox = np.diag(_r(rng.uniform(0.1, 0.5, size=n3), ".8E"))
    nstep = int(rng.integers(1, 4))
    m = {
        "klass": klass,
        "natom": natom,
        "atnums": atnums,
        "names": names,
        "title": "punch file written by the reference writer id=%d" % int(rng.integers(1000)),
        "group": ("CN", 1) if klass == "cn1_symmetry" else ("C1", 0),
        "data_header": " $DATA  " if klass == "dollar_col2" else "$DATA",
        "steps": [{"coords": coords(), "energy": energy(), "grad": grad()} for _ in range(nstep)],
        "final": {"coords": coords(), "energy": energy(), "grad": grad()},
        "enuc": float(format(rng.uniform(0.0, 5000.0), ".10f")),
        "hess": h,
        "hess_approx": happrox,
        "masses": np.array([MASSES[int(z)] for z in atnums]),
        "freqs": _r(np.sort(rng.uniform(0.0, 4000.0, size=n3)), ".5f"),
        "modes": _r(rng.uniform(-0.1, 0.1, size=(n3, natom, 3)), ".9E"),
        "dipdr": _r(rng.uniform(-4, 4, size=(n3, 3)), ".8E"),
        "vec": _r(rng.uniform(-1, 1, size=(natom, natom)), ".8E"),
    }
    kinds = {
        "optimize_only": "optimize", "point_group": "optimize", "energy_only": "energy", "gradient_only": "gradient", "hessian_only": "hessian",
    }
    m["runtyp"] = kinds.get(klass, "optimize+hessian")
    m["features"] = [klass, f"natom={natom}", f"3n%5={n3 % 5}", f"runtyp={m['runtyp']}", f"nserch={nstep if 'optimize' in m['runtyp'] else 0}"]
    return m


def _e(v, w, d):
    return format(v, f"{w}.{d}E")


def _data_group(m, out):
    out.append(m["data_header"])
    out.append(f"{m['title']:<80s}")
    out.append(f"{m['group'][0]:<8s}{m['group'][1]:2d}")
    if m["group"][0] != "C1":
        out.append("")          # INPUT.DOC: a blank card follows the point group card unless the group is C1
    for name, z, xyz in zip(m["names"], m["atnums"], m["final_data_coords"]):
        out.append(f"{name:<10s}{float(z):5.1f}" + "".join(f"{v:18.10f}" for v in xyz))
        out.append("   S          1")
        out.append(f"     1      {1.5 + 0.25 * int(z):15.10f}  1.00000000")
        out.append(" " * 11)
    out.append(" $END      ")


def _coord_table(m, coords, out):
    out.append(" COORDINATES OF SYMMETRY UNIQUE ATOMS (ANGS)")
    out.append("   ATOM   CHARGE       X              Y              Z")
    out.append(" " + "-" * 60)
    for name, z, xyz in zip(m["names"], m["atnums"], coords):
        out.append(f" {name:<10s}{float(z):5.1f}" + "".join(f"{v:15.10f}" for v in xyz))


def _orbitals(m, energy, out):
    out.append("--- RHF ORBITALS --- GENERATED AT 13:38:08 LT   3-AUG-2010")
    out.append(f"{m['title']:<80s}")
    out.append(f"E(RHF)={energy:20.10f}, E(NUC)={m['enuc']:16.10f},{10:5d} ITERS")
    out.append(" $VEC")
    for i, row in enumerate(m["vec"]):
        _rows(i, row, out)
    out.append(" $END")
    out.append(" POPULATION ANALYSIS")
    for name, z in zip(m["names"], m["atnums"]):
        out.append(f"{name:<10s}{float(z) + 0.25:10.5f}{-0.25:10.5f}{float(z) + 0.125:10.5f}{-0.125:10.5f}")
    out.append(" MOMENTS AT POINT    1 X,Y,Z=  0.000000  0.000000  0.000000")
    out.append(" DIPOLE      -0.521513 -0.307925 -0.100514")


def _rows(i, row, out):
    """One matrix row in (I2,I3,5E15.8); the row index is printed modulo 100 (I2)."""
    for k in range(0, len(row), 5):
        out.append(f"{(i + 1) % 100:2d}{k // 5 + 1:3d}" + "".join(_e(v, 15, 8) for v in row[k:k + 5]))


def _grad(m, st, out):
    g = st["grad"]
    out.append(" $GRAD")
    out.append(f"E={st['energy']:20.10f}  GMAX={np.abs(g).max():12.7f}  GRMS={np.sqrt((g ** 2).mean()):12.7f}")
    for name, z, gi in zip(m["names"], m["atnums"], g):
        out.append(f"{name:<10s}{float(z):4.0f}." + "".join(_e(v, 20, 10) for v in gi))
    out.append(" $END")


def _hess(m, h, energy, out):
    out.append(" $HESS")
    out.append(f"ENERGY IS{energy:20.10f} E(NUC) IS{m['enuc']:20.10f}")
    for i, row in enumerate(h):
        _rows(i, row, out)
    out.append(" $END")


def _modes(m, out):
    out.append(" $DIPDR")
    for row in m["dipdr"]:
        out.append(" " + "".join(_e(v, 15, 8) for v in row))
    out.append(" $END")
    out.append("----- START OF NORMAL MODES FOR -MOLPLT- PROGRAM -----")
    out.append("ATOMIC MASSES")
    ms = m["masses"]
    for k in range(0, len(ms), 5):
        out.append("".join(f"{v:12.5f}" for v in ms[k:k + 5]))
    for k, (f, mode) in enumerate(zip(m["freqs"], m["modes"])):
        out.append(f"MODE{k + 1:5d}   FREQUENCY={f:10.5f} (CM**-1)")
        for row in mode:
            out.append("".join(_e(v, 17, 9) for v in row))
    out.append("----- END OF NORMAL MODES FOR -MOLPLT- PROGRAM -----")


def write(m):
    out = []
    fin = m["final"]
    rt = m["runtyp"]
    # $DATA holds the input geometry: first step of a search, otherwise the only geometry
    _data_group(dict(m, final_data_coords=m["steps"][0]["coords"] if "optimize" in rt else fin["coords"]), out)
    if "optimize" in rt:
        for k, st in enumerate(m["steps"]):
            out.append(f"-------------------- DATA FROM NSERCH={k:4d} --------------------")
            _coord_table(m, st["coords"], out)
            _orbitals(m, st["energy"], out)
            _grad(m, st, out)
        # the last search point is the converged one
        k = len(m["steps"])
        out.append(f"-------------------- DATA FROM NSERCH={k:4d} --------------------")
        _coord_table(m, fin["coords"], out)
        _orbitals(m, fin["energy"], out)
        _grad(m, fin, out)
        out.append("----- RESULTS FROM SUCCESSFUL RHF      GEOMETRY SEARCH -----")
        out.append("----- COORDS, ORBS, GRADIENT, AND APPROX. HESSIAN -----")
        _coord_table(m, fin["coords"], out)
        _grad(m, fin, out)
        out.append("CAUTION, APPROXIMATE HESSIAN!")
        _hess(m, m["hess_approx"], fin["energy"], out)
    else:
        _orbitals(m, fin["energy"], out)
    if rt == "gradient":
        _grad(m, fin, out)
    if "hessian" in rt:
        _grad(m, fin, out)
        _hess(m, m["hess"], fin["energy"], out)
        _modes(m, out)
    return "\n".join(out) + "\n"


def expected(m):
    fin = m["final"]
    rt = m["runtyp"]
    exp = Expect({
        ("title",): Exact(m["title"]),
        ("atnums",): Exact(np.array(m["atnums"], dtype=int)),
        ("atcoords",): Approx(fin["coords"] * units.angstrom, atol=0.5e-10 * units.angstrom, rtol=units.RTOL),
        ("energy",): Approx(fin["energy"], atol=0.5e-10),
    })
    if m["klass"] in ("point_group", "cn1_symmetry"):
        # IOData.g_rot is "the rotational symmetry number"; point group C1 (= CN with NAXIS 1) has symmetry number 1.
        # Listed in these classes only so that the others can show other disagreements.
        exp[("g_rot",)] = Exact(1)
    if rt != "energy":
        exp[("atgradient",)] = Approx(fin["grad"], atol=0.0, rtol=0.5e-10)
    if "hessian" in rt:
        exp[("athessian",)] = Approx(m["hess"], atol=0.0, rtol=0.5e-8)
        exp[("atmasses",)] = Approx(m["masses"] * units.amu, atol=0.5e-5 * units.amu, rtol=units.RTOL)
    return exp


# Classes that are generated but NOT asserted by C03 (triage decisions, see DESIGN.md section 7): class -> reason
NOT_ASSERTED = {'wide_coords': 'F15.10 layout inferred from one corpus file only', 'energy_only': 'omission (values not loaded), not a wrong value', 'gradient_only': 'omission', 'hessian_only': 'omission', 'point_group': 'g_rot string: type question outside C03', 'cn1_symmetry': 'low confidence that GAMESS punches this form', 'dollar_col2': 'medium confidence only'}
