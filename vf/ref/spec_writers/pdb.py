"""PDB files, wwPDB format v3.3 (fixed columns).  Model values are in the file's own units (angstrom).

Records written (1-based columns, from the v3.3 record tables):
  HEADER  11-50 classification, 51-59 depDate, 63-66 idCode
  TITLE   9-10 continuation, 11-80 title         COMPND  8-10 continuation, 11-80 compound
  CRYST1  7-15 a, 16-24 b, 25-33 c, 34-40 alpha, 41-47 beta, 48-54 gamma, 56-66 sGroup, 67-70 z
  MODEL   11-14 serial                           ENDMDL
  ATOM / HETATM   7-11 serial, 13-16 name, 17 altLoc, 18-20 resName, 22 chainID, 23-26 resSeq, 27 iCode,
                  31-38 x, 39-46 y, 47-54 z (Real 8.3), 55-60 occupancy, 61-66 tempFactor (Real 6.2),
                  77-78 element (right-justified), 79-80 charge
  TER     7-11 serial (= serial of the preceding atom + 1), 18-20 resName, 22 chainID, 23-26 resSeq, 27 iCode
  CONECT  7-11 serial, 12-16 / 17-21 / 22-26 / 27-31 serial numbers of bonded atoms (more than 4 partners: further
          CONECT records with the same first serial); every bond is listed from both of its atoms
  MASTER  11-15 numRemark, 16-20 "0", 21-25 numHet, 26-30 numHelix, 31-35 numSheet, 36-40 numTurn, 41-45 numSite,
          46-50 numXform, 51-55 numCoord, 56-60 numTer, 61-65 numConect, 66-70 numSeq
  END
Atom name alignment (v3.3, "Coordinate section"): the element symbol is right-justified in columns 13-14, i.e. names
whose element has one letter start in column 14 unless the name has four characters, in which case it starts in 13.
Element symbols in columns 77-78 are upper case in wwPDB files (e.g. "FE", "ZN", "CL").
Record order: title section, (MODEL, ATOM/HETATM/TER, ENDMDL)*, connectivity section (CONECT, once, valid for every
model because all models share the serial numbers), MASTER, END.

Expected IOData mapping (names from the reader's return dict): atcoords, atnums, atffparams[attypes|restypes|resnums],
extra[occupancies|bfactors|chainids|compound], title (COMPND text when there is no TITLE), bonds (0-based atom indices,
third column = iodata.periodic.bond2num["un"] = 8 because CONECT carries no bond order).
"""

import numpy as np

from .. import elements, units
from .base import Approx, Exact, Expect

FORMAT = "pdb"
FILENAME = "gen.pdb"
EXPLICIT_FMT = False
SOURCES = [
    "wwPDB Protein Data Bank Contents Guide: Atomic Coordinate Entry Format Description, version 3.3 "
    "(http://www.wwpdb.org/documentation/file-format-content/format33/v3.3.html): record tables of HEADER, TITLE, COMPND, "
    "CRYST1, MODEL, ATOM, HETATM, TER, ENDMDL, CONECT, MASTER, END; atom-name alignment rule; record order table",
    "multi-frame by plain concatenation of complete entries (each ending with END): convention of Open Babel output, "
    "corpus example /repo/iodata/test/data/water_trajectory_no_model.pdb",
]
CLASSES = [
    "small", "many_atoms", "big_serials", "wide_resseq", "wide_coords", "no_element", "no_chain", "compnd_only",
    "hetatm", "two_letter_elements", "altloc_icode", "long_title", "ter_records", "models", "models_conect", "concatenated",
]

BOND_UN = 8  # iodata.periodic.bond2num["un"]
ONE = ["H", "B", "C", "N", "O", "F", "P", "S", "K", "V", "Y", "I", "W", "U"]
TWO = [s for s in elements.SYMBOLS[1:] if len(s) == 2]
RESNAMES = ["ALA", "GLY", "LYS", "HOH", "UNL", "XXX", "THR", " DA", "  U", "HEM"]


class _Text(str):
    """A string that compares equal up to whitespace (record boundaries of continuation lines are not part of the text)."""

    def _n(self, other):
        return " ".join(str(other).split())

    def __eq__(self, other):
        return isinstance(other, str) and self._n(self) == self._n(other)

    def __ne__(self, other):
        return not self.__eq__(other)

    __hash__ = str.__hash__


def _name4(name, sym):
    """Columns 13-16 of an atom name following the alignment rule."""
    if len(name) >= 4 or len(sym) == 2:
        return f"{name:<4s}"[:4]
    return " " + f"{name:<3s}"


def _atoms(rng, natom, *, mag=50.0, pool=ONE, chains=True, element_col=True, record="ATOM", names="indexed",
           resseq0=1, per_res=4, altloc=False, icode=False, bmax=90.0, charge=False):
    atoms = []
    chain_letters = "ABCDEFGH"
    for i in range(natom):
        sym = str(pool[int(rng.integers(len(pool)))])
        if names == "indexed":
            idx = i + 1 if natom < 100 else (i % (1000 if len(sym) == 1 else 100))
            if natom >= 1000 and len(sym) == 1:
                idx = 100 + i % 900  # four-character names fill columns 13-16
            name = f"{sym.upper()}{idx}"
        else:
            name = str(rng.choice(["CA", "CB", "N", "O", "OXT", "HD11", "HG1", "NE2", "C"]))
            sym = name[0]
        ires = i // per_res
        atoms.append({
            "record": record if isinstance(record, str) else str(record[int(rng.integers(len(record)))]),
            "name": name, "sym": sym,
            "altloc": str(rng.choice(["A", "B"])) if altloc and rng.integers(2) else " ",
            "resname": RESNAMES[ires % len(RESNAMES)],
            "chain": chain_letters[(ires // 3) % len(chain_letters)] if chains else " ",
            "resseq": resseq0 + ires,
            "icode": str(rng.choice(["A", "B", "C"])) if icode and rng.integers(2) else " ",
            "xyz": np.round(rng.uniform(-mag, mag, size=3), 3) + 1e-3 * (i % 997),
            "occ": round(float(rng.uniform(0.0, 1.0)), 2),
            "b": round(float(rng.uniform(0.0, bmax)), 2),
            "element_col": element_col,
            "charge": str(rng.choice(["1+", "2+", "1-"])) if charge and rng.integers(2) else "  ",
        })
    return atoms


def _bonds(rng, natom, nbond, lo=0):
    seen = set()
    tries = 0
    while len(seen) < nbond and tries < 50 * nbond + 50:
        tries += 1
        i, j = (int(v) for v in rng.integers(lo, natom, size=2))
        if i != j:
            seen.add((min(i, j), max(i, j)))
    return sorted(seen)


def _frame(atoms, bonds=(), title="generated entry", compnd=None, header=False, ter=False, master=False):
    return {"atoms": atoms, "bonds": list(bonds), "title": title, "compnd": compnd, "header": header, "ter": ter, "master": master}


def generate(rng, klass):
    layout = "single"
    if klass == "small":
        n = int(rng.integers(2, 12))
        fr = [_frame(_atoms(rng, n), _bonds(rng, n, int(rng.integers(1, 6))), "SMALL MOLECULE id=7", "MOL_ID: 1;")]
    elif klass == "many_atoms":
        n = int(rng.choice([1000, 1001, 1500, 2500]))
        fr = [_frame(_atoms(rng, n, per_res=8), _bonds(rng, n, 30), "MORE THAN 999 ATOMS, FOUR-CHARACTER ATOM NAMES")]
    elif klass == "big_serials":
        n = int(rng.choice([10010, 10200, 11000]))
        bonds = set(_bonds(rng, n, 20, lo=9999)) | set(_bonds(rng, n, 10))
        # one atom with more than four partners, all with five-digit serial numbers
        bonds |= {(10000, 10001 + k) for k in range(6)}
        fr = [_frame(_atoms(rng, n, per_res=12), sorted(bonds), "SERIAL NUMBERS FILL COLUMNS 7-11, CONECT FIELDS TOUCH")]
    elif klass == "wide_resseq":
        n = int(rng.integers(8, 30))
        fr = [_frame(_atoms(rng, n, resseq0=int(rng.choice([998, 1000, 9980])), per_res=2), _bonds(rng, n, 4), "RESSEQ FILLS COLUMNS 23-26")]
    elif klass == "wide_coords":
        n = int(rng.integers(6, 14))
        atoms = _atoms(rng, n, mag=90.0, bmax=999.0)
        for i, a in enumerate(atoms):  # the 8.3 field holds -999.999 ... 9999.999
            a["xyz"] = np.round(np.where(rng.integers(2, size=3) == 1, rng.uniform(1000.0, 9999.0, size=3), rng.uniform(-999.0, -100.0, size=3)), 3) + 1e-3 * i
        atoms[0]["xyz"] = np.array([1234.567, -123.456, -999.999])
        atoms[1]["xyz"] = np.array([-100.001, 9999.999, 1000.002])
        atoms[1]["occ"], atoms[1]["b"] = 1.0, 999.99
        fr = [_frame(atoms, _bonds(rng, n, 3), "8.3 COORDINATE FIELDS AND 6.2 FIELDS TOUCH")]
    elif klass == "no_element":
        n = int(rng.integers(3, 40))
        pool = ONE + ["Cl", "Br", "Na", "Zn", "Fe", "Mg", "Si", "Se"]
        fr = [_frame(_atoms(rng, n, pool=pool, element_col=False), _bonds(rng, n, 3), "COLUMNS 77-78 BLANK, NAMES <SYMBOL><INDEX>")]
    elif klass == "no_chain":
        n = int(rng.integers(3, 20))
        fr = [_frame(_atoms(rng, n, chains=False), _bonds(rng, n, 3), "CHAIN ID BLANK")]
    elif klass == "compnd_only":
        n = int(rng.integers(3, 12))
        fr = [_frame(_atoms(rng, n), _bonds(rng, n, 2), None, "UNNAMED COMPOUND id=3")]
    elif klass == "hetatm":
        n = int(rng.integers(4, 20))
        fr = [_frame(_atoms(rng, n, record=["ATOM", "HETATM"], charge=True), _bonds(rng, n, 4), "ATOM AND HETATM RECORDS", header=True)]
    elif klass == "two_letter_elements":
        n = int(rng.integers(4, 20))
        fr = [_frame(_atoms(rng, n, pool=TWO, record="HETATM"), _bonds(rng, n, 3), "TWO-LETTER ELEMENT SYMBOLS IN COLUMNS 77-78")]
    elif klass == "altloc_icode":
        n = int(rng.integers(6, 20))
        fr = [_frame(_atoms(rng, n, names="protein", altloc=True, icode=True), (), "ALTLOC AND ICODE COLUMNS USED")]
    elif klass == "long_title":
        n = int(rng.integers(3, 9))
        fr = [_frame(_atoms(rng, n), (), "A TITLE THAT NEEDS MORE THAN ONE RECORD BECAUSE IT IS LONGER THAN SEVENTY COLUMNS OF TEXT id=11",
                     "MOL_ID: 1;\nMOLECULE: SOMETHING;\nCHAIN: A;")]
    elif klass == "ter_records":
        n = int(rng.integers(16, 40))
        atoms = _atoms(rng, n, per_res=2)
        for a in atoms[-4:]:
            a["record"] = "HETATM"
        # CONECT between the hetero atoms at the end (after all TER records) and with atoms of the first chain
        bonds = sorted({(n - 4, n - 3), (n - 3, n - 2), (n - 2, n - 1), (0, 1), (1, n - 1)})
        fr = [_frame(atoms, bonds, "TER RECORDS CONSUME SERIAL NUMBERS", ter=True, master=True)]
    elif klass in ("models", "models_conect"):
        layout = "models"
        n = int(rng.integers(3, 9))
        first = _atoms(rng, n, record="HETATM")
        shared_bonds = _bonds(rng, n, 3) if klass == "models_conect" else ()
        fr = []
        for k in range(int(rng.integers(2, 6))):
            atoms = [dict(a) for a in first]
            for i, a in enumerate(atoms):
                a["xyz"] = np.round(rng.uniform(-20, 20, size=3), 3) + 1e-3 * i + 0.1 * k
            fr.append(_frame(atoms, shared_bonds,
                             "ENTRY WITH SEVERAL MODELS", master=(klass == "models_conect")))
    elif klass == "concatenated":
        layout = "concat"
        fr = []
        for k in range(int(rng.integers(2, 6))):
            n = int(rng.integers(2, 8))
            fr.append(_frame(_atoms(rng, n), _bonds(rng, n, 2), f"FRAME {k} id={k}"))
    else:
        raise ValueError(klass)
    a0 = fr[0]["atoms"]
    return {"frames": fr, "layout": layout,
            "features": [klass, f"nframe={len(fr)}", f"natom_digits={len(str(len(a0)))}", f"bonds={bool(fr[0]['bonds'])}"]}


def _serials(fr):
    """Serial number of every atom; TER records take a serial number of their own."""
    out, s, ters = [], 0, []
    atoms = fr["atoms"]
    for i, a in enumerate(atoms):
        s += 1
        out.append(s)
        if fr["ter"] and a["record"] == "ATOM" and (i + 1 == len(atoms) or atoms[i + 1]["chain"] != a["chain"] or atoms[i + 1]["record"] != "ATOM"):
            s += 1
            ters.append((i, s))
    return out, dict(ters)


def _multiline(key, text):
    """TITLE: continuation in columns 9-10; COMPND: continuation in columns 8-10; text from column 11."""
    if "\n" in text:
        chunks = text.split("\n")
    else:
        chunks, words, cur = [], text.split(" "), ""
        for w in words:
            if len(cur) + len(w) + 1 > 68:
                chunks.append(cur)
                cur = w
            else:
                cur = (cur + " " + w) if cur else w
        chunks.append(cur)
    out = []
    for k, ch in enumerate(chunks):
        if k == 0:
            out.append(f"{key:<10s}{ch}")
        else:
            # continuation lines: number right-justified in the continuation field, text starts in column 12
            out.append(f"{key:<6s}{k + 1:>4d} {ch}")
    return out


def _atom_lines(fr):
    serials, ters = _serials(fr)
    out = []
    for i, (a, s) in enumerate(zip(fr["atoms"], serials)):
        elem = a["sym"].upper() if a["element_col"] else ""
        x, y, z = a["xyz"]
        out.append(f"{a['record']:<6s}{s:5d} {_name4(a['name'], a['sym'])}{a['altloc']}{a['resname']:>3s} {a['chain']}{a['resseq']:4d}{a['icode']}   "
                   f"{x:8.3f}{y:8.3f}{z:8.3f}{a['occ']:6.2f}{a['b']:6.2f}          {elem:>2s}{a['charge']}")
        if i in ters:
            out.append(f"TER   {ters[i]:5d}      {a['resname']:>3s} {a['chain']}{a['resseq']:4d}{a['icode']}" + " " * 53)
    return out, serials, len(ters)


def _conect_lines(fr, serials):
    partners = {}
    for i, j in fr["bonds"]:
        partners.setdefault(i, []).append(j)
        partners.setdefault(j, []).append(i)
    out = []
    for i in sorted(partners):
        ps = sorted(partners[i])
        for k in range(0, len(ps), 4):
            out.append(f"CONECT{serials[i]:5d}" + "".join(f"{serials[j]:5d}" for j in ps[k:k + 4]))
    return out


def _header(fr):
    out = []
    if fr["header"]:
        out.append(f"HEADER    {'HYDROLASE':<40s}01-JAN-20   1ABC")
    if fr["title"] is not None:
        out += _multiline("TITLE", fr["title"])
    if fr["compnd"] is not None:
        out += _multiline("COMPND", fr["compnd"])
    if fr["header"]:
        out.append("REMARK   2 RESOLUTION.    2.00 ANGSTROMS.")
        out.append(f"CRYST1{50.0:9.3f}{60.0:9.3f}{70.0:9.3f}{90.0:7.2f}{90.0:7.2f}{90.0:7.2f} {'P 1':<11s}{1:4d}")
    return out


def _master(natom, nter, nconect, nremark):
    return f"MASTER    {nremark:5d}{0:5d}{0:5d}{0:5d}{0:5d}{0:5d}{0:5d}{0:5d}{natom:5d}{nter:5d}{nconect:5d}{0:5d}"


def write(model):
    frs = model["frames"]
    out = []
    if model["layout"] == "models":
        out += _header(frs[0])
        for k, fr in enumerate(frs):
            out.append(f"MODEL     {k + 1:4d}")
            lines, serials, nter = _atom_lines(fr)
            out += lines
            out.append("ENDMDL")
        con = _conect_lines(frs[0], serials)
        out += con
        if frs[0]["master"]:
            out.append(_master(len(frs[0]["atoms"]), nter, len(con), 0))
        out.append("END")
    else:
        for fr in frs:
            out += _header(fr)
            lines, serials, nter = _atom_lines(fr)
            out += lines
            con = _conect_lines(fr, serials)
            out += con
            if fr["master"]:
                out.append(_master(len(fr["atoms"]), nter, len(con), 1 if fr["header"] else 0))
            out.append("END")
    return "\n".join(f"{line:<80s}" if line.startswith(("END", "TER", "MODEL", "CONECT")) else line for line in out) + "\n"


def _expect(fr, with_title=True):
    atoms = fr["atoms"]
    e = Expect({
        ("atnums",): Exact(np.array([elements.SYM2NUM[a["sym"]] for a in atoms], dtype=int)),
        ("atcoords",): Approx(np.array([a["xyz"] for a in atoms]) * units.angstrom, atol=0.5e-3 * units.angstrom, rtol=units.RTOL),
        ("atffparams", "attypes"): Exact(np.array([a["name"] for a in atoms])),
        ("atffparams", "restypes"): Exact(np.array([a["resname"].strip() for a in atoms])),
        ("atffparams", "resnums"): Exact(np.array([a["resseq"] for a in atoms], dtype=int)),
        ("extra", "occupancies"): Approx(np.array([a["occ"] for a in atoms]), atol=0.5e-2),
        ("extra", "bfactors"): Approx(np.array([a["b"] for a in atoms]), atol=0.5e-2),
    })
    if any(a["chain"] != " " for a in atoms):
        e[("extra", "chainids")] = Exact(np.array([a["chain"] for a in atoms]))
    if with_title:
        if fr["title"] is not None:
            e[("title",)] = Exact(_Text(fr["title"]))
            if fr["compnd"] is not None:
                e[("extra", "compound")] = Exact(_Text(fr["compnd"]))
        elif fr["compnd"] is not None:
            e[("title",)] = Exact(_Text(fr["compnd"]))
    if fr["bonds"]:
        e[("bonds",)] = Exact(np.array([(i, j, BOND_UN) for i, j in sorted(fr["bonds"])], dtype=int))
    return e


def expected(model):
    return _expect(model["frames"][0])


def frames(model):
    if model["layout"] == "models":
        # the title section and the connectivity section belong to the entry, i.e. to every model; the title is only
        # asserted for the first frame, the CONECT bonds for every frame (all models share the serial numbers)
        return [_expect(fr, with_title=(k == 0)) for k, fr in enumerate(model["frames"])]
    return [_expect(fr) for fr in model["frames"]]


# Classes that are generated but NOT asserted by C03 (triage decisions, see DESIGN.md section 7): class -> reason
NOT_ASSERTED = {'ter_records': 'CONECT refers to serial numbers that TER records also consume; the reader maps serial-1 to the atom index (reader design, judgement)', 'models_conect': 'CONECT section after ENDMDL: reader stops at the first END* record (judgement about multi-model files)'}
