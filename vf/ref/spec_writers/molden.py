"""Molden format files that follow the published format description (standard-conforming files only).

Conventions taken from the specification:
  * first line "[Molden Format]", all other sections in any order; "[Title]" + one title line (optional);
  * "[Atoms] AU|Angs": lines  element_name  number  atomic_number  x  y  z;
  * "[GTO]": per atom  "atom_sequence_number 0", shells "label nprim 1.00" (labels s p sp d f g), primitive lines
    "exponent coefficient" ("exponent coef_s coef_p" for sp), Fortran D exponents allowed, ONE EMPTY LINE after every atom;
    atom_sequence_number refers to the number column of [Atoms], so atoms may be listed in any order; basis functions are
    numbered in the order in which the shells are listed;
  * Cartesian functions by default (6D 10F 15G); "[5D]" = "[5D7F]" (pure d and f), "[5D10F]", "[7F]", "[9G]";
  * "[MO]": per orbital " Sym= / Ene= / Spin= Alpha|Beta / Occup=" then "ao_number coefficient" lines;
  * contraction coefficients refer to normalised primitives; function order within a shell see _wfnmodel.MOLDEN_CONVENTIONS.
Hence base.WFN contraction coefficients == numbers in the file (docs/basis.rst L2-normalised primitives, every Cartesian
function individually normalised).  Contractions are normalised and the orbitals are an orthonormal set w.r.t. the exact
overlap (C = S^-1/2 Q), so a correct reader needs no vendor fix and must not warn.
"""

import numpy as np

from .. import elements, units
from . import _wfnmodel as wm
from .base import WFN, Approx, Exact, Expect

FORMAT = "molden"
FILENAME = "gen.molden"
EXPLICIT_FMT = False
SOURCES = [
    "https://www.theochem.ru.nl/molden/molden_format.html (Molden format: [Molden Format], [Title], [Atoms], [GTO], [5D] [5D7F] "
    "[5D10F] [7F] [9G], [MO]; function order 5D/6D/7F/10F/9G/15G; free format, sections in any order)",
    "corpus files written by Molden itself and Molpro as examples of the layout: /repo/iodata/test/data/nh3_molden_pure.molden, "
    "nh3_molden_cart.molden, nh3_molpro2012.molden",
]

# class -> (shell types besides s, tag lines)
_BASIS_CLASSES = {
    "cart_sp": ([(1, "c")], []),
    "cart_d": ([(1, "c"), (2, "c")], []),
    "cart_f": ([(2, "c"), (3, "c")], []),
    "cart_g": ([(1, "c"), (2, "c"), (4, "c")], []),
    "pure_5d": ([(1, "c"), (2, "p"), (3, "p")], ["[5D]"]),
    "pure_5d7f": ([(2, "p"), (3, "p")], ["[5D7F]"]),
    "pure_5d10f": ([(2, "p"), (3, "c")], ["[5D10F]"]),
    "cart_d_7f": ([(2, "c"), (3, "p")], ["[7F]"]),
    "pure_9g": ([(2, "p"), (3, "p"), (4, "p")], ["[5D]", "[9G]"]),
    "cart_df_9g": ([(2, "c"), (3, "c"), (4, "p")], ["[9G]"]),
    "pure_5d_cart_g": ([(2, "p"), (4, "c")], ["[5D]"]),
}
_OTHER_CLASSES = ["sp_shells", "unrestricted", "unrestricted_interleaved", "no_virtuals", "unrestricted_no_virtuals",
                  "fractional_occ", "gto_atom_order", "section_orders", "gto_last", "tags_after_mo", "d_exponents",
                  "same_element", "upper_names", "no_title", "many_atoms", "distant_atoms_paren_units"]
CLASSES = list(_BASIS_CLASSES) + _OTHER_CLASSES
# Supported by generate() but NOT run by default: the section header "[GTO] (AU)" (as written by Molcas / Dalton and, from
# memory, shown on the Molden format page).  The specification page could not be fetched when this writer was made
# (no network), so the class is kept out of CLASSES until somebody has checked the page.
UNVERIFIED_CLASSES = ["gto_header_au"]


def _add_sp_shells(rng, shells, natom):
    """Append an sp shell (s and p contraction sharing the exponents) to one or two atoms; keep atom grouping."""
    out = []
    chosen = set(int(i) for i in rng.choice(natom, size=min(natom, int(rng.integers(1, 3))), replace=False))
    for i in range(natom):
        mine = [sh for sh in shells if sh["icenter"] == i]
        if i in chosen:
            s = wm.random_shell(rng, i, 0, "c", int(rng.integers(1, 4)))
            p = wm.random_shell(rng, i, 1, "c", len(s["exponents"]))
            p["exponents"] = s["exponents"].copy()
            p["coeffs"] = p["coeffs"] / np.sqrt(wm.contraction_norm2(1, p["exponents"], p["coeffs"]))
            s["sp"], p["sp"] = "s", "p"
            pos = int(rng.integers(0, len(mine) + 1))
            mine[pos:pos] = [s, p]
        out += mine
    return out


def build_model(rng, klass, ltypes, tags, mo_kind="restricted", virtuals=True, natom=None, nbasis_max=35, max_prim=4):
    """Random layout + true wavefunction.  Used by the vendor writer as well."""
    if natom is None:
        natom = int(rng.integers(1, 4))
    unit_name = "AU" if rng.integers(2) else "Angs"
    if klass == "distant_atoms_paren_units":
        # the unit keyword in parentheses, as several programs write it ("[Atoms] (AU)" occurs in the corpus); two atoms so far
        # apart, with functions so compact, that no orbital norm depends on the distance: a misread unit cannot be noticed by
        # a normalisation test, only by comparing the coordinates
        natom = 2
        unit_name = "(AU)" if rng.integers(3) == 0 else "(Angs)"
    if klass == "same_element":
        natom = 3
        atnums = np.array([8, 1, 1])[rng.permutation(3)]
    elif klass == "many_atoms":
        natom = int(rng.integers(5, 9))
        atnums = rng.integers(1, 11, size=natom)
    else:
        atnums = rng.integers(1, 37, size=natom)
    for _ in range(60):
        coords = wm.random_coords(rng, natom)
        if klass == "distant_atoms_paren_units":
            direction = rng.normal(size=3)
            coords = np.array([[0.0, 0.0, 0.0], 16.0 * direction / np.linalg.norm(direction)]) + rng.normal(scale=0.3, size=(2, 3))
        unit = 1.0 if unit_name.strip("()") == "AU" else units.angstrom
        file_coords = np.round(coords / unit, 8)
        coords = file_coords * unit
        shells = wm.random_basis(rng, natom, ltypes, nbasis_max, max_prim=max_prim)
        if klass == "sp_shells":
            shells = _add_sp_shells(rng, shells, natom)
        if klass == "distant_atoms_paren_units":
            for sh in shells:  # compact functions only (exponents >= 0.8), contraction renormalised
                ex = np.maximum(sh["exponents"], 0.8) * (1.0 + 0.35 * np.arange(len(sh["exponents"]))[::-1])
                sh["exponents"] = ex
                sh["coeffs"] = sh["coeffs"] / np.sqrt(wm.contraction_norm2(sh["l"], ex, sh["coeffs"]))
        atom_order = list(range(natom))
        if klass == "gto_atom_order" and natom > 1:
            while atom_order == list(range(natom)):
                atom_order = [int(i) for i in rng.permutation(natom)]
        shells = [sh for i in atom_order for sh in shells if sh["icenter"] == i]
        if wm.shell_nbasis(shells) > nbasis_max:
            continue
        wfn = wm.build_wfn(rng, coords, shells, mo_kind, virtuals, fractional=(klass == "fractional_occ"))
        if wfn is not None:
            break
    else:
        raise RuntimeError("no well-conditioned basis found")
    order = ["title", "atoms", "tags", "gto", "mo"]
    tag_blocks = [[t] for t in tags]
    if klass == "section_orders":
        blocks = ["title", "atoms", "gto", "mo"] + [f"tag{i}" for i in range(len(tags))]
        while True:
            order = [blocks[int(i)] for i in rng.permutation(len(blocks))]
            if order[-1] != "gto" and order != ["title", "atoms", "gto", "mo"]:
                break
    elif klass == "gto_last":
        order = ["title", "atoms", "tags", "mo", "gto"]
    elif klass == "tags_after_mo":
        order = ["title", "atoms", "gto", "mo", "tags"]
    elif rng.integers(2):
        order = ["title", "atoms", "gto", "tags", "mo"]  # ORCA / PSI4 place the tags after [GTO], Molden before
    title = None if klass == "no_title" or (klass not in ("section_orders",) and rng.integers(4) == 0) else \
        f"generated {klass} id={int(rng.integers(1000, 9999))}"
    model = {
        "klass": klass, "wfn": wfn, "atnums": np.asarray(atnums, dtype=int), "unit_name": unit_name, "file_coords": file_coords,
        "title": title, "tags": list(tags), "tag_blocks": tag_blocks, "order": order, "atom_order": atom_order,
        "dexp": klass == "d_exponents", "upper": klass == "upper_names", "interleave": klass == "unrestricted_interleaved",
        "nirrep": int(rng.integers(1, 4)), "gto_header": "[GTO] (AU)" if klass == "gto_header_au" else "[GTO]",
    }
    nb = wm.shell_nbasis(shells)
    types = sorted({f"{wm.LCHARS[sh['l']]}{sh['kind']}" for sh in shells})
    model["features"] = [klass, unit_name, "title" if title else "notitle", mo_kind, "virt" if virtuals else "novirt",
                         "order=" + ">".join(order), "types=" + "".join(types), f"natom={natom}", f"nbasis={nb}"]
    return model


def generate(rng, klass):
    if klass in _BASIS_CLASSES:
        ltypes, tags = _BASIS_CLASSES[klass]
        return build_model(rng, klass, ltypes, tags, natom=int(rng.integers(1, 3)) if any(l >= 3 for l, _ in ltypes) else None)
    mo_kind = "unrestricted" if klass.startswith("unrestricted") else "restricted"
    virtuals = "no_virtuals" not in klass
    if klass in ("section_orders", "tags_after_mo", "gto_last"):
        ltypes, tags = [(1, "c"), (2, "p"), (3, "c")], ["[5D10F]"]
        if klass == "section_orders" and rng.integers(2):
            ltypes, tags = [(2, "p"), (4, "p")], ["[5D]", "[9G]"]
        return build_model(rng, klass, ltypes, tags, natom=2)
    if klass == "many_atoms":
        return build_model(rng, klass, [(1, "c")], [])
    ltypes, tags = ([(1, "c"), (2, "c")], []) if rng.integers(2) else ([(1, "c"), (2, "p")], ["[5D]"])
    return build_model(rng, klass, ltypes, tags, mo_kind, virtuals)


def _num(x, dexp, width=20, prec=12):
    s = f"{x:{width}.{prec}E}"
    return s.replace("E", "D") if dexp else s


def render(model, wfn):
    """File text for the layout of `model` with the numbers (shell coefficients, MO coefficients) of `wfn`."""
    natom = len(model["atnums"])
    sec = {}
    if model["title"] is not None:
        sec["title"] = ["[Title]", " " + model["title"]]
    lines = [f"[Atoms] {model['unit_name']}"]
    for i in range(natom):
        name = elements.NUM2SYM[int(model["atnums"][i])]
        if model["upper"]:
            name = name.upper()
        x, y, z = model["file_coords"][i]
        lines.append(f"{name:<3s} {i + 1:5d} {int(model['atnums'][i]):4d} {x:16.8f} {y:16.8f} {z:16.8f}")
    sec["atoms"] = lines
    for i, t in enumerate(model["tags"]):
        sec[f"tag{i}"] = [t]
    sec["tags"] = list(model["tags"])
    lines = [model.get("gto_header", "[GTO]")]
    shells = wfn["shells"]
    for iat in model["atom_order"]:
        lines.append(f"{iat + 1:4d} 0")
        k = 0
        mine = [sh for sh in shells if sh["icenter"] == iat]
        while k < len(mine):
            sh = mine[k]
            if sh.get("sp") == "s":
                p = mine[k + 1]
                lines.append(f" sp {len(sh['exponents']):4d} 1.00")
                for a, cs, cp in zip(sh["exponents"], sh["coeffs"], p["coeffs"]):
                    lines.append(f"{_num(a, model['dexp'], 20, 10)} {_num(cs, model['dexp'])} {_num(cp, model['dexp'])}")
                k += 2
                continue
            lines.append(f" {wm.LCHARS[sh['l']]:<2s} {len(sh['exponents']):4d} 1.00")
            for a, c in zip(sh["exponents"], sh["coeffs"]):
                lines.append(f"{_num(a, model['dexp'], 20, 10)} {_num(c, model['dexp'])}")
            k += 1
        lines.append("")
    sec["gto"] = lines
    lines = ["[MO]"]
    C = np.asarray(wfn["mo_coeffs"])
    na = wfn["norba"]
    norb = C.shape[1]
    spins = ["Alpha"] * norb if wfn["mo_kind"] == "restricted" else ["Alpha"] * na + ["Beta"] * (norb - na)
    seq = list(range(norb))
    if model["interleave"]:
        a, b = list(range(na)), list(range(na, norb))
        seq = []
        while a or b:
            if a:
                seq.append(a.pop(0))
            if b:
                seq.append(b.pop(0))
    for j in seq:
        lines.append(f" Sym= {irrep_label(model, wfn, j)}")
        lines.append(f" Ene= {wfn['mo_energies'][j]:.8f}")
        lines.append(f" Spin= {spins[j]}")
        lines.append(f" Occup= {wfn['mo_occs'][j]:.6f}")
        for i in range(C.shape[0]):
            lines.append(f"{i + 1:5d} {C[i, j]:21.13E}")
    sec["mo"] = lines
    out = ["[Molden Format]"]
    for name in model["order"]:
        out += sec.get(name, [])
    return "\n".join(out) + "\n"


def irrep_label(model, wfn, j):
    na = wfn["norba"]
    k = j if (wfn["mo_kind"] == "restricted" or j < na) else j - na
    return f"{k // model['nirrep'] + 1}a{k % model['nirrep'] + 1}" if model["nirrep"] > 1 else f"{k + 1}a"


def write(model):
    return render(model, model["wfn"])


def expected(model):
    wfn = model["wfn"]
    unit = 1.0 if model["unit_name"].strip("()") == "AU" else units.angstrom
    norb = np.asarray(wfn["mo_coeffs"]).shape[1]
    exp = Expect({
        ("atnums",): Exact(np.asarray(model["atnums"], dtype=int)),
        ("atcorenums",): Approx(np.asarray(model["atnums"], dtype=float), atol=1e-12),
        ("atcoords",): Approx(model["file_coords"] * unit, atol=0.5e-8 * unit, rtol=units.RTOL),
        ("mo", "irreps"): Exact(np.array([irrep_label(model, wfn, j) for j in range(norb)])),
        WFN: wm.public_wfn(wfn),
    })
    if model["title"] is not None:
        exp[("title",)] = Exact(model["title"])
    return exp


# Relative tolerance of the wavefunction comparison: coordinates may be given in angstrom (CODATA drift of the conversion factor,
# 7e-10 relative, acts on tight functions through 2 alpha r) and numbers are printed with 12-13 significant digits.
WFN_REL_TOL = 2e-5
