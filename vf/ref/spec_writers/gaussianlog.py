"""Gaussian log files with integral print-out (route: scf(conventional) iop(3/33=5) extralinks=l316 iop(3/27=999)).

Sources: Gaussian IOps reference, overlay 3 (https://gaussian.com/overlay3/): "IOp(3/33) Integral package debug printing: ...
5 Print one-electron integrals (overlap, kinetic, potential, core Hamiltonian)"; link 316 prints the two-electron integrals.
The text layout itself is not documented by Gaussian Inc.; it is the output of the Fortran routines and was read off the two real
Gaussian 03 logs of the corpus (/repo/iodata/test/data/water_sto3g_hf_g03.log, water_ccpvdz_pure_hf_g03.log):

     Calculate overlap and kinetic energy integrals
        NBasis = IIII  MinDer = 0  MaxDer = 0                    4X,'NBasis =',I4
     *** Overlap ***                                             lower triangle in blocks of 5 columns:
                    1             2             3  ...           7X,5(I10,4X)   column numbers of the block
          1  0.100000D+01                                        I7,5D14.6      row number, values of row i for columns j0..min(i,j0+4)
          2  0.236704D+00  0.100000D+01                          rows j0..nbasis in each block (first row of a block has one value)
     *** Kinetic Energy ***
     ***** Potential Energy *****                                printed with POSITIVE sign: the core Hamiltonian printed next
     ****** Core Hamiltonian ******                              equals Kinetic MINUS this matrix
     Multipole matrices IBuc=  518 IX=    1 IJ=           1:     (same matrix layout, not an energy operator)
     *** Dumping Two-Electron integrals ***
     <3 blank lines>, ISMode..., DBase..., IntCnt= ... lines
     I=III J=III K=III L=III Int=  0.478506575204D+01            ' I=',I3,' J=',I3,' K=',I3,' L=',I3,' Int=',D20.12
                                                                 (IJ|KL) in chemists' (Mulliken) notation, 1-based, only symmetry-unique
                                                                 non-negligible integrals, in no particular order
     Leave Link  316 ...
     Normal termination of Gaussian 03 ...

Expectations (atomic units): one_ints["olp"], one_ints["kin_ao"]; two_ints["er_ao"] in PHYSICISTS' notation as documented in the reader's
notes, er_ao[i,k,j,l] = (ij|kl) with the 8-fold permutational symmetry filled in and absent integrals zero.
Class "potential_sign_core" additionally lists na_ao = -(printed "Potential Energy") (because the file's own Core Hamiltonian equals
Kinetic - printed matrix, i.e. the nuclear-attraction operator is minus the printed one) and core_ao (IOData documents the name prefix
"core" for the core Hamiltonian).  All other classes give no expectation for na_ao.
"""

import numpy as np

from .base import Approx, Expect

FORMAT = "gaussianlog"
FILENAME = "gen.log"
EXPLICIT_FMT = False
SOURCES = [
    "Gaussian IOps reference, overlay 3, IOp(3/33) (https://gaussian.com/overlay3/): which matrices are printed",
    "real Gaussian 03 logs /repo/iodata/test/data/water_sto3g_hf_g03.log and water_ccpvdz_pure_hf_g03.log: literal headers, Fortran edit "
    "descriptors (I7,5D14.6 lower-triangular blocks of 5 columns; ' I=',I3,' J=',I3,' K=',I3,' L=',I3,' Int=',D20.12)",
]
CLASSES = [f"nbasis_{n}" for n in range(1, 13)] + ["no_two_electron", "no_one_electron", "only_overlap_kinetic", "potential_sign_core",
                                                    "multipole_matrices", "extreme_exponents"]


def fortran_d(v, width, digits):
    """Fortran Dw.d edit descriptor: 0.dddddD+ee, right-justified in width."""
    if v == 0.0:
        s = "0." + "0" * digits + "D+00"
    else:
        mant, exp = f"{abs(v):.{digits - 1}E}".split("E")
        exp = int(exp) + 1
        s = "0." + mant.replace(".", "") + f"D{exp:+03d}"
        if v < 0:
            s = "-" + s
    return s.rjust(width)


def _rd(a, digits):
    a = np.asarray(a, dtype=float)
    return np.array([float(fortran_d(v, 30, digits).replace("D", "E")) for v in a.ravel()]).reshape(a.shape)


def _sym(rng, n, lo, hi, digits=6):
    a = rng.uniform(-1, 1, size=(n, n)) * 10.0 ** rng.integers(lo, hi + 1, size=(n, n))
    a[rng.uniform(size=(n, n)) < 0.15] = 0.0
    a = np.tril(a) + np.tril(a, -1).T
    return _rd(a, digits)


def generate(rng, klass):
    if klass.startswith("nbasis_"):
        n = int(klass.split("_")[1])
    else:
        n = int(rng.integers(2, 10))
    lo, hi = (-12, 4) if klass == "extreme_exponents" else (-3, 2)
    olp = _sym(rng, n, -3, 0)
    olp[np.diag_indices(n)] = 1.0
    kin = _sym(rng, n, lo, hi)
    kin[np.diag_indices(n)] = np.abs(kin[np.diag_indices(n)]) + 0.5
    kin = _rd(kin, 6)
    pot = _sym(rng, n, lo, hi)
    pot[np.diag_indices(n)] = np.abs(pot[np.diag_indices(n)]) + 1.0
    pot = _rd(pot, 6)
    core = _rd(kin - pot, 6)
    # symmetry-unique two-electron integrals (ij|kl), i>=j, k>=l, ij>=kl
    two = []
    for i in range(n):
        for j in range(i + 1):
            for k in range(i + 1):
                for ll in range(k + 1):
                    if i * (i + 1) // 2 + j < k * (k + 1) // 2 + ll:
                        continue
                    if rng.uniform() < 0.2:
                        continue
                    v = rng.uniform(-1, 1) * 10.0 ** int(rng.integers(lo if klass == "extreme_exponents" else -6, 2))
                    two.append((i, j, k, ll, float(_rd(v, 12))))
    order = rng.permutation(len(two))
    two = [two[int(o)] for o in order]
    m = {
        "klass": klass, "nbasis": n, "olp": olp, "kin": kin, "pot": pot, "core": core, "two": two,
        "multipole": [_sym(rng, n, -3, 1) for _ in range(3)] if klass in ("multipole_matrices", "potential_sign_core") else [],
        "sections": {
            "no_two_electron": ["olp", "kin", "pot", "core"],
            "no_one_electron": ["two"],
            "only_overlap_kinetic": ["olp", "kin", "two"],
        }.get(klass, ["olp", "kin", "pot", "core", "two"]),
    }
    m["features"] = [klass, f"nbasis={n}", f"n%5={n % 5}", "sections=" + "+".join(m["sections"]), f"ntwo={len(two)}"]
    return m


def _matrix(a, out):
    n = a.shape[0]
    for j0 in range(0, n, 5):
        cols = range(j0, min(j0 + 5, n))
        out.append(" " * 7 + "".join(f"{c + 1:10d}    " for c in cols).rstrip())
        for i in range(j0, n):
            out.append(f"{i + 1:7d}" + "".join(fortran_d(a[i, j], 14, 6) for j in cols if j <= i))


STRIP = ["", "", "           ---===### Stripped irrelevant parts for the test. ###===---", "", ""]


def write(m):
    n = m["nbasis"]
    sec = m["sections"]
    out = [" Entering Gaussian System, Link 0=g03", " ******************************************", " Gaussian 03:  AM64L-G03RevD.01 13-Oct-2005",
           " ******************************************", " #p hf/gen scf(conventional) iop(3/33=5) extralinks=l316 iop(3/27=999)", ""]
    out += [" One-electron integrals computed using PRISM.", " Entering OneElI...", " OneElI was handed  6271371 working-precision words.",
            " Calculate overlap and kinetic energy integrals", f"    NBasis ={n:4d}  MinDer = 0  MaxDer = 0", " Requested accuracy = 0.1000D-12",
            " Overlap and Kinetic Integrals", " Derivative Range = 0 to 2  Logicals = T F F F F F", "", "                   C37 =       0",
            "                   C38 =       0", " Prsmar:                       9      1     29      5821       840       324       412       624"]
    if "olp" in sec:
        out.append(" *** Overlap ***")
        _matrix(m["olp"], out)
    if "kin" in sec:
        out.append(" *** Kinetic Energy ***")
        _matrix(m["kin"], out)
    out += [" Entering OneElI...", " OneElI was handed  6271371 working-precision words.", " Calculate potential energy integrals",
            f"    NBasis ={n:4d}  MinDer = 0  MaxDer = 0", " Requested accuracy = 0.1000D-12", " Nuclear Attraction Integrals",
            " The Coulomb operator will be used", "                   C37 =      40", "                   C38 =      92",
            " Prsmar:                       9      1      1       450       314        27       228      1669"]
    if "pot" in sec:
        out.append(" ***** Potential Energy *****")
        _matrix(m["pot"], out)
    if "core" in sec:
        out.append(" ****** Core Hamiltonian ******")
        _matrix(m["core"], out)
    for ix, mat in enumerate(m["multipole"]):
        out.append(f" Multipole matrices IBuc=  518 IX={ix + 1:5d} IJ=           1:")
        _matrix(mat, out)
    out += [" ReDoC1: IPurDI=1 IPurFI=1 IPurDO=0 IPurFO=0."]
    out += [" Leave Link  302 at Tue Mar  6 13:48:04 2012, MaxMem=    6291456 cpu:       0.1", " (Enter /opt/gaussian/g03_D1_amd64/g03/l316.exe)"]
    if "two" in sec:
        out += [" *** Dumping Two-Electron integrals ***", "", "", "", " ISMode= 1 Mode= 2 IBase=         1 IBasD=         1    131073",
                " DBase=     65537 DBasD=     65537    196609 IReset=         1         1",
                f" IntCnt=         0 ITotal={len(m['two']):10d} NWIIB=    131072 ISym2E=0"]
        for i, j, k, ll, v in m["two"]:
            out.append(f" I={i + 1:3d} J={j + 1:3d} K={k + 1:3d} L={ll + 1:3d} Int=" + fortran_d(v, 20, 12))
    out += [" Leave Link  316 at Tue Mar  6 13:48:04 2012, MaxMem=    6291456 cpu:       0.0", " (Enter /opt/gaussian/g03_D1_amd64/g03/l401.exe)",
            " Harris functional with IExCor=  205 diagonalized for initial guess.", " SCF Done:  E(RHF) =  -74.9659011183     A.U. after    7 cycles",
            " Job cpu time:  0 days  0 hours  0 minutes  0.3 seconds.", " Normal termination of Gaussian 03 at Tue Mar  6 13:48:04 2012."]
    return "\n".join(out) + "\n"


def _er_phys(m):
    n = m["nbasis"]
    chem = np.zeros((n, n, n, n))
    for i, j, k, ll, v in m["two"]:
        for a, b, c, d in ((i, j, k, ll), (j, i, k, ll), (i, j, ll, k), (j, i, ll, k), (k, ll, i, j), (ll, k, i, j), (k, ll, j, i), (ll, k, j, i)):
            chem[a, b, c, d] = v
    # <ik|jl> (physicists) = (ij|kl) (chemists)
    return chem.transpose(0, 2, 1, 3)


def expected(m):
    sec = m["sections"]
    exp = Expect()
    tol6 = dict(atol=0.0, rtol=0.5e-5)       # D14.6: six significant digits
    if "olp" in sec:
        exp[("one_ints", "olp")] = Approx(m["olp"], **tol6)
    if "kin" in sec:
        exp[("one_ints", "kin_ao")] = Approx(m["kin"], **tol6)
    if m["klass"] == "potential_sign_core":
        exp[("one_ints", "na_ao")] = Approx(-m["pot"], **tol6)
        exp[("one_ints", "core_ao")] = Approx(m["core"], **tol6)
    if "two" in sec:
        exp[("two_ints", "er_ao")] = Approx(_er_phys(m), atol=0.0, rtol=0.5e-11)
    return exp


# Classes that are generated but NOT asserted by C03 (triage decisions, see DESIGN.md section 7): class -> reason
NOT_ASSERTED = {'potential_sign_core': 'sign convention of na_ao is pinned by the repository tests; core Hamiltonian is an omission'}
