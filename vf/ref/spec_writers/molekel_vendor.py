"""Molekel .mkl files as really written by ORCA (orca_2mkl): ORCA's primitive normalisation and sign conventions.

The corpus files h2_sto3g.mkl, ethanol.mkl, li2.mkl decode to orthonormal orbitals with the "orca" encoding of R.vendors
(vendors.validate).  expected() is the TRUE wavefunction; model["vendor"] = "orca", model["expect_warning"] = True.
ORCA only has pure (spherical) d, f, g functions.
"""

from .. import vendors
from . import _wfnmodel as wm
from . import molekel
from .base import WFN

FORMAT = "molekel"
FILENAME = "gen.mkl"
EXPLICIT_FMT = False
SOURCES = molekel.SOURCES + ["ORCA conventions: R.vendors 'orca' (validated on /repo/iodata/test/data/*.mkl and nh3_orca.molden)"]

_CLASSES = {
    "orca_sp": ([(1, "c")], "restricted"),
    "orca_d": ([(1, "c"), (2, "p")], "restricted"),
    "orca_f": ([(2, "p"), (3, "p")], "restricted"),
    "orca_g": ([(2, "p"), (3, "p"), (4, "p")], "restricted"),
    "orca_unrestricted": ([(1, "c"), (2, "p"), (3, "p")], "unrestricted"),
}
CLASSES = list(_CLASSES)


def generate(rng, klass):
    ltypes, mo_kind = _CLASSES[klass]
    natom = int(rng.integers(1, 3)) if any(l >= 3 for l, _ in ltypes) else None
    model = molekel.build_model(rng, klass, ltypes, mo_kind, True, natom=natom, nbasis_max=30)
    model["printed"] = vendors.encode("orca", model["wfn"], rng)
    model["vendor"] = "orca"
    model["expect_warning"] = True
    model["expected_fix"] = "orca"
    model["features"] = ["vendor=orca"] + model["features"]
    return model


def write(model):
    return molekel.render(model, model["printed"], producer="ORCA")


def expected(model):
    exp = molekel.expected(model)
    exp[WFN] = wm.public_wfn(model["wfn"])
    return exp


# Relative tolerance of the wavefunction comparison: coordinates may be given in angstrom (CODATA drift of the conversion factor,
# 7e-10 relative, acts on tight functions through 2 alpha r) and numbers are printed with 12-13 significant digits.
WFN_REL_TOL = 2e-5
