"""FCIDUMP writer (Knowles & Handy full-CI integral file, as also written by Molpro, Psi4, PySCF, ...).

Layout (P.J. Knowles, N.C. Handy, Comput. Phys. Commun. 54 (1989) 75, section on input data):
  Fortran NAMELIST group &FCI with NORB (number of orbitals), NELEC (number of electrons), MS2 (2*M_S), ORBSYM (NORB irrep labels),
  ISYM (state symmetry); being a namelist, the group may sit on one line or be spread over several lines and is terminated by
  &END (Fortran-77 extension style used in the paper) or by '/' (Fortran-90 style, Molpro >= 2012).
  Then one record per integral, read in free format  READ(*,*) X, I, J, K, L :
      I,J,K,L > 0          two-electron integral (IJ|KL) in chemists' (Mulliken) notation
      K = L = 0            one-electron integral h(I,J)
      I = J = K = L = 0    core (frozen-core + nuclear repulsion) energy
  Orbital indices are 1-based.  Only one member of every class of permutationally equivalent integrals
  ((ij|kl) = (ji|kl) = (ij|lk) = (ji|lk) = (kl|ij) = (lk|ij) = (kl|ji) = (lk|ji), h(i,j) = h(j,i)) is listed and integrals that
  are zero (e.g. by symmetry) are omitted; the reading loop dispatches on the indices of each record, so the order of records is
  not significant.
iodata documents: one_ints["core_mo"], two_ints["two_mo"] in physicists' notation <ij|kl> = (ik|jl), i.e.
two_mo[i,k,j,l] = (ij|kl); nelec = NELEC, spinpol = MS2, core_energy.
"""

import numpy as np

from . import _vasp
from .base import Approx, Exact, Expect

FORMAT = "fcidump"
FILENAME = "gen.FCIDUMP"
EXPLICIT_FMT = False
SOURCES = [
    "P.J. Knowles and N.C. Handy, 'A determinant based full configuration interaction program', Comput. Phys. Commun. 54 (1989) 75: "
    "&FCI NORB=,NELEC=,MS2=,ORBSYM=,ISYM= namelist terminated by &END, integral records X,I,J,K,L in free format, (IJ|KL) chemists' "
    "notation, K=L=0 one-electron, all indices 0 core energy",
    "Molpro manual, section 'FCI program' / 'FCIDUMP' ({FCI;DUMP}): same file, header written as ' &FCI NORB=..,NELEC=..,MS2=..,' / "
    "'  ORBSYM=..,' / '  ISYM=..,' / ' /' (Fortran-90 namelist terminator), records (E24.16 or similar, 4I4)",
    "Fortran 2003 standard, 10.10 namelist formatting: name=value pairs separated by commas/blanks/record ends, terminated by '/'",
]
CLASSES = ["header_lines_end", "header_lines_slash", "header_one_line_end", "header_one_line_slash", "header_spread",
           "norb1", "random_permutation", "random_order", "sparse", "orbsym", "no_core_energy", "open_shell"]


def _perms(i, j, k, l):
    return [(i, j, k, l), (j, i, k, l), (i, j, l, k), (j, i, l, k), (k, l, i, j), (l, k, i, j), (k, l, j, i), (l, k, j, i)]


def generate(rng, klass):
    norb = int(rng.integers(1, 7))
    header = "lines_slash"
    perm = order = False
    pzero = 0.15
    core = True
    use_sym = False
    if klass.startswith("header_"):
        header = klass[len("header_"):]
    elif klass == "norb1":
        norb = 1
    elif klass == "random_permutation":
        perm = True
        norb = int(rng.integers(2, 7))
    elif klass == "random_order":
        perm = order = True
        norb = int(rng.integers(2, 7))
    elif klass == "sparse":
        pzero = 0.6
        norb = int(rng.integers(2, 7))
    elif klass == "orbsym":
        use_sym = True
        norb = int(rng.integers(2, 7))
        pzero = 0.0
    elif klass == "no_core_energy":
        core = False
    elif klass == "open_shell":
        pass
    else:
        raise ValueError(klass)
    nelec = int(rng.integers(1, 2 * norb + 1))
    smax = min(nelec, 2 * norb - nelec)
    choices = list(range(nelec % 2, smax + 1, 2))
    ms2 = int(rng.choice(choices))
    if klass == "open_shell":
        if max(choices) == 0:
            nelec = 1
            choices = [1]
        ms2 = int(rng.choice([c for c in choices if c > 0]))
    orbsym = [int(s) for s in rng.integers(1, 9, size=norb)] if use_sym else [1] * norb

    def allowed(*idx):
        x = 0
        for a in idx:
            x ^= orbsym[a - 1] - 1
        return x == 0

    two, one = [], []
    for i in range(1, norb + 1):
        for j in range(1, i + 1):
            for k in range(1, i + 1):
                for l in range(1, k + 1):
                    if i * (i + 1) // 2 + j < k * (k + 1) // 2 + l:
                        continue
                    if not allowed(i, j, k, l) or rng.uniform() < pzero:
                        continue
                    v = float(rng.choice([-1.0, 1.0])) * (0.1 * i + 0.01 * j + 0.001 * k + 0.0001 * l + float(rng.uniform(0, 9e-5)))
                    v *= 10.0 ** int(rng.choice([0, 0, 0, -3, -8]))
                    two.append([v, i, j, k, l])
    for i in range(1, norb + 1):
        for j in range(1, i + 1):
            if not allowed(i, j) or (i != j and rng.uniform() < pzero):
                continue
            one.append([-(1.0 + 0.1 * i + 0.01 * j + float(rng.uniform(0, 9e-4))), i, j, 0, 0])
    records = two + one
    if core:
        records.append([float(rng.uniform(-20, 20)), 0, 0, 0, 0])
    # the values the printed text denotes
    for rec in records:
        rec[0] = _vasp.fortran_e(rec[0], 24, 16)[1]
    listed = []
    for v, i, j, k, l in records:
        if perm and i > 0:
            cand = _perms(i, j, k, l) if k > 0 else [(i, j, 0, 0), (j, i, 0, 0)]
            i, j, k, l = cand[int(rng.integers(len(cand)))]
        listed.append((v, i, j, k, l))
    if order:
        listed = [listed[p] for p in rng.permutation(len(listed))]
    return {
        "norb": norb, "nelec": nelec, "ms2": ms2, "orbsym": orbsym, "isym": 1, "header": header, "records": records, "listed": listed,
        "core": core,
        "features": [klass, f"norb={norb}", f"header={header}", "perm" if perm else "canonical_indices",
                     "shuffled" if order else "molpro_order", "core" if core else "nocore", "ms2=0" if ms2 == 0 else "ms2>0",
                     "closed" if nelec == 2 * norb else "partial"],
    }


def write(model):
    norb, nelec, ms2 = model["norb"], model["nelec"], model["ms2"]
    sym = ",".join(str(s) for s in model["orbsym"])
    h = model["header"]
    if h in ("lines_end", "lines_slash"):
        lines = [f" &FCI NORB={norb:3d},NELEC={nelec:3d},MS2={ms2:2d},", f"  ORBSYM={sym},", f"  ISYM={model['isym']},",
                 " &END" if h == "lines_end" else " /"]
    elif h == "one_line_end":
        lines = [f" &FCI NORB={norb},NELEC={nelec},MS2={ms2},ORBSYM={sym},ISYM={model['isym']}, &END"]
    elif h == "one_line_slash":
        lines = [f" &FCI NORB={norb},NELEC={nelec},MS2={ms2},ORBSYM={sym},ISYM={model['isym']} /"]
    elif h == "spread":
        lines = [f" &FCI NORB={norb:3d},", f"  NELEC={nelec:3d},", f"  MS2={ms2:2d},", f"  ORBSYM={sym},", f"  ISYM={model['isym']},", " &END"]
    else:
        raise ValueError(h)
    for v, i, j, k, l in model["listed"]:
        lines.append(f"{_vasp.fortran_e(v, 24, 16)[0]}{i:4d}{j:4d}{k:4d}{l:4d}")
    return "\n".join(lines) + "\n"


def expected(model):
    n = model["norb"]
    eri = np.zeros((n, n, n, n))  # chemists' notation (ij|kl)
    h1 = np.zeros((n, n))
    ecore = None
    for v, i, j, k, l in model["records"]:
        if i == 0:
            ecore = v
        elif k == 0:
            h1[i - 1, j - 1] = h1[j - 1, i - 1] = v
        else:
            for a, b, c, d in _perms(i - 1, j - 1, k - 1, l - 1):
                eri[a, b, c, d] = v
    exp = Expect({
        ("nelec",): Exact(model["nelec"]),
        ("spinpol",): Exact(model["ms2"]),
        ("one_ints", "core_mo"): Approx(h1, atol=1e-15),
        # physicists' <ik|jl> = chemists' (ij|kl):  two_mo[i,k,j,l] = eri[i,j,k,l]
        ("two_ints", "two_mo"): Approx(eri.transpose(0, 2, 1, 3), atol=1e-15),
    })
    if ecore is not None:
        exp[("core_energy",)] = Approx(ecore, atol=1e-14)
    return exp
