"""Interface of R.spec_writers: independent, specification-following writers used as oracles (C03, C04, C13, C05).

A writer module `vf/ref/spec_writers/<name>.py` provides

    FORMAT      iodata format name the file is meant for (e.g. "sdf")
    FILENAME    a file name for which iodata selects that format (e.g. "gen.sdf"); EXPLICIT_FMT = True when the
                format must be passed explicitly (json_qcschema, extxyz, qchemlog)
    SOURCES     list of strings: the public specification(s) the layout was taken from
    generate(rng, klass) -> model
                a random *model*: plain dict of numbers/strings/arrays in the units OF THE FILE FORMAT's own
                conventions or in atomic units (documented per writer), plus model["features"] = [str, ...] naming
                the input classes the model exercises (field-width boundaries crossed, optional sections absent...).
                `klass` is one of CLASSES (each class must be generated when asked).
    CLASSES     list of class names (e.g. ["small", "touching_counts", "wide_coords", "negative", "no_optional"])
    write(model) -> str
                the file text, following the PUBLIC specification (column positions, units, index bases, record
                order) - never iodata's writer, never adapted to what iodata's reader happens to accept.
    expected(model) -> Expect
                what a correct reader must return for this file: {path: Exact(value) | Approx(value, atol)},
                paths are tuples, e.g. ("atcoords",), ("extra", "chainids"), ("atcharges", "mulliken"),
                ("moments", (1, "c")), ("cube", "data").  All dimensional values in ATOMIC UNITS (use R.units).
                atol = half a unit in the last digit the writer prints, times the unit factor.
                Optional key WFN (see below) describes a wavefunction semantically.
    frames(model) (optional, for load_many formats): list of per-frame Expect objects; write() then emits all frames.

Wavefunction formats (fchk, molden, molekel, wfn, wfx, mwfn, cp2klog): the basis set and orbitals are compared as
FUNCTIONS OF SPACE by the check, not array by array.  expected()[WFN] is a dict

    {"atcoords": (natom,3) bohr,
     "shells": [{"icenter": i, "l": l, "kind": "c"|"p", "exponents": [...], "coeffs": [...]}, ...]
               contraction coefficients for L2-NORMALISED primitives (docs/basis.rst), one entry per contraction
     "conventions": {(l, kind): [labels]}   order/sign of the functions of each shell in which "mo_coeffs" rows are given
     "mo_kind": "restricted"|"unrestricted"|"generalized", "norba": .., "norbb": ..,
     "mo_coeffs": (nbasis, norb) array, "mo_occs": [...], "mo_energies": [...] (or None)}
"""

import numpy as np

WFN = "@wavefunction"


class Exact:
    def __init__(self, value):
        self.value = value

    def __repr__(self):
        return f"Exact({self.value!r})"


class Approx:
    def __init__(self, value, atol=0.0, rtol=0.0):
        self.value = value
        self.atol = atol
        self.rtol = rtol

    def __repr__(self):
        return f"Approx({self.value!r}, atol={self.atol}, rtol={self.rtol})"


class Absent:
    """The attribute / key must be None or missing."""


class Expect(dict):
    pass


def resolve(obj, path):
    cur = obj
    for key in path:
        if cur is None:
            raise KeyError(path)
        if isinstance(cur, dict):
            cur = cur[key]
        elif isinstance(key, str) and hasattr(cur, key):
            cur = getattr(cur, key)
        elif isinstance(key, int):
            cur = cur[key]
        else:
            raise KeyError(path)
    return cur


def compare(loaded, expect):
    """Return a list of (path, got, want, note) mismatches."""
    out = []
    for path, want in expect.items():
        if path == WFN:
            continue
        try:
            got = resolve(loaded, path)
        except (KeyError, IndexError, TypeError):
            if isinstance(want, Absent) or want is Absent:
                continue
            out.append((path, "<missing>", _short(getattr(want, "value", want)), "missing"))
            continue
        if isinstance(want, Absent) or want is Absent:
            if got is not None:
                out.append((path, _short(got), None, "should be absent"))
            continue
        if isinstance(want, Exact):
            w = want.value
            if isinstance(w, np.ndarray) or isinstance(got, np.ndarray):
                g = np.asarray(got)
                w = np.asarray(w)
                if g.shape != w.shape:
                    out.append((path, f"shape {g.shape}", f"shape {w.shape}", "shape"))
                elif g.dtype.kind in "fiub" and w.dtype.kind in "fiub":
                    if not np.array_equal(g, w):
                        idx = tuple(int(i) for i in np.argwhere(g != w)[0])
                        out.append((path + (idx,), _short(g[idx]), _short(w[idx]), f"{int((g != w).sum())} elements differ"))
                elif [str(x) for x in g.ravel()] != [str(x) for x in w.ravel()]:
                    out.append((path, _short(g.tolist()), _short(w.tolist()), "labels differ"))
            elif isinstance(w, float) or isinstance(got, float):
                if got is None or float(got) != float(w):
                    out.append((path, got, w, "value"))
            elif got != w:
                out.append((path, _short(got), _short(w), "value"))
        elif isinstance(want, Approx):
            if got is None:
                out.append((path, None, _short(want.value), "missing"))
                continue
            g = np.asarray(got, dtype=float)
            w = np.asarray(want.value, dtype=float)
            if g.shape != w.shape:
                out.append((path, f"shape {g.shape}", f"shape {w.shape}", "shape"))
                continue
            tol = want.atol + want.rtol * np.abs(w)
            bad = ~((np.abs(g - w) <= tol) | (np.isnan(g) & np.isnan(w)))
            if bad.any():
                if g.ndim == 0:
                    out.append((path, float(g), float(w), f"differs by {abs(float(g) - float(w)):.3e} > {float(tol):.1e}"))
                else:
                    idx = tuple(int(i) for i in np.argwhere(bad)[0])
                    ratio = g[idx] / w[idx] if w[idx] != 0 else float("inf")
                    out.append((path + (idx,), float(g[idx]), float(w[idx]), f"{int(bad.sum())} of {g.size} elements differ; ratio {ratio:.9g}"))
        else:
            raise TypeError(f"expectation for {path} must be Exact/Approx/Absent")
    return out


def _short(x):
    s = repr(x)
    return s if len(s) < 160 else s[:160] + "..."
