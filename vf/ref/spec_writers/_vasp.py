"""Shared pieces of the VASP writers (POSCAR header, Fortran edit descriptors, volumetric blocks).

Not a writer itself (name starts with '_', skipped by the registry).

Specification used (VASP manual / wiki, pages "POSCAR", "CHGCAR", "LOCPOT", "CHG"):
  line 1      comment
  line 2      universal scaling factor s.  s > 0: lattice vectors and Cartesian positions are multiplied by s.
              s < 0: |s| is the total cell volume in A^3; the effective factor is (|s| / |det A|)**(1/3).
  lines 3-5   lattice vectors a1, a2, a3 (one per line, angstrom before scaling)
  line 6      species names (VASP 5), line 7 number of atoms per species (a species may occur in several blocks)
  line 8      optional "Selective dynamics" (only the first character, S or s, counts)
  next        "Direct" or "Cartesian": only the first character counts; C, c, K, k = Cartesian, anything else = direct
  positions   one line per atom, three numbers (+ three logical flags T/F with selective dynamics).
              direct: r = x1 a1 + x2 a2 + x3 a3 (a_i including the scaling); Cartesian: r = s * (x, y, z).
  volumetric  blank line, "NGX NGY NGZ", then values with x the fastest and z the slowest index,
              WRITE(IU,FORM) (((C(NX,NY,NZ),NX=1,NGX),NY=1,NGY),NZ=1,NGZ); grid point (i,j,k) sits at
              i/NGX a1 + j/NGY a2 + k/NGZ a3.  CHGCAR: 5 values per line, (1X,E17.11), value = rho(r) * V_cell
              (V_cell in A^3, rho in e/A^3 -> the product is dimensionless), followed by the PAW "augmentation occupancies".
              CHG: same content, 10 values per line, (1X,G11.5).  LOCPOT: potential in eV, 5 values per line (1X,E17.11).
"""

import numpy as np

from .. import elements, units
from .base import Approx, Exact

SOURCES_HEADER = [
    "VASP manual/wiki, page 'POSCAR' (https://www.vasp.at/wiki/index.php/POSCAR): comment, scaling factor (negative = cell volume), "
    "lattice vectors, species names, ions per species, optional 'Selective dynamics', Direct|Cartesian (first character C/c/K/k = "
    "Cartesian), positions; Cartesian positions are scaled by the scaling factor",
]


# ---------------------------------------------------------------- Fortran edit descriptors

def fortran_e(x, w, d):
    """Fortran Ew.d output of x (mantissa 0.ddd, optional leading zero dropped when the field is full, exponent
    E+xx, or +xxx without the letter when |exponent| > 99).  Returns (text, value_the_text_denotes, half_last_digit)."""
    if x == 0.0:
        digits, exp = "0" * d, 0
    else:
        m, e = f"{abs(x):.{d - 1}e}".split("e")
        digits, exp = m.replace(".", ""), int(e) + 1
    etxt = f"E{exp:+03d}" if abs(exp) < 100 else f"{exp:+04d}"
    sign = "-" if x < 0 else ""
    body = "." + digits + etxt
    txt = sign + "0" + body if len(sign) + 1 + len(body) <= w else sign + body
    val = float(f"{sign}0.{digits}e{exp}")
    return txt.rjust(w), val, 0.5 * 10.0 ** (exp - d)


def fortran_g(x, w, d):
    """Fortran Gw.d output: F(w-4).(d-k) followed by four blanks when 0.1 <= |x| < 10**d, otherwise Ew.d."""
    if x == 0.0:
        txt = f"{0.0:.{d - 1}f}"
        return txt.rjust(w - 4) + "    ", 0.0, 0.5 * 10.0 ** (-(d - 1))
    m, e = f"{abs(x):.{d - 1}e}".split("e")
    k = int(e) + 1
    if 0 <= k <= d:
        txt = f"{x:.{d - k}f}"
        val = float(txt)
        if d == k:
            txt += "."
        if len(txt) > w - 4 and txt.lstrip("-").startswith("0."):
            txt = txt.replace("0.", ".", 1)
        return txt.rjust(w - 4) + "    ", val, 0.5 * 10.0 ** (-(d - k))
    return fortran_e(x, w, d)


# ---------------------------------------------------------------- header model

COMMON = [1, 3, 5, 6, 7, 8, 9, 11, 12, 13, 14, 15, 16, 17, 20, 22, 26, 29, 30, 31, 33, 38, 40, 47, 56, 74, 78, 79, 82, 92]


def gen_cell(rng, kind, ndec):
    """3x3 lattice (rows = vectors, angstrom before scaling), rounded to ndec decimals."""
    while True:
        if kind == "cubic":
            a = np.eye(3) * round(float(rng.uniform(3, 15)), 3)
        elif kind == "ortho":
            a = np.diag(rng.uniform(2, 15, size=3))
        else:
            a = np.diag(rng.uniform(3, 12, size=3)) + rng.uniform(-2.5, 2.5, size=(3, 3))
        a = np.round(a, ndec)
        det = np.linalg.det(a)
        if abs(det) < 5.0:
            continue
        if kind == "lefthanded" and det > 0:
            a[[0, 1]] = a[[1, 0]]
        if kind in ("triclinic",) and det < 0:
            a[[0, 1]] = a[[1, 0]]
        return a


def gen_header(rng, *, cell="ortho", scale=1.0, cartesian=False, selective=False, species=None, style=None, title=None,
               keyword_variants=False):
    style = style or str(rng.choice(["vasp", "hand"]))
    ndec = 16 if style == "vasp" else 6
    lattice = gen_cell(rng, cell, ndec)
    if species is None:
        nblock = int(rng.integers(1, 4))
        syms = [elements.NUM2SYM[int(z)] for z in rng.choice(COMMON, size=nblock, replace=False)]
        counts = [int(c) for c in rng.integers(1, 5, size=nblock)]
    else:
        syms, counts = species
    natom = sum(counts)
    if cartesian:
        coords = np.round(rng.uniform(-9, 9, size=(natom, 3)), 3) + np.arange(natom)[:, None] * 1e-5
    else:
        coords = np.round(rng.uniform(0, 0.99, size=(natom, 3)), 3) + np.arange(natom)[:, None] * 1e-5
    coords = np.round(coords, ndec)
    if keyword_variants:
        kw_sel = str(rng.choice(["Selective dynamics", "selective dynamics", "Selective", "S", "s"]))
        kw_mode = str(rng.choice(["Cartesian", "cartesian", "Cart", "C", "c", "K", "k", "Kartesisch"]) if cartesian
                      else rng.choice(["Direct", "direct", "D", "d", "Fractional"]))
    else:
        kw_sel, kw_mode = "Selective dynamics", "Cartesian" if cartesian else "Direct"
    return {
        "title": title if title is not None else "generated cell id=%d" % int(rng.integers(0, 10**6)),
        "scale": float(scale), "lattice": lattice, "symbols": list(syms), "counts": list(counts),
        "cartesian": bool(cartesian), "selective": bool(selective), "coords": coords, "style": style,
        "flags": [[bool(b) for b in rng.integers(0, 2, size=3)] for _ in range(natom)],
        "kw_sel": kw_sel, "kw_mode": kw_mode,
    }


def eff_scale(h):
    if h["scale"] > 0:
        return h["scale"]
    return (abs(h["scale"]) / abs(np.linalg.det(h["lattice"]))) ** (1.0 / 3.0)


def cellvecs_au(h):
    return h["lattice"] * eff_scale(h) * units.angstrom


def volume_au(h):
    """Cell volume in bohr**3 (for a negative scaling factor the file states the volume in A^3 directly)."""
    if h["scale"] < 0:
        return abs(h["scale"]) * units.angstrom ** 3
    return abs(np.linalg.det(h["lattice"])) * h["scale"] ** 3 * units.angstrom ** 3


def atnums(h):
    out = []
    for s, c in zip(h["symbols"], h["counts"]):
        out += [elements.SYM2NUM[s]] * c
    return np.array(out, dtype=int)


def atcoords_au(h):
    if h["cartesian"]:
        return h["coords"] * eff_scale(h) * units.angstrom
    return h["coords"] @ cellvecs_au(h)


def header_lines(h):
    vasp = h["style"] == "vasp"
    out = [h["title"]]
    out.append(f"{h['scale']:19.14f}" if vasp else f"  {h['scale']:.10g}")
    for v in h["lattice"]:
        out.append(" " + "".join(f"{x:22.16f}" for x in v) if vasp else "".join(f"{x:13.6f}" for x in v))
    out.append("".join(f"{s:>5s}" for s in h["symbols"]) if vasp else "   " + " ".join(h["symbols"]))
    out.append("".join(f"{c:6d}" for c in h["counts"]) if vasp else "   " + " ".join(str(c) for c in h["counts"]))
    if h["selective"]:
        out.append(h["kw_sel"])
    out.append(h["kw_mode"])
    for x, fl in zip(h["coords"], h["flags"]):
        line = "".join(f"{v:20.16f}" for v in x) if vasp else "".join(f"{v:10.6f}" for v in x)
        if h["selective"]:
            line += "".join(f"{'T' if b else 'F':>4s}" for b in fl) if vasp else " " + " ".join("T" if b else "F" for b in fl)
        out.append(line)
    return out


def header_expect(h):
    mag = float(np.abs(cellvecs_au(h)).sum()) + float(np.abs(atcoords_au(h)).max())
    atol = 1e-12 * max(mag, 1.0)  # the model holds exactly the printed decimals; only floating-point slack is needed
    return {
        ("title",): Exact(h["title"].strip()),
        ("atnums",): Exact(atnums(h)),
        ("cellvecs",): Approx(cellvecs_au(h), atol=atol, rtol=units.RTOL),
        ("atcoords",): Approx(atcoords_au(h), atol=atol, rtol=units.RTOL),
    }


def header_features(h):
    det = np.linalg.det(h["lattice"])
    return [
        "cartesian" if h["cartesian"] else "direct", "selective" if h["selective"] else "noselective",
        "scale=1" if h["scale"] == 1.0 else ("scale<0" if h["scale"] < 0 else "scale!=1"),
        "lefthanded" if det < 0 else "righthanded",
        "orthogonal" if np.allclose(h["lattice"], np.diag(np.diag(h["lattice"]))) else "nonorthogonal",
        f"nblock={len(h['symbols'])}", "repeated_species" if len(set(h["symbols"])) < len(h["symbols"]) else "distinct_species",
        f"style={h['style']}", f"kw={h['kw_mode']}",
    ]


# ---------------------------------------------------------------- volumetric data

def index_values(rng, shape, *, signs=False, wide=False, magnitude=1.0):
    """values[ix,iy,iz] whose leading digits encode (ix+1).(iy+1)(iz+1) so that transposed axes are visible."""
    ix, iy, iz = np.meshgrid(*[np.arange(n) for n in shape], indexing="ij")
    v = (ix + 1) + (iy + 1) * 1e-2 + (iz + 1) * 1e-4 + np.round(rng.uniform(0, 9e-6, size=shape), 7)
    v = v * magnitude
    if wide:
        v = v * 10.0 ** rng.integers(-30, 30, size=shape)
    if signs:
        v = v * rng.choice([-1.0, 1.0], size=shape)
    return v


def grid_lines(values, per_line, fmt):
    """Text lines of a volumetric block (x fastest, z slowest); returns (lines, denoted values, half-last-digit array)."""
    nx, ny, nz = values.shape
    texts, vals, half = [], np.zeros(values.shape), np.zeros(values.shape)
    for k in range(nz):
        for j in range(ny):
            for i in range(nx):
                t, v, h = fmt(float(values[i, j, k]))
                texts.append(" " + t)
                vals[i, j, k], half[i, j, k] = v, h
    lines = ["".join(texts[p:p + per_line]) for p in range(0, len(texts), per_line)]
    return lines, vals, half


def pick_shape(rng, per_line, ragged):
    while True:
        shape = (int(rng.integers(1, 13)), int(rng.integers(1, 11)), int(rng.integers(1, 10)))
        n = shape[0] * shape[1] * shape[2]
        if n > 1 and (n % per_line != 0) == ragged:
            return shape
