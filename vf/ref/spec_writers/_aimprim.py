"""Shared model of the AIMPAC/AIMAll primitive-based wavefunction files (WFN, WFX).  Not a writer itself.

Both formats store a flat list of UNCONTRACTED, UNNORMALISED Cartesian Gaussian primitives

    phi_p(r) = (x-X_c)^a (y-Y_c)^b (z-Z_c)^c exp(-alpha_p |r-R_c|^2)          (AIMPAC manual; AIMAll wfxformat.html)

identified per primitive by (centre c, type code t -> (a,b,c), exponent alpha_p); every MO is
psi_i(r) = sum_p C[p,i] phi_p(r) with the coefficients printed in the file.

Type codes (AIMAll wfxformat.html, section <Primitive Types>; Multiwfn manual 2.5; cross-checked against the
Gaussian-written corpus file he_spdfgh_virtual.wfn, which lists the codes of one shell of every l in Gaussian's own
Cartesian order  f: XXX YYY ZZZ XYY XXY XXZ XZZ YZZ YYZ XYZ = 11 12 13 17 14 15 18 19 16 20,
g: ZZZZ YZZZ YYZZ YYYZ YYYY XZZZ XYZZ XYYZ XYYY XXZZ XXYZ XXYY XXXZ XXXY XXXX = 23 29 32 27 22 28 35 34 26 31 33 30 25 24 21,
h: 36..56 in the order ZZZZZ YZZZZ ... XXXXX):

     1 S | 2 PX 3 PY 4 PZ | 5 DXX 6 DYY 7 DZZ 8 DXY 9 DXZ 10 DYZ
    11 FXXX 12 FYYY 13 FZZZ 14 FXXY 15 FXXZ 16 FYYZ 17 FXYY 18 FXZZ 19 FYZZ 20 FXYZ
    21 GXXXX 22 GYYYY 23 GZZZZ 24 GXXXY 25 GXXXZ 26 GXYYY 27 GYYYZ 28 GXZZZ 29 GYZZZ 30 GXXYY 31 GXXZZ 32 GYYZZ
    33 GXXYZ 34 GXYYZ 35 GXYZZ
    36 HZZZZZ 37 HYZZZZ 38 HYYZZZ 39 HYYYZZ 40 HYYYYZ 41 HYYYYY 42 HXZZZZ 43 HXYZZZ 44 HXYYZZ 45 HXYYYZ 46 HXYYYY
    47 HXXZZZ 48 HXXYZZ 49 HXXYYZ 50 HXXYYY 51 HXXXZZ 52 HXXXYZ 53 HXXXYY 54 HXXXXZ 55 HXXXXY 56 HXXXXX

Semantic description handed to the check (base.WFN): one "shell" per (centre, exponent, l) with a single primitive of
contraction coefficient 1.0 (L2-normalised primitive N(alpha,(a,b,c)) x^a y^b z^c exp(-alpha r^2), docs/basis.rst) holding ALL
Cartesian functions of that l in type-code order ("conventions").  Because the file's primitives are unnormalised,

    mo_coeffs[row(shell, (a,b,c)), i] = C_file[p, i] / N(alpha_p, (a,b,c)),   N = gto.norm_cart

where p is the position at which the file lists that primitive.  The files list the primitives in a different order than
the rows (grouped by type within a contracted group, components in AIMAll / Gaussian / random order), so the rows are a
permutation of the file order; a reader has to undo exactly that permutation.
"""

import numpy as np

from .. import gto

_NAMES = {
    0: ["S"],
    1: ["X", "Y", "Z"],
    2: ["XX", "YY", "ZZ", "XY", "XZ", "YZ"],
    3: ["XXX", "YYY", "ZZZ", "XXY", "XXZ", "YYZ", "XYY", "XZZ", "YZZ", "XYZ"],
    4: ["XXXX", "YYYY", "ZZZZ", "XXXY", "XXXZ", "XYYY", "YYYZ", "XZZZ", "YZZZ", "XXYY", "XXZZ", "YYZZ", "XXYZ", "XYYZ", "XYZZ"],
    5: ["ZZZZZ", "YZZZZ", "YYZZZ", "YYYZZ", "YYYYZ", "YYYYY", "XZZZZ", "XYZZZ", "XYYZZ", "XYYYZ", "XYYYY", "XXZZZ", "XXYZZ",
        "XXYYZ", "XXYYY", "XXXZZ", "XXXYZ", "XXXYY", "XXXXZ", "XXXXY", "XXXXX"],
}
# Gaussian's own order of Cartesian functions within a shell (as seen in Gaussian-written WFN files)
_GAUSSIAN = {
    3: ["XXX", "YYY", "ZZZ", "XYY", "XXY", "XXZ", "XZZ", "YZZ", "YYZ", "XYZ"],
    4: ["ZZZZ", "YZZZ", "YYZZ", "YYYZ", "YYYY", "XZZZ", "XYZZ", "XYYZ", "XYYY", "XXZZ", "XXYZ", "XXYY", "XXXZ", "XXXY", "XXXX"],
}


def _key(name):
    return (name.count("X"), name.count("Y"), name.count("Z"))


def powers(l):
    """(a,b,c) of the functions of angular momentum l in type-code order."""
    return [(0, 0, 0)] if l == 0 else [_key(n) for n in _NAMES[l]]


FIRST_CODE = {0: 1, 1: 2, 2: 5, 3: 11, 4: 21, 5: 36}
NCART = {l: len(_NAMES[l]) for l in _NAMES}
CONVENTIONS = {(l, "c"): (["1"] if l == 0 else [n.lower() for n in _NAMES[l]]) for l in _NAMES}


def component_order(rng, l, how):
    """Order (indices into the type-code order) in which the components of one shell/group are listed in the file."""
    n = NCART[l]
    if how == "random":
        return [int(i) for i in rng.permutation(n)]
    if how == "gaussian" and l in _GAUSSIAN:
        ref = [_key(x) for x in _NAMES[l]]
        return [ref.index(_key(x)) for x in _GAUSSIAN[l]]
    if how in ("aimall", "gaussian"):
        return list(range(n))
    raise ValueError(how)


def sig(x, n):
    """Round to n significant digits."""
    return float(f"{x:.{n - 1}e}")


def fortran_exp(x, width, ndig, ch="D"):
    """Fortran Dw.d / Ew.d output field: [-]0.ddddD+ee right-justified."""
    if x == 0:
        mant, ex = 0.0, 0
    else:
        ex = int(np.floor(np.log10(abs(x)))) + 1
        mant = abs(x) / 10.0**ex
        if round(mant, ndig) >= 1.0:
            mant /= 10
            ex += 1
        mant = round(mant, ndig)
    body = f"{mant:.{ndig}f}"
    assert body.startswith("0.") and abs(ex) < 100
    s = ("-" if x < 0 else "") + body + f"{ch}{'+' if ex >= 0 else '-'}{abs(ex):02d}"
    assert len(s) <= width
    return s.rjust(width)


def parse_real(s):
    """Value of a Fortran real field (D/E exponent letter, or none for three-digit exponents: 0.123-100)."""
    import re
    s = s.strip().replace("D", "E").replace("d", "e")
    s = re.sub(r"(?<=\d)([+-]\d{3})$", r"E\1", s)
    return float(s)


def make_groups(rng, natom, spec):
    """spec: list of (icenter or None, l, ncon).  Returns groups with distinct, index-revealing exponents (7 sig. digits)."""
    groups = []
    used = set()
    for k, (ic, l, ncon) in enumerate(spec):
        ic = int(rng.integers(natom)) if ic is None else ic
        alphas = []
        for _ in range(ncon):
            while True:
                a = sig(float(np.exp(rng.uniform(np.log(0.08), np.log(6.0)))) * (1 + 1e-3 * k), 7)
                if a not in used:
                    used.add(a)
                    break
            alphas.append(a)
        groups.append({"icenter": ic, "l": l, "alphas": sorted(alphas, reverse=True)})
    return groups


def layout(rng, groups, by_type, comp_how):
    """Return (shells, file_prims): shells = [(icenter, l, alpha)] in canonical order; file_prims = [(ishell, icomp)] in
    the order of the file.  by_type: within a group list component 1 for all exponents, then component 2, ...
    (Gaussian WFN style); else shell after shell."""
    shells, prims, orders = [], [], []
    for g in groups:
        first = len(shells)
        for a in g["alphas"]:
            shells.append((g["icenter"], g["l"], a))
        how = comp_how if isinstance(comp_how, str) else comp_how[len(orders) % len(comp_how)]
        order = component_order(rng, g["l"], how)
        orders.append(order)
        ncon = len(g["alphas"])
        bt = by_type if isinstance(by_type, bool) else bool(rng.integers(2))
        if bt:
            prims += [(first + k, c) for c in order for k in range(ncon)]
        else:
            prims += [(first + k, c) for k in range(ncon) for c in order]
    return shells, prims


def row_offsets(shells):
    off, n = [], 0
    for (_ic, l, _a) in shells:
        off.append(n)
        n += NCART[l]
    return off, n


def prim_arrays(shells, prims):
    """centres (1-based), type codes, exponents, powers, row index of every primitive in file order."""
    off, _n = row_offsets(shells)
    cen, typ, exps, pw, rows = [], [], [], [], []
    for ish, ic in prims:
        icenter, l, a = shells[ish]
        cen.append(icenter + 1)
        typ.append(FIRST_CODE[l] + ic)
        exps.append(a)
        pw.append(powers(l)[ic])
        rows.append(off[ish] + ic)
    return cen, typ, exps, pw, rows


def random_file_coeffs(rng, shells, prims, nmo, ndig):
    """Coefficients as they are to be printed (file order): C_model * N(alpha, n), rounded to ndig significant digits."""
    _cen, _typ, exps, pw, _rows = prim_arrays(shells, prims)
    nprim = len(prims)
    cmod = rng.normal(scale=0.6, size=(nprim, nmo))
    cmod[rng.random(size=cmod.shape) < 0.12] = 0.0
    tiny = rng.random(size=cmod.shape) < 0.05
    cmod[tiny] *= 1e-13
    norms = np.array([gto.norm_cart(a, n) for a, n in zip(exps, pw)])
    cfile = cmod * norms[:, None]
    return np.vectorize(lambda v: sig(v, ndig))(cfile)


def wfn_description(atcoords, shells, prims, cfile_printed, mo_kind, norba, norbb, occs, energies):
    """base.WFN dict from the values printed in the file (cfile_printed in file order, shape (nprim, nmo))."""
    _cen, _typ, exps, pw, rows = prim_arrays(shells, prims)
    _off, nrow = row_offsets(shells)
    assert sorted(rows) == list(range(nrow)), "the file must list every Cartesian component of every shell exactly once"
    norms = np.array([gto.norm_cart(a, n) for a, n in zip(exps, pw)])
    c = np.zeros((nrow, cfile_printed.shape[1]))
    c[rows] = cfile_printed / norms[:, None]
    return {
        "atcoords": np.asarray(atcoords, dtype=float),
        "shells": [{"icenter": ic, "l": l, "kind": "c", "exponents": [a], "coeffs": [1.0]} for (ic, l, a) in shells],
        "conventions": CONVENTIONS,
        "mo_kind": mo_kind, "norba": norba, "norbb": norbb,
        "mo_coeffs": c, "mo_occs": np.asarray(occs, dtype=float), "mo_energies": np.asarray(energies, dtype=float),
    }


def orbital_model(rng, kind, nocc=None, nvirt=0, edec=6, elow=-1.5):
    """Occupations, spin codes (1 alpha, 2 beta, 3 alpha and beta) and index-revealing orbital energies.

    kind: "restricted" (occupations 2 / 0), "rohf" (2 ... 1 ... 0), "unrestricted" (alpha block then beta block,
    occupations 1 / 0), "natural" (restricted natural orbitals, fractional occupations summing to an integer).
    """
    nocc = int(rng.integers(1, 5)) if nocc is None else nocc
    if kind == "restricted":
        occs = [2.0] * nocc + [0.0] * nvirt
        spins = [3] * len(occs)
    elif kind == "rohf":
        nsingle = int(rng.integers(1, 3))
        occs = [2.0] * nocc + [1.0] * nsingle + [0.0] * nvirt
        spins = [3] * nocc + [1] * nsingle + [3] * nvirt
    elif kind == "unrestricted":
        na = nocc + int(rng.integers(0, 3))
        nb = nocc
        nva = nvirt
        nvb = nvirt + (na - nb if nvirt else 0)
        occs = [1.0] * na + [0.0] * nva + [1.0] * nb + [0.0] * nvb
        spins = [1] * (na + nva) + [2] * (nb + nvb)
    elif kind == "natural":
        n = nocc + max(nvirt, 1)
        dev = np.round(rng.uniform(0.001, 0.03, size=n), 7)
        occs = [2.0 - d for d in dev[:nocc]] + list(dev[nocc:])
        target = 2.0 * nocc
        occs[-1] = round(occs[-1] + target - sum(occs), 7)
        occs = [round(o, 7) for o in occs]
        spins = [3] * n
    else:
        raise ValueError(kind)
    energies = []
    e = elow
    last = None
    for s in spins:
        if s != last and s == 2:
            e = elow + 0.003
        last = s
        energies.append(round(e, edec))
        e += 0.05 + round(float(rng.uniform(0, 0.2)), 3)
    return np.array(occs), spins, np.array(energies)


def spin_summary(occs, spins):
    """(mo_kind, norba, norbb, n_alpha_electrons, n_beta_electrons)."""
    occs = np.asarray(occs, dtype=float)
    spins = np.asarray(spins)
    if (spins == 2).any():
        return "unrestricted", int((spins == 1).sum()), int((spins == 2).sum()), occs[spins == 1].sum(), occs[spins == 2].sum()
    na = np.where(spins == 3, occs / 2, occs).sum()
    nb = np.where(spins == 3, occs / 2, 0.0).sum()
    if not (spins == 3).any():
        return "unrestricted", len(occs), 0, occs.sum(), 0.0
    return "restricted", len(occs), len(occs), na, nb
