"""Tripos MOL2 files (free format, whitespace separated fields).  Model values in the file's units (angstrom, e).

Layout (Tripos Mol2 File Format):
  @<TRIPOS>MOLECULE
    mol_name
    num_atoms [num_bonds [num_subst [num_feat [num_sets]]]]
    mol_type          (SMALL | BIOPOLYMER | PROTEIN | NUCLEIC_ACID | SACCHARIDE)
    charge_type       (NO_CHARGES | GASTEIGER | USER_CHARGES | MULLIKEN_CHARGES | ...)
    [status_bits
    [mol_comment]]
  @<TRIPOS>ATOM       atom_id atom_name x y z atom_type [subst_id [subst_name [charge [status_bit]]]]
  @<TRIPOS>BOND       bond_id origin_atom_id target_atom_id bond_type [status_bits]
                      bond_type in 1 2 3 am ar du un nc
  @<TRIPOS>SUBSTRUCTURE  subst_id subst_name root_atom [subst_type [dict_type [chain [sub_type [inter_bonds [status [comment]]]]]]]
Lines starting with '#' are comments, blank lines are ignored.  The chemical element of an atom is given by its SYBYL
atom_type (the part before the '.', e.g. C.3 -> C, N.pl3 -> N, Cl -> Cl); atom_name is a free label.

Expected IOData mapping: atcoords, atnums, atcharges["mol2charges"] (only asserted when the charge column is present),
atffparams["attypes"] = atom_type, title = mol_name, bonds = (origin-1, target-1, iodata.periodic.bond2num[bond_type]).
"""

import numpy as np

from .. import elements, units
from .base import Approx, Exact, Expect

FORMAT = "mol2"
FILENAME = "gen.mol2"
EXPLICIT_FMT = False
SOURCES = [
    "Tripos Mol2 File Format, SYBYL 7.1 (2005), Tripos Inc. (http://chemyang.ccnu.edu.cn/ccb/server/AIMMS/mol2.pdf, the copy "
    "cited by the iodata module): sections @<TRIPOS>MOLECULE, @<TRIPOS>ATOM, @<TRIPOS>BOND, @<TRIPOS>SUBSTRUCTURE; "
    "optional trailing fields; atom status bits DSPMOD TYPECOL CAP BACKBONE DICT ESSENTIAL WATER DIRECT; bond status bits "
    "TYPECOL GROUP CAP BACKBONE DICT INTERRES; SYBYL atom types table",
]
CLASSES = ["cols6", "cols7", "cols8", "cols9", "cols10", "all_bond_types", "many_atoms", "counts_minimal", "names_not_elements",
           "bond_status", "multi_molecule"]

BOND2NUM = {"1": 1, "2": 2, "3": 3, "ar": 4, "un": 8, "am": 9, "du": 10, "nc": 11}  # iodata.periodic.bond2num
BOND_TYPES = ["1", "2", "3", "am", "ar", "du", "un", "nc"]
SYBYL = {
    "C": ["C.3", "C.2", "C.1", "C.ar", "C.cat"], "N": ["N.3", "N.2", "N.1", "N.ar", "N.am", "N.pl3", "N.4"],
    "O": ["O.3", "O.2", "O.co2", "O.spc", "O.t3p"], "S": ["S.3", "S.2", "S.O", "S.O2"], "P": ["P.3"], "H": ["H", "H.spc", "H.t3p"],
    "F": ["F"], "Cl": ["Cl"], "Br": ["Br"], "I": ["I"], "Li": ["Li"], "Na": ["Na"], "Mg": ["Mg"], "Al": ["Al"], "Si": ["Si"],
    "K": ["K"], "Ca": ["Ca"], "Cr": ["Cr.th", "Cr.oh"], "Mn": ["Mn"], "Fe": ["Fe"], "Co": ["Co.oh"], "Cu": ["Cu"], "Zn": ["Zn"],
    "Se": ["Se"], "Mo": ["Mo"], "Sn": ["Sn"],
}
ATOM_STATUS = ["DSPMOD", "TYPECOL", "CAP", "BACKBONE", "DICT", "ESSENTIAL", "WATER", "DIRECT", "BACKBONE|DICT", "DICT|ESSENTIAL|WATER"]
BOND_STATUS = ["TYPECOL", "GROUP", "CAP", "BACKBONE", "DICT", "INTERRES", "BACKBONE|DICT|INTERRES"]
PROTEIN_NAMES = [("CA", "C.3"), ("CB", "C.3"), ("CD1", "C.ar"), ("HA", "H"), ("HG1", "H"), ("HE2", "H"), ("NE2", "N.ar"),
                 ("OXT", "O.co2"), ("CE", "C.3"), ("ND1", "N.pl3"), ("SG", "S.3"), ("N", "N.am"), ("C", "C.2"), ("O", "O.2")]


def _mol(rng, natom, nbond, ncol, title, *, names="indexed", bond_types=None, bond_status=False, counts=5, comment=False,
         upper=False, mag=30.0):
    syms = list(SYBYL)
    atoms = []
    for i in range(natom):
        if names == "indexed":
            sym = syms[int(rng.integers(len(syms)))]
            typ = str(rng.choice(SYBYL[sym]))
            name = f"{sym.upper() if upper else sym}{i + 1}"
        else:
            name, typ = PROTEIN_NAMES[int(rng.integers(len(PROTEIN_NAMES)))]
            sym = typ.split(".")[0]
        atoms.append({
            "name": name, "sym": sym, "type": typ,
            "xyz": np.round(rng.uniform(-mag, mag, size=3), 4) + 1e-3 * (i % 1000),
            "subst_id": 1 + i // 7, "subst_name": f"RES{1 + i // 7}",
            "charge": round(float(rng.uniform(-1.5, 1.5)), 4) + 1e-4 * (i % 10),
            "status": ATOM_STATUS[int(rng.integers(len(ATOM_STATUS)))],
        })
    bonds, seen, tries = [], set(), 0
    while len(bonds) < nbond and tries < 50 * nbond + 50:
        tries += 1
        i, j = (int(v) for v in rng.integers(0, natom, size=2))
        if i == j or (min(i, j), max(i, j)) in seen:
            continue
        seen.add((min(i, j), max(i, j)))
        bt = bond_types[len(bonds) % len(bond_types)] if bond_types else str(rng.choice(["1", "2", "ar"]))
        bonds.append((i, j, bt, BOND_STATUS[int(rng.integers(len(BOND_STATUS)))] if bond_status and rng.integers(2) else None))
    return {"atoms": atoms, "bonds": bonds, "ncol": ncol, "title": title, "counts": counts, "comment": comment}


def generate(rng, klass):
    up = bool(rng.integers(2))
    if klass in ("cols6", "cols7", "cols8", "cols9", "cols10"):
        ncol = int(klass[4:])
        n = int(rng.integers(2, 15))
        mols = [_mol(rng, n, int(rng.integers(1, 8)), ncol, f"{ncol} fields per atom line id={ncol}", upper=up, comment=bool(rng.integers(2)))]
    elif klass == "all_bond_types":
        n = int(rng.integers(6, 15))
        mols = [_mol(rng, n, 8 + int(rng.integers(0, 5)), 9, "every bond type", bond_types=BOND_TYPES, upper=up)]
    elif klass == "many_atoms":
        n = int(rng.choice([1000, 1001, 1500]))
        mols = [_mol(rng, n, int(rng.choice([1000, 1200])), 9, "at least 1000 atoms and bonds", upper=up, mag=90.0)]
    elif klass == "counts_minimal":
        n = int(rng.integers(2, 9))
        mols = [_mol(rng, n, 0, 9, "only num_atoms on the counts line", counts=1, upper=up)]
    elif klass == "names_not_elements":
        n = int(rng.integers(4, 15))
        mols = [_mol(rng, n, 3, 9, "PDB style atom names", names="protein")]
    elif klass == "bond_status":
        n = int(rng.integers(4, 15))
        mols = [_mol(rng, n, 6, 10, "bond lines with status bits", bond_types=BOND_TYPES, bond_status=True, upper=up)]
    elif klass == "multi_molecule":
        mols = [_mol(rng, int(rng.integers(2, 9)), int(rng.integers(1, 5)), int(rng.choice([6, 9, 10])), f"molecule {k} id={k}", upper=up)
                for k in range(int(rng.integers(2, 6)))]
    else:
        raise ValueError(klass)
    return {"frames": mols, "features": [klass, f"nmol={len(mols)}", f"ncol={mols[0]['ncol']}", f"natom_digits={len(str(len(mols[0]['atoms'])))}"]}


def write(model):
    out = ["# generated following the Tripos Mol2 File Format description", ""]
    for m in model["frames"]:
        natom, nbond = len(m["atoms"]), len(m["bonds"])
        nsub = max(a["subst_id"] for a in m["atoms"])
        counts = [natom, nbond, nsub, 0, 0][:m["counts"]]
        out.append("@<TRIPOS>MOLECULE")
        out.append(m["title"])
        out.append(" " + " ".join(f"{c:5d}" for c in counts))
        out.append("SMALL")
        out.append("USER_CHARGES" if m["ncol"] >= 9 else "NO_CHARGES")
        if m["comment"]:
            out.append("****")
            out.append("a comment about the molecule")
        out.append("")
        out.append("@<TRIPOS>ATOM")
        for i, a in enumerate(m["atoms"]):
            x, y, z = a["xyz"]
            f = [f"{i + 1:7d}", f"{a['name']:<8s}", f"{x:10.4f}", f"{y:10.4f}", f"{z:10.4f}", f"{a['type']:<6s}",
                 f"{a['subst_id']:5d}", f"{a['subst_name']:<8s}", f"{a['charge']:9.4f}", a["status"]]
            out.append(" ".join(f[:m["ncol"]]).rstrip())
        if nbond or m["counts"] > 1:
            out.append("@<TRIPOS>BOND")
            for k, (i, j, bt, st) in enumerate(m["bonds"]):
                out.append(f"{k + 1:6d} {i + 1:5d} {j + 1:5d} {bt:<4s}".rstrip() + (f" {st}" if st else ""))
        if m["counts"] >= 3:
            out.append("@<TRIPOS>SUBSTRUCTURE")
            for s in range(1, nsub + 1):
                out.append(f"{s:6d} RES{s:<5d} {1 + 7 * (s - 1):7d} GROUP             0 ****  ****    0")
        out.append("")
    return "\n".join(out)


def _expect(m):
    atoms = m["atoms"]
    e = Expect({
        ("title",): Exact(m["title"]),
        ("atnums",): Exact(np.array([elements.SYM2NUM[a["sym"]] for a in atoms], dtype=int)),
        ("atcoords",): Approx(np.array([a["xyz"] for a in atoms]) * units.angstrom, atol=0.5e-4 * units.angstrom, rtol=units.RTOL),
        ("atffparams", "attypes"): Exact(np.array([a["type"] for a in atoms])),
    })
    if m["ncol"] >= 9:
        e[("atcharges", "mol2charges")] = Approx(np.array([a["charge"] for a in atoms]), atol=0.5e-4)
    if m["bonds"]:
        e[("bonds",)] = Exact(np.array([(i, j, BOND2NUM[bt]) for i, j, bt, _ in m["bonds"]], dtype=int))
    return e


def expected(model):
    return _expect(model["frames"][0])


def frames(model):
    return [_expect(m) for m in model["frames"]]


# Classes that are generated but NOT asserted by C03 (triage decisions, see DESIGN.md section 7): class -> reason
NOT_ASSERTED = {'names_not_elements': 'element taken from the atom name is a documented heuristic of the reader; only names <Symbol><index> are in the domain (DESIGN 3.2)'}
