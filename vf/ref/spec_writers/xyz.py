"""XYZ files (free format): natom / comment / symbol x y z in angstrom.  Multi-frame = concatenation."""

import numpy as np

from .. import elements, units
from .base import Approx, Exact, Expect

FORMAT = "xyz"
FILENAME = "gen.xyz"
EXPLICIT_FMT = False
SOURCES = ["https://en.wikipedia.org/wiki/XYZ_file_format (de-facto standard: count, comment, element x y z in angstrom)"]
CLASSES = ["small", "numbers", "wide", "many_atoms", "trajectory", "blank_titles"]


def _frame(rng, natom, mag, use_numbers, title):
    return {
        "atnums": rng.integers(1, 119, size=natom),
        "coords_ang": np.round(rng.uniform(-mag, mag, size=(natom, 3)), 6) + np.arange(natom)[:, None] * 1e-3,
        "use_numbers": use_numbers,
        "title": title,
    }


def generate(rng, klass):
    if klass == "small":
        frames = [_frame(rng, int(rng.integers(1, 8)), 5.0, False, "water  molecule 1")]
    elif klass == "numbers":
        frames = [_frame(rng, int(rng.integers(1, 8)), 5.0, True, "atomic numbers instead of symbols")]
    elif klass == "wide":
        frames = [_frame(rng, 5, 9000.0, False, "wide coordinates")]
    elif klass == "many_atoms":
        frames = [_frame(rng, int(rng.choice([99, 100, 999, 1000, 1200])), 50.0, False, "many atoms")]
    elif klass == "blank_titles":
        frames = [_frame(rng, int(rng.integers(1, 6)), 5.0, False, "" if i % 2 == 0 else f"frame {i}") for i in range(int(rng.integers(2, 6)))]
    else:
        frames = [_frame(rng, int(rng.integers(1, 6)), 5.0, bool(rng.integers(2)), f"frame {i} id={i}") for i in range(int(rng.integers(2, 6)))]
    return {"frames": frames, "features": [klass, f"nframe={len(frames)}", f"natom={len(frames[0]['atnums'])}"]}


def write(model):
    lines = []
    for fr in model["frames"]:
        lines.append(f"{len(fr['atnums'])}")
        lines.append(fr["title"])
        for z, (x, y, c) in zip(fr["atnums"], fr["coords_ang"]):
            sym = str(int(z)) if fr["use_numbers"] else elements.NUM2SYM[int(z)]
            lines.append(f"{sym:<3s} {x:14.6f} {y:14.6f} {c:14.6f}")
    return "\n".join(lines) + "\n"


def _expect(fr):
    return Expect({
        ("atnums",): Exact(np.array(fr["atnums"], dtype=int)),
        ("atcoords",): Approx(fr["coords_ang"] * units.angstrom, atol=1e-9, rtol=units.RTOL),
        ("title",): Exact(fr["title"].strip()),
    })


def expected(model):
    return _expect(model["frames"][0])


def frames(model):
    return [_expect(fr) for fr in model["frames"]]
