"""VASP CHGCAR writer: POSCAR header, blank line, grid dimensions, rho*V_cell (x fastest), augmentation occupancies.

See _vasp.py for the layout.  iodata documents cube.data as the electron density in atomic units, i.e. file value / V_cell with
V_cell in bohr**3 (the file value rho[e/A^3] * V[A^3] is dimensionless), cube.origin = 0 and cube.axes[i] = cellvecs[i] / N_i.
"""

import numpy as np

from .. import units
from . import _vasp
from .base import Approx, Expect

FORMAT = "chgcar"
FILENAME = "CHGCAR_gen"
EXPLICIT_FMT = False
SOURCES = _vasp.SOURCES_HEADER + [
    "VASP manual/wiki, page 'CHGCAR' (https://www.vasp.at/wiki/index.php/CHGCAR): structure in POSCAR format, blank line, NGXF NGYF NGZF, "
    "total charge density multiplied by the cell volume, WRITE(IU,FORM) (((C(NX,NY,NZ),NX=1,NGXC),NY=1,NGYZ),NZ=1,NGZC), "
    "5 values per line in (1X,E17.11), then the PAW one-centre 'augmentation occupancies'",
    "VASP manual/wiki, page 'CHG': same data, 10 values per line in (1X,G11.5)",
]
CLASSES = ["tiny_1x1x1", "ragged", "full_lines", "noncubic", "lefthanded", "scaled", "wide_values", "augmentation", "ten_per_line",
           "largest"]
UNIT = "density"


def _generate(rng, klass, per_line_default=5):
    per_line = per_line_default
    hk = {"cell": "cubic", "style": "vasp"}
    vk = {}
    aug = False
    if klass == "tiny_1x1x1":
        shape = (1, 1, 1)
    elif klass == "ragged":
        shape = _vasp.pick_shape(rng, per_line, True)
        hk["cell"] = "ortho"
    elif klass == "full_lines":
        shape = _vasp.pick_shape(rng, per_line, False)
        hk["cell"] = "ortho"
    elif klass == "noncubic":
        shape = _vasp.pick_shape(rng, per_line, bool(rng.integers(2)))
        hk["cell"] = "triclinic"
    elif klass == "lefthanded":
        shape = _vasp.pick_shape(rng, per_line, bool(rng.integers(2)))
        hk["cell"] = "lefthanded"
    elif klass == "scaled":
        shape = _vasp.pick_shape(rng, per_line, True)
        hk.update(cell=str(rng.choice(["ortho", "triclinic"])), scale=float(rng.choice([0.5291772083, 3.57, 1.8897261, 2.0])),
                  style=str(rng.choice(["vasp", "hand"])))
    elif klass == "wide_values":
        shape = _vasp.pick_shape(rng, per_line, True)
        vk.update(signs=True, wide=True)
    elif klass == "augmentation":
        shape = _vasp.pick_shape(rng, per_line, True)
        aug = True
    elif klass == "ten_per_line":
        per_line = 10
        while True:
            shape = tuple(int(n) for n in rng.integers(1, 10, size=3))
            if shape[0] * shape[1] * shape[2] % 10 != 0:
                break
        vk.update(signs=True)
    elif klass == "largest":
        shape = (12, 10, 9)
        hk["cell"] = "triclinic"
    else:
        raise ValueError(klass)
    h = _vasp.gen_header(rng, **hk)
    h["shape"] = shape
    h["per_line"] = per_line
    h["values"] = _vasp.index_values(rng, shape, magnitude=float(rng.choice([1.0, 100.0, 1e-3])) if klass != "ten_per_line" else 1.0, **vk)
    h["blank"] = str(rng.choice(["", " "]))
    if aug:
        h["augmentation"] = [rng.uniform(-1, 1, size=int(rng.integers(1, 34))) for _ in range(sum(h["counts"]))]
    n = int(np.prod(shape))
    h["features"] = [klass, f"n%{per_line}={n % per_line}", f"shape={'x'.join(map(str, shape))}"] + _vasp.header_features(h)
    return h


def generate(rng, klass):
    return _generate(rng, klass)


def _fmt(per_line):
    if per_line == 10:
        return lambda x: _vasp.fortran_g(x, 11, 5)
    return lambda x: _vasp.fortran_e(x, 17, 11)


def _render(model):
    lines = _vasp.header_lines(model)
    lines.append(model["blank"])
    lines.append("".join(f"{n:5d}" for n in model["shape"]))
    glines, vals, half = _vasp.grid_lines(model["values"], model["per_line"], _fmt(model["per_line"]))
    lines += glines
    for iatom, occ in enumerate(model.get("augmentation", [])):
        lines.append(f"augmentation occupancies{iatom + 1:4d}{len(occ):4d}")
        txt = [" " + _vasp.fortran_e(float(v), 14, 7)[0] for v in occ]
        lines += ["".join(txt[p:p + 5]) for p in range(0, len(txt), 5)]
    return "\n".join(lines) + "\n", vals, half


def write(model):
    return _render(model)[0]


def _expected(model, factor):
    _text, vals, half = _render(model)
    exp = Expect(_vasp.header_expect(model))
    cell = _vasp.cellvecs_au(model)
    shape = np.array(model["shape"], dtype=float)
    exp[("cube", "origin")] = Approx(np.zeros(3), atol=1e-12)
    exp[("cube", "axes")] = Approx(cell / shape[:, None], atol=1e-12 * max(1.0, float(np.abs(cell).max())), rtol=units.RTOL)
    # the model keeps the values the printed text denotes; tolerance = half a unit of the last printed digit
    exp[("cube", "data")] = Approx(vals * factor, atol=half * abs(factor), rtol=units.RTOL)
    return exp


def expected(model):
    return _expected(model, 1.0 / _vasp.volume_au(model))
