"""Semantic comparison of wavefunctions: basis functions and orbitals as functions of space (R.gto)."""

import numpy as np

from . import gto


def model_funcs(wfn):
    shells = [gto._Shell(sh["icenter"], [sh["l"]], [sh["kind"]], sh["exponents"], np.asarray(sh["coeffs"], dtype=float).reshape(-1, 1))
              for sh in wfn["shells"]]
    return gto.expand(gto._Basis(shells, wfn["conventions"]))


def probe_points(atcoords, rng, nper=6):
    pts = []
    for c in np.asarray(atcoords, dtype=float):
        pts.append(c + rng.normal(scale=0.9, size=(nper, 3)))
    return np.concatenate(pts)


def orbital_values(funcs, atcoords, coeffs, pts):
    chi = gto.eval_funcs(funcs, atcoords, pts)
    # the scale of the tolerance is the absolute sum over primitives (cancellation inside a contraction is not hidden)
    return coeffs.T @ chi, np.abs(coeffs).T @ gto.eval_funcs_abs(funcs, atcoords, pts)


def compare_wfn(wfn, loaded, rng, rel_tol=1e-6):
    """Return list of mismatch strings between a model wavefunction dict (see spec_writers.base) and a loaded IOData."""
    out = []
    if loaded.obasis is None or loaded.mo is None:
        return ["loaded object has no basis or no orbitals"]
    f_model = model_funcs(wfn)
    try:
        f_loaded = gto.expand(loaded.obasis)
    except Exception as exc:
        return [f"loaded basis cannot be interpreted: {exc!r}"]
    if len(f_model) != len(f_loaded):
        return [f"number of basis functions {len(f_loaded)} (model {len(f_model)})"]
    mo = loaded.mo
    C = np.asarray(wfn["mo_coeffs"], dtype=float)
    if mo.kind != wfn["mo_kind"]:
        out.append(f"orbital kind {mo.kind} (model {wfn['mo_kind']})")
    if mo.coeffs is None or mo.coeffs.shape != C.shape:
        out.append(f"coefficient matrix shape {None if mo.coeffs is None else mo.coeffs.shape} (model {C.shape})")
        return out
    if wfn["mo_kind"] != "generalized" and (mo.norba != wfn["norba"] or mo.norbb != wfn["norbb"]):
        out.append(f"norba/norbb {mo.norba}/{mo.norbb} (model {wfn['norba']}/{wfn['norbb']})")
    pts = probe_points(wfn["atcoords"], rng)
    # The centres: coordinates are compared on their own (expectation ("atcoords",), tolerance units.RTOL for the drift of the
    # angstrom constant between CODATA releases).  When the loaded centres agree with the model's within that drift, the model
    # functions are evaluated around the LOADED centres, so that a drift of 7e-10 * |r| (1e-7 bohr for atoms 190 bohr from the
    # origin) is not amplified by 2 alpha |r - R| into an apparent difference of the orbitals.
    from . import units

    centres = np.asarray(wfn["atcoords"], dtype=float)
    lc = None if loaded.atcoords is None else np.asarray(loaded.atcoords, dtype=float)
    if lc is not None and lc.shape == centres.shape and (np.abs(lc - centres) <= 2 * units.RTOL * np.abs(centres) + 1e-9).all():
        centres = lc
    pm, sm = orbital_values(f_model, centres, C, pts)
    pl, _ = orbital_values(f_loaded, loaded.atcoords, mo.coeffs, pts)
    bad = np.abs(pm - pl) > rel_tol * sm + 1e-12
    if bad.any():
        j = int(np.argwhere(bad.any(axis=1))[0][0])
        k = int(np.argwhere(bad[j])[0][0])
        out.append(f"orbital {j} is a different function of space: value {pl[j, k]:.8g} at probe point {k}, model {pm[j, k]:.8g} "
                   f"({int(bad.any(axis=1).sum())} of {len(bad)} orbitals differ)")
    for name, key, tol in (("occs", "mo_occs", 1e-9), ("energies", "mo_energies", 1e-9)):
        want = wfn.get(key)
        got = getattr(mo, name)
        if want is None:
            continue
        tol = wfn.get(key + "_atol", tol)
        if got is None or np.shape(got) != np.shape(want) or np.abs(np.asarray(got) - np.asarray(want)).max(initial=0) > tol:
            out.append(f"orbital {name} {None if got is None else np.asarray(got).tolist()[:6]} (model {np.asarray(want).tolist()[:6]})")
    return out
