"""Reference model R.gto: contracted Gaussian basis functions as defined in docs/basis.rst.

Independent of iodata: written from the documentation only, never imports iodata, reads
basis objects by attribute access (shells[i].icenter/angmoms/kinds/exponents/coeffs,
conventions, primitive_normalization).

  * Cartesian primitive  N(a,n) x^nx y^ny z^nz exp(-a r^2),
        N = sqrt((2a/pi)^{3/2} (4a)^l / ((2nx-1)!!(2ny-1)!!(2nz-1)!!))
  * pure primitive       N(a,l) C_lm / S_lm exp(-a r^2),   N = sqrt((2a/pi)^{3/2} (4a)^l/(2l-1)!!)
        C_lm = (-1)^m sqrt(2(l-m)!/(l+m)!) r^l P_l^m(cos th) cos(m phi)   (m>0),  C_l0 = r^l P_l(cos th)
  * label 'xxy' -> (2,1,0), '1' -> (0,0,0), 'c2' -> C_l2, 's2' -> S_l2, leading '-' = sign flip.
"""

from fractions import Fraction
from functools import lru_cache
from math import comb, factorial, pi, sqrt

import numpy as np

# --------------------------------------------------------------------------------------
# polynomials {(nx,ny,nz): coefficient}


def _pmul(p, q):
    out = {}
    for (a, b, c), u in p.items():
        for (d, e, f), v in q.items():
            k = (a + d, b + e, c + f)
            out[k] = out.get(k, 0) + u * v
    return {k: v for k, v in out.items() if v != 0}


def _ppow(p, n):
    out = {(0, 0, 0): Fraction(1)}
    for _ in range(n):
        out = _pmul(out, p)
    return out


def _legendre_coeffs(l):
    """Coefficients q_k of P_l(t) = sum_k q_k t^k (exact)."""
    # P_l(t) = 2^-l sum_k (-1)^k C(l,k) C(2l-2k,l) t^(l-2k)
    q = [Fraction(0)] * (l + 1)
    for k in range(l // 2 + 1):
        q[l - 2 * k] = Fraction((-1) ** k * comb(l, k) * comb(2 * l - 2 * k, l), 2**l)
    return q


@lru_cache(maxsize=None)
def solid_harmonic(l, m, sine):
    """Real regular solid harmonic C_lm (sine=False) or S_lm (sine=True) as a polynomial dict of floats."""
    if m < 0 or m > l or (sine and m == 0):
        raise ValueError("bad (l, m)")
    # Q(t) = d^m P_l / dt^m
    q = _legendre_coeffs(l)
    for _ in range(m):
        q = [k * q[k] for k in range(1, len(q))]
    # r^(l-m) Q(z/r) = sum_k q_k z^k r^(l-m-k), l-m-k even
    r2 = {(2, 0, 0): Fraction(1), (0, 2, 0): Fraction(1), (0, 0, 2): Fraction(1)}
    radial = {}
    for k, qk in enumerate(q):
        if qk == 0:
            continue
        rest = l - m - k
        assert rest >= 0 and rest % 2 == 0
        term = _pmul({(0, 0, k): qk}, _ppow(r2, rest // 2))
        for key, v in term.items():
            radial[key] = radial.get(key, 0) + v
    # Re / Im of (x + i y)^m
    ang = {}
    for j in range(m + 1):
        # C(m,j) x^(m-j) (i y)^j
        phase = j % 4
        if not sine and phase in (0, 2):
            ang[(m - j, j, 0)] = Fraction(comb(m, j) * (1 if phase == 0 else -1))
        if sine and phase in (1, 3):
            ang[(m - j, j, 0)] = Fraction(comb(m, j) * (1 if phase == 1 else -1))
    if m == 0:
        ang = {(0, 0, 0): Fraction(1)}
    poly = _pmul(radial, ang)
    # (-1)^m P_l^m = sin^m Q, so the (-1)^m factors cancel; remaining factor for m > 0
    fac = 1.0 if m == 0 else sqrt(2.0 * factorial(l - m) / factorial(l + m))
    return {k: float(v) * fac for k, v in poly.items()}


def dfact(n):
    """Double factorial with (-1)!! = 1."""
    out = 1
    while n > 1:
        out *= n
        n -= 2
    return out


def parse_label(l, kind, label):
    """Return (sign, polynomial dict, normtype) for a basis-function string.

    normtype is the Cartesian power triple for Cartesian functions and None for pure ones.
    """
    sign = 1
    if label.startswith("-"):
        sign = -1
        label = label[1:]
    if kind == "c":
        if label == "1":
            n = (0, 0, 0)
        else:
            if set(label) - set("xyz"):
                raise ValueError(f"bad Cartesian label {label}")
            n = (label.count("x"), label.count("y"), label.count("z"))
        if sum(n) != l:
            raise ValueError(f"label {label} does not have angular momentum {l}")
        return sign, {n: 1.0}, n
    if kind == "p":
        if label[0] not in "cs":
            raise ValueError(f"bad pure label {label}")
        m = int(label[1:])
        return sign, solid_harmonic(l, m, label[0] == "s"), None
    raise ValueError(f"unknown kind {kind}")


def canonical_labels(l, kind):
    """The set of labels (without sign) that a convention for (l, kind) must contain."""
    if kind == "c":
        if l == 0:
            return {"1"}
        return {
            "x" * nx + "y" * ny + "z" * (l - nx - ny) for nx in range(l + 1) for ny in range(l + 1 - nx)
        }
    return {"c0"} | {f"c{m}" for m in range(1, l + 1)} | {f"s{m}" for m in range(1, l + 1)}


def norm_cart(alpha, n):
    l = sum(n)
    return np.sqrt(
        (2 * alpha / pi) ** 1.5 * (4 * alpha) ** l / (dfact(2 * n[0] - 1) * dfact(2 * n[1] - 1) * dfact(2 * n[2] - 1))
    )


def norm_pure(alpha, l):
    return np.sqrt((2 * alpha / pi) ** 1.5 * (4 * alpha) ** l / dfact(2 * l - 1))


# --------------------------------------------------------------------------------------
# basis expansion


class Func:
    """One contracted basis function."""

    __slots__ = ("icenter", "l", "kind", "label", "sign", "poly", "exps", "dn")

    def __init__(self, icenter, l, kind, label, sign, poly, exps, dn):
        self.icenter = icenter
        self.l = l
        self.kind = kind
        self.label = label
        self.sign = sign
        self.poly = poly
        self.exps = exps
        self.dn = dn  # contraction coefficient times primitive normalisation, per primitive


def expand(obasis):
    """List of Func in the object's own order (shell, contraction, convention order)."""
    if obasis.primitive_normalization != "L2":
        raise ValueError("R.gto only models L2-normalised primitives")
    funcs = []
    for shell in obasis.shells:
        exps = np.asarray(shell.exponents, dtype=float)
        coeffs = np.asarray(shell.coeffs, dtype=float)
        for icon, (l, kind) in enumerate(zip(shell.angmoms, shell.kinds)):
            l = int(l)
            kind = str(kind)
            for label in obasis.conventions[(l, kind)]:
                sign, poly, n = parse_label(l, kind, label)
                norm = norm_cart(exps, n) if n is not None else norm_pure(exps, l)
                funcs.append(Func(int(shell.icenter), l, kind, label, sign, poly, exps, coeffs[:, icon] * norm))
    return funcs


def eval_funcs(funcs, atcoords, points, deriv=False):
    """Values of the functions at the points: array (nfunc, npoint).

    With deriv=True also return the norm of the gradient (nfunc, npoint) and
    d/d(ln alpha) summed in absolute value per primitive (for sensitivity envelopes).
    """
    atcoords = np.asarray(atcoords, dtype=float)
    points = np.asarray(points, dtype=float)
    out = np.zeros((len(funcs), len(points)))
    if deriv:
        grad = np.zeros((len(funcs), len(points), 3))
        dlna = np.zeros((len(funcs), len(points)))
    for i, f in enumerate(funcs):
        d = points - atcoords[f.icenter]
        r2 = (d * d).sum(axis=1)
        rad = (f.dn[:, None] * np.exp(-np.outer(f.exps, r2))).sum(axis=0)
        ang = np.zeros(len(points))
        for (a, b, c), coef in f.poly.items():
            ang += coef * d[:, 0] ** a * d[:, 1] ** b * d[:, 2] ** c
        out[i] = f.sign * ang * rad
        if deriv:
            drad = (-2 * f.exps[:, None] * f.dn[:, None] * np.exp(-np.outer(f.exps, r2))).sum(axis=0)
            for ax in range(3):
                dang = np.zeros(len(points))
                for n, coef in f.poly.items():
                    if n[ax] == 0:
                        continue
                    m = list(n)
                    m[ax] -= 1
                    dang += coef * n[ax] * d[:, 0] ** m[0] * d[:, 1] ** m[1] * d[:, 2] ** m[2]
                grad[i, :, ax] = f.sign * (dang * rad + ang * drad * d[:, ax])
            # d/dln(a) of  N(a) exp(-a r2):  N'(a) a = N (l/2 + 3/4);   -a r2 term
            prim = f.dn[:, None] * np.exp(-np.outer(f.exps, r2))
            dl = np.abs(prim * ((f.l / 2 + 0.75) - np.outer(f.exps, r2))).sum(axis=0)
            dlna[i] = np.abs(ang) * dl
    if deriv:
        return out, np.sqrt((grad**2).sum(axis=2)), dlna
    return out


def eval_funcs_abs(funcs, atcoords, points):
    """Sum of the absolute values of all primitive x polynomial-term contributions of each function at the points.

    This is the conditioning bound of a function value (cancellation between primitives of one contraction and between
    the terms of a solid harmonic is not hidden), used to scale tolerances.
    """
    atcoords = np.asarray(atcoords, dtype=float)
    points = np.asarray(points, dtype=float)
    out = np.zeros((len(funcs), len(points)))
    for i, f in enumerate(funcs):
        d = points - atcoords[f.icenter]
        r2 = (d * d).sum(axis=1)
        rad = (np.abs(f.dn)[:, None] * np.exp(-np.outer(f.exps, r2))).sum(axis=0)
        ang = np.zeros(len(points))
        for (a, b, c), coef in f.poly.items():
            ang += np.abs(coef * d[:, 0] ** a * d[:, 1] ** b * d[:, 2] ** c)
        out[i] = ang * rad
    return out


def eval_basis(obasis, atcoords, points):
    return eval_funcs(expand(obasis), atcoords, points)


# --------------------------------------------------------------------------------------
# exact overlaps by Gauss-Hermite quadrature of the polynomial prefactors

_GH_N = 20
_GH_X, _GH_W = np.polynomial.hermite.hermgauss(_GH_N)  # exact to degree 39


def _int1d(a, b, xa, xb, la, lb):
    """Table T[ka,kb,na,nb] = int (x-xa)^na (x-xb)^nb exp(-a (x-xa)^2 - b (x-xb)^2) dx.

    a: (Ka,), b: (Kb,).  Also returns the table of integrals of the absolute value bound
    (same polynomial with |.| of the factors), used for conditioning estimates.
    """
    p = a[:, None] + b[None, :]
    cen = (a[:, None] * xa + b[None, :] * xb) / p
    pref = np.exp(-a[:, None] * b[None, :] / p * (xa - xb) ** 2)
    x = cen[:, :, None] + _GH_X[None, None, :] / np.sqrt(p)[:, :, None]  # (Ka,Kb,n)
    w = _GH_W[None, None, :] / np.sqrt(p)[:, :, None] * pref[:, :, None]
    da = x - xa
    db = x - xb
    tab = np.zeros(p.shape + (la + 1, lb + 1))
    tabs = np.zeros_like(tab)
    for na in range(la + 1):
        fa = da**na
        for nb in range(lb + 1):
            g = fa * db**nb
            tab[:, :, na, nb] = (w * g).sum(axis=2)
            tabs[:, :, na, nb] = (w * np.abs(g)).sum(axis=2)
    return tab, tabs


def _terms(f):
    ks = sorted(f.poly)
    return np.array(ks, dtype=int).reshape(-1, 3), np.array([f.poly[k] for k in ks], dtype=float)


SCREEN = 2e-15  # primitive pairs whose Gaussian prefactor is below this may legitimately be skipped


def overlap_funcs(funcs0, atcoords0, funcs1=None, atcoords1=None, with_bound=False):
    """Exact overlap matrix <f0_i | f1_j>.

    with_bound=True also returns A_ij (sum of absolute values of all contributions: the
    conditioning bound) and T_ij (sum of absolute values of the contributions of primitive
    pairs whose prefactor exp(-a b/(a+b) R^2) is below SCREEN: what screening may drop).
    """
    atcoords0 = np.asarray(atcoords0, dtype=float)
    if funcs1 is None:
        funcs1, atcoords1 = funcs0, atcoords0
    atcoords1 = np.asarray(atcoords1, dtype=float)
    n0, n1 = len(funcs0), len(funcs1)
    S = np.zeros((n0, n1))
    A = np.zeros((n0, n1))
    T = np.zeros((n0, n1))
    cache = {}
    terms0 = [_terms(f) for f in funcs0]
    terms1 = terms0 if funcs1 is funcs0 else [_terms(g) for g in funcs1]
    for i, f in enumerate(funcs0):
        ra = atcoords0[f.icenter]
        fa, fc = terms0[i]
        for j, g in enumerate(funcs1):
            rb = atcoords1[g.icenter]
            ga, gc = terms1[j]
            key = (id(f.exps), id(g.exps), f.icenter, g.icenter, f.l, g.l)
            if key not in cache:
                tabs = [_int1d(f.exps, g.exps, ra[ax], rb[ax], f.l, g.l) for ax in range(3)]
                p = f.exps[:, None] + g.exps[None, :]
                pref = np.exp(-f.exps[:, None] * g.exps[None, :] / p * ((ra - rb) ** 2).sum())
                cache[key] = (tabs, pref < SCREEN)
            ((tx, txa), (ty, tya), (tz, tza)), mask = cache[key]
            w = np.outer(f.dn, g.dn)
            ix = (slice(None), slice(None))
            prim = (
                tx[ix + (fa[:, 0][:, None], ga[:, 0][None, :])]
                * ty[ix + (fa[:, 1][:, None], ga[:, 1][None, :])]
                * tz[ix + (fa[:, 2][:, None], ga[:, 2][None, :])]
            )
            S[i, j] = f.sign * g.sign * np.einsum("kl,klij,i,j->", w, prim, fc, gc)
            if with_bound:
                prima = (
                    txa[ix + (fa[:, 0][:, None], ga[:, 0][None, :])]
                    * tya[ix + (fa[:, 1][:, None], ga[:, 1][None, :])]
                    * tza[ix + (fa[:, 2][:, None], ga[:, 2][None, :])]
                )
                per = np.einsum("klij,i,j->kl", prima, np.abs(fc), np.abs(gc)) * np.abs(w)
                A[i, j] = per.sum()
                T[i, j] = per[mask].sum()
    if with_bound:
        return S, A, T
    return S


def overlap_exact(obasis0, atcoords0, obasis1=None, atcoords1=None, with_bound=False):
    f0 = expand(obasis0)
    f1 = None if obasis1 is None else expand(obasis1)
    return overlap_funcs(f0, atcoords0, f1, atcoords1, with_bound)


# --------------------------------------------------------------------------------------
# self test


class _Shell:
    def __init__(self, icenter, angmoms, kinds, exponents, coeffs):
        self.icenter = icenter
        self.angmoms = np.array(angmoms)
        self.kinds = np.array(kinds)
        self.exponents = np.array(exponents, dtype=float)
        self.coeffs = np.array(coeffs, dtype=float)


class _Basis:
    def __init__(self, shells, conventions):
        self.shells = shells
        self.conventions = conventions
        self.primitive_normalization = "L2"


def default_conventions(lmax=9):
    conv = {}
    for l in range(lmax + 1):
        conv[(l, "c")] = sorted(canonical_labels(l, "c"), key=lambda s: (-s.count("x"), -s.count("y")))
        if l >= 2:
            conv[(l, "p")] = ["c0"] + [x for m in range(1, l + 1) for x in (f"c{m}", f"s{m}")]
    return conv


def selftest(lmax=7):
    """Return None when R.gto agrees with itself, else a description of the failure."""
    conv = default_conventions(9)
    rng = np.random.default_rng(12345)
    for l in range(lmax + 1):
        for kind in ("c", "p") if l >= 2 else ("c",):
            sh = _Shell(0, [l], [kind], [0.7 + 0.3 * l], [[1.0]])
            b = _Basis([sh], conv)
            S = overlap_exact(b, np.zeros((1, 3)))
            if abs(np.diag(S) - 1).max() > 1e-12:
                return f"self-overlap of normalised primitives l={l} kind={kind}: {np.diag(S)}"
            if kind == "p" and abs(S - np.eye(len(S))).max() > 1e-12:
                return f"pure shell l={l} not orthonormal: {abs(S - np.eye(len(S))).max()}"
    # the two halves of R against each other: brute-force 3-D quadrature of eval_basis products
    shells = [
        _Shell(0, [0, 1], ["c", "c"], [1.3, 0.4], [[0.5, 0.3], [0.6, 0.8]]),
        _Shell(1, [2], ["p"], [0.9], [[1.0]]),
        _Shell(1, [3], ["c"], [1.1], [[1.0]]),
        _Shell(0, [3], ["p"], [0.8, 2.0], [[0.4], [0.7]]),
    ]
    b = _Basis(shells, conv)
    xyz = np.array([[0.0, 0.1, -0.2], [0.5, -0.3, 0.4]])
    S = overlap_exact(b, xyz)
    # trapezoid rule on a uniform grid: spectrally accurate for products of Gaussians
    h = 0.2
    g1 = np.arange(-6.0, 6.0 + h / 2, h)
    X, Y, Z = np.meshgrid(g1, g1, g1, indexing="ij")
    pts = np.stack([X.ravel(), Y.ravel(), Z.ravel()], axis=1)
    W = h**3
    vals = eval_basis(b, xyz, pts)
    Sq = (vals * W) @ vals.T
    if abs(Sq - S).max() > 1e-6:
        return f"overlap_exact vs 3-D quadrature: {abs(Sq - S).max()}"
    # sign flips and labels
    conv2 = dict(conv)
    conv2[(2, "p")] = ["-s2", "c0", "-c1", "s1", "c2"]
    b2 = _Basis([_Shell(0, [2], ["p"], [0.9], [[1.0]])], conv2)
    b1 = _Basis([_Shell(0, [2], ["p"], [0.9], [[1.0]])], conv)
    p = rng.normal(size=(5, 3))
    v1 = eval_basis(b1, np.zeros((1, 3)), p)
    v2 = eval_basis(b2, np.zeros((1, 3)), p)
    order = [conv[(2, "p")].index(x.lstrip("-")) for x in conv2[(2, "p")]]
    sg = np.array([-1 if x.startswith("-") else 1 for x in conv2[(2, "p")]])
    if abs(v2 - sg[:, None] * v1[order]).max() > 1e-14:
        return "sign/label handling"
    # known closed forms
    for (l, m, sine, expect) in [
        (1, 0, False, {(0, 0, 1): 1.0}),
        (1, 1, False, {(1, 0, 0): 1.0}),
        (1, 1, True, {(0, 1, 0): 1.0}),
        (2, 0, False, {(0, 0, 2): 1.0, (2, 0, 0): -0.5, (0, 2, 0): -0.5}),
        (2, 2, True, {(1, 1, 0): sqrt(3.0)}),
        (2, 1, False, {(1, 0, 1): sqrt(3.0)}),
        (2, 2, False, {(2, 0, 0): sqrt(3.0) / 2, (0, 2, 0): -sqrt(3.0) / 2}),
    ]:
        got = solid_harmonic(l, m, sine)
        if set(got) != set(expect) or any(abs(got[k] - expect[k]) > 1e-14 for k in expect):
            return f"solid harmonic {l},{m},{sine}: {got}"
    return None


if __name__ == "__main__":
    print(selftest(9))
