"""Reference model R.vendors: what quirky programs PRINT into Molden / MKL files for a given TRUE wavefunction.

A true wavefunction is the base.WFN-style dict of spec_writers/_wfnmodel.py: shells with contraction coefficients for
L2-normalised primitives (docs/basis.rst; every Cartesian function individually normalised), normalised contractions,
and MO coefficient rows in the standard Molden function order.  `encode(encoding, wfn)` returns the same dict with the
numbers the program would print ("shells"[i]["coeffs"], "mo_coeffs"); `decode` is its inverse.  Each encoder models what
the PROGRAM does (its own normalisation convention of primitives / basis functions), not iodata's repair code; the numeric
factors are validated by `validate()`: the decoder is applied to the raw numbers of the real vendor files of the corpus
and the decoded orbitals must be orthonormal under the independent overlap R.gto.

N(a, n) = gto.norm_cart(a, n): L2 norm constant of x^nx y^ny z^nz exp(-a r^2).

  orca        primitives printed "unnormalised": printed = c * N(a, n_l), n_l = (0,0,0) s, (1,0,0) p, (1,1,0) pure d,
              (1,1,1) pure f, (2,1,1) pure g, (5,0,0) pure h.  Real solid harmonics with |m| = 3, 4 have the opposite sign
              (rows c3,s3 for l>=3 and c4,s4 for l>=4 flipped; c5,s5 not).   [nh3_orca, h2o.molden.input, li2.molden.input, *.mkl]
  psi4_old    PSI4 < 1.0: s, p as ORCA; pure d printed = c * N(a,(1,1,0))/sqrt(3); pure f c * N(a,(1,1,1))/sqrt(15).   [nh3_psi4]
  turbomole   Cartesian shells normalised for the xx.. / xxx.. / xxxx.. member only and printed relative to the
              xy / xyz / (xxyy-like, 105) norm: printed = c / sqrt(3) (d), / sqrt(15) (f), / sqrt(105) (g).       [nh3_turbomole]
  cfour       Cartesian basis FUNCTIONS all carry the norm constant without double factorials (that of xy, xyz): MO rows
              printed = C * [1/sqrt3 x3, 1 x3] (d), [1/sqrt15 x3, 1/sqrt3 x6, 1] (f),
              [1/sqrt105 x3, 1/sqrt15 x6, 1/3 x3, 1/sqrt3 x3] (g); contraction coefficients untouched.               [*_cfour]
  unnormalized_contractions   (PSI4 1.0 ...) the basis-set-library contraction coefficients (normalised primitives) are
              printed without normalising the contraction: printed = c * f_shell, MO rows refer to the normalised
              contraction (unchanged).                                                                    [nh3_psi4_1.0, he2_ghost]
  psi4_132    PSI4 <= 1.3.2: unnormalised contractions AND Cartesian functions all normalised like xx / xxx / xxxx:
              MO rows printed = C * sqrt([1 x3, 3 x3]) (d), sqrt([1 x3, 5 x6, 15]) (f),
              sqrt([1 x3, 7 x6, 35/3 x3, 35 x3]) (g).                                                      [*_psi4_1.3.2_*]
"""

import copy
import os

import numpy as np

from . import gto
from .spec_writers import _wfnmodel as wm

ENCODINGS = ["orca", "psi4_old", "turbomole", "cfour", "unnormalized_contractions", "psi4_132"]

# shell types each program can write (beyond s and p, which all can)
PRODUCES = {
    "orca": [(2, "p"), (3, "p"), (4, "p"), (5, "p")],
    "psi4_old": [(2, "p"), (3, "p")],
    "turbomole": [(2, "c"), (3, "c"), (4, "c")],
    "cfour": [(2, "c"), (3, "c"), (4, "c")],
    "unnormalized_contractions": [(2, "p"), (3, "p"), (4, "p"), (2, "c"), (3, "c"), (4, "c")],
    "psi4_132": [(2, "c"), (3, "c"), (4, "c")],
}

_ORCA_N = {(0, "c"): (0, 0, 0), (1, "c"): (1, 0, 0), (2, "p"): (1, 1, 0), (3, "p"): (1, 1, 1), (4, "p"): (2, 1, 1), (5, "p"): (5, 0, 0)}


def _cart_classes(l):
    """Sorted power triple of every Cartesian function of the Molden order, e.g. 'xxy' -> (2,1,0)."""
    out = []
    for label in wm.MOLDEN_CONVENTIONS[(l, "c")]:
        out.append(tuple(sorted((label.count("x"), label.count("y"), label.count("z")), reverse=True)))
    return out


def _dfact_prod(n):
    return gto.dfact(2 * n[0] - 1) * gto.dfact(2 * n[1] - 1) * gto.dfact(2 * n[2] - 1)


def prim_factor(encoding, l, kind, alpha):
    """printed contraction coefficient / true coefficient, per primitive (excluding the arbitrary shell factor)."""
    alpha = np.asarray(alpha, dtype=float)
    one = np.ones_like(alpha)
    if encoding == "orca":
        n = _ORCA_N.get((l, kind))
        return one if n is None else gto.norm_cart(alpha, n)
    if encoding == "psi4_old":
        if (l, kind) in ((0, "c"), (1, "c")):
            return gto.norm_cart(alpha, _ORCA_N[(l, kind)])
        if (l, kind) == (2, "p"):
            return gto.norm_cart(alpha, (1, 1, 0)) / np.sqrt(3.0)
        if (l, kind) == (3, "p"):
            return gto.norm_cart(alpha, (1, 1, 1)) / np.sqrt(15.0)
        return one
    if encoding == "turbomole":
        if kind == "c" and l in (2, 3, 4):
            return one / np.sqrt(float(gto.dfact(2 * l - 1)))
        return one
    return one


def mo_factor(encoding, l, kind):
    """printed MO coefficient / true MO coefficient for the functions of one shell (Molden order)."""
    n = wm.nfunc(l, kind)
    f = np.ones(n)
    if encoding == "orca" and kind == "p":
        for i, label in enumerate(wm.MOLDEN_CONVENTIONS[(l, "p")]):
            if int(label[1:]) in (3, 4):
                f[i] = -1.0
    elif encoding == "cfour" and kind == "c" and 2 <= l <= 4:
        # every function carries the constant sqrt((2a/pi)^1.5 (4a)^l) WITHOUT the double-factorial denominator:
        # chi_cfour = sqrt(dfprod(n)) chi_true, hence C_cfour = C_true / sqrt(dfprod(n)),  dfprod = (2nx-1)!!(2ny-1)!!(2nz-1)!!
        f = np.array([1.0 / np.sqrt(_dfact_prod(n)) for n in _cart_classes(l)])
    elif encoding == "psi4_132" and kind == "c" and 2 <= l <= 4:
        # all functions carry the norm constant of x^l: chi_psi4 = N((l,0,0))/N(n) chi_true, C_psi4 = C_true * N(n)/N(l00)
        f = np.array([np.sqrt(_dfact_prod((l, 0, 0)) / _dfact_prod(n)) for n in _cart_classes(l)])
    return f


def _shell_factors(wfn, rng):
    """Arbitrary factor per shell for the unnormalised-contraction encodings (clearly different from 1 for nprim > 1)."""
    out = []
    for sh in wfn["shells"]:
        c = np.asarray(sh["coeffs"], dtype=float)
        if len(c) == 1 and (rng is None or rng.random() < 0.5):
            out.append(1.0 / abs(c[0]))  # a single primitive is usually printed with coefficient 1 ...
        elif rng is None:
            out.append(1.0 / np.sqrt((c * c).sum()))  # library-like: sum c^2 = 1
        else:  # ... but an uncontracted shell may carry an arbitrary factor as well (a contraction of length one)
            out.append(float(rng.choice([rng.uniform(0.35, 0.75), rng.uniform(1.35, 2.6)])) / (abs(c[0]) if len(c) == 1 else 1.0))
    return out


def applicable(encoding, shells):
    """Does the quirk change any printed number for this basis?"""
    types = {(sh["l"], sh["kind"]) for sh in shells}
    if encoding in ("orca", "psi4_old"):
        return True  # s and p primitives are always rescaled
    if encoding == "turbomole":
        return any(k == "c" and 2 <= l <= 4 for l, k in types)
    if encoding == "cfour":
        return any(k == "c" and 2 <= l <= 4 for l, k in types)
    if encoding == "unnormalized_contractions":
        return any(len(sh["exponents"]) > 1 for sh in shells)
    if encoding == "psi4_132":
        return any(k == "c" and 2 <= l <= 4 for l, k in types)
    raise ValueError(encoding)


def coincides_with(encoding, shells):
    """Other encodings that print exactly the same numbers for this basis (a reader cannot tell them apart)."""
    types = {(sh["l"], sh["kind"]) for sh in shells}
    out = []
    if encoding in ("orca", "psi4_old") and not any(k == "p" and l >= 2 for l, k in types):
        out.append("psi4_old" if encoding == "orca" else "orca")
    if encoding == "psi4_132" and not applicable("psi4_132", shells):
        out.append("unnormalized_contractions")
    return out


def producible(encoding, shells):
    """Can the program write this basis at all (shell types)?"""
    ok = {(0, "c"), (1, "c")} | set(PRODUCES[encoding])
    return all((sh["l"], sh["kind"]) in ok for sh in shells)


def _apply(encoding, wfn, direction, shell_factors=None):
    out = dict(wfn)
    out["shells"] = []
    rows = []
    for i, sh in enumerate(wfn["shells"]):
        new = dict(sh)
        pf = prim_factor(encoding, sh["l"], sh["kind"], sh["exponents"])
        if shell_factors is not None:
            pf = pf * shell_factors[i]
        c = np.asarray(sh["coeffs"], dtype=float)
        new["coeffs"] = c * pf if direction > 0 else c / pf
        out["shells"].append(new)
        rows.append(mo_factor(encoding, sh["l"], sh["kind"]))
    rows = np.concatenate(rows)
    C = np.asarray(wfn["mo_coeffs"], dtype=float)
    out["mo_coeffs"] = C * rows[:, None] if direction > 0 else C / rows[:, None]
    return out


def encode(encoding, wfn, rng=None):
    """Numbers as printed by the program for the true wavefunction `wfn`."""
    if encoding not in ENCODINGS:
        raise ValueError(encoding)
    sf = _shell_factors(wfn, rng) if encoding in ("unnormalized_contractions", "psi4_132") else None
    out = _apply(encoding, wfn, +1, sf)
    out["vendor"] = encoding
    return out


def decode(encoding, printed):
    """Inverse of encode: the true wavefunction from the printed numbers (contractions renormalised where the program
    does not normalise them)."""
    out = _apply(encoding, printed, -1)
    if encoding in ("unnormalized_contractions", "psi4_132"):
        for sh in out["shells"]:
            sh["coeffs"] = sh["coeffs"] / np.sqrt(wm.contraction_norm2(sh["l"], sh["exponents"], sh["coeffs"]))
    return out


# --------------------------------------------------------------------------------------
# validation against the real vendor files

CORPUS = os.environ.get("VF_REPO", "/repo") + "/iodata/test/data"
VALIDATION_FILES = [
    ("orca", "nh3_orca.molden"), ("orca", "h2o.molden.input"), ("orca", "li2.molden.input"),
    ("orca", "h2_sto3g.mkl"), ("orca", "ethanol.mkl"), ("orca", "li2.mkl"),
    ("psi4_old", "nh3_psi4.molden"),
    ("turbomole", "nh3_turbomole.molden"), ("turbomole", "neon_turbomole_def2-qzvp.molden"),
    ("cfour", "h2o_ccpvdz_cfour.molden"), ("cfour", "h_donly_cart_cfour.molden"), ("cfour", "h_fonly_cart_cfour.molden"),
    ("cfour", "h_gonly_cart_cfour.molden"), ("cfour", "h_donly_sph_cfour.molden"), ("cfour", "h_fonly_sph_cfour.molden"),
    ("cfour", "h_gonly_sph_cfour.molden"), ("cfour", "h_ponly_cart_cfour.molden"), ("cfour", "h_sonly_cart_cfour.molden"),
    ("unnormalized_contractions", "nh3_psi4_1.0.molden"), ("unnormalized_contractions", "he2_ghost_psi4_1.0.molden"),
    ("psi4_132", "h2o_psi4_1.3.2_6-31G_d_cart.molden"), ("psi4_132", "nh3_psi4_1.3.2_aug_cc_pvqz_cart.molden"),
]


def raw_wfn(path):
    """Uncorrected numbers of a Molden / MKL file as a wfn dict (uses iodata's low-level parser only to tokenise)."""
    from iodata.utils import LineIterator

    if path.endswith(".mkl"):
        from iodata.formats import molekel

        saved = molekel._fix_molden_from_buggy_codes
        molekel._fix_molden_from_buggy_codes = lambda *a, **k: None
        try:
            with LineIterator(path) as lit:
                res = molekel.load_one(lit)
        finally:
            molekel._fix_molden_from_buggy_codes = saved
    else:
        from iodata.formats.molden import _load_low

        with LineIterator(path) as lit:
            res = _load_low(lit)
    shells = []
    for sh in res["obasis"].shells:
        shells.append({"icenter": int(sh.icenter), "l": int(sh.angmoms[0]), "kind": str(sh.kinds[0]),
                       "exponents": np.array(sh.exponents, dtype=float), "coeffs": np.array(sh.coeffs[:, 0], dtype=float)})
    mo = res["mo"]
    return {"atcoords": np.array(res["atcoords"], dtype=float), "shells": shells, "conventions": wm.MOLDEN_CONVENTIONS,
            "mo_kind": mo.kind, "norba": mo.norba, "norbb": mo.norbb, "mo_coeffs": np.array(mo.coeffs, dtype=float),
            "mo_occs": np.array(mo.occs), "mo_energies": np.array(mo.energies)}


def validate(files=None, skip_large=False, with_raw=False):
    """file -> max|C^T S C - 1| of the DECODED vendor numbers (S = R.gto exact overlap).

    with_raw=True returns (decoded error, error without decoding) pairs.
    """
    out = {}
    for enc, name in files or VALIDATION_FILES:
        path = os.path.join(CORPUS, name)
        if skip_large and os.path.getsize(path) > 60000:
            continue
        raw = raw_wfn(path)
        dec = decode(enc, raw)
        err = wm.orthonormality_error(dec)
        out[name] = (err, wm.orthonormality_error(raw)) if with_raw else err
    return out


if __name__ == "__main__":
    for k, v in validate(with_raw=True).items():
        print(f"{k:45s} decoded {v[0]:.3e}   raw {v[1]:.3e}")
