#!/bin/bash
# Nothing to install: the framework is pure Python and uses only /venv (numpy, scipy, sympy, mpmath, attrs).
# Runs the self-test of the reference model so that a broken restore is noticed early.
cd "$(dirname "${BASH_SOURCE[0]}")" || exit 1
chmod +x check
mkdir -p evidence replay
/venv/bin/python -m vf.ref.gto | grep -q '^None$' || { echo "R.gto self-test failed"; exit 1; }
echo "setup ok"
